#!/bin/sh
# setup_cmd: verify the tools and parse every specification (offline; nothing is downloaded or built)
set -e
HERE="$(cd "$(dirname "$0")" && pwd)"
cd "$HERE"
test -x /venv/bin/python
test -f /opt/veriftools/tla/tla2tools.jar
command -v tlapm >/dev/null    # proof system: the proofs in spec/proofs are re-checked by the owning checks
java -version 2>&1 | head -1
PYTHONPATH=/repo /venv/bin/python -c "import torch, numpy, scipy, xitorch; print('xitorch', xitorch.__file__)"
mkdir -p out/work out/replay evidence
fail=0
for f in spec/*.tla; do
  out=$(cd spec && java -cp /opt/veriftools/tla/tla2tools.jar:/opt/veriftools/tla/CommunityModules-deps.jar tla2sany.SANY "$(basename "$f")" 2>&1) || true
  if echo "$out" | grep -q -e "Parse Error" -e "Semantic errors" -e "Fatal errors" -e "\*\*\* Errors"; then
    echo "SANY FAILED: $f"; echo "$out" | tail -20; fail=1
  fi
done
[ $fail -eq 0 ] && echo "setup ok: $(ls spec/*.tla | wc -l) modules parse"
exit $fail
