CONSTANTS
  NTimes = 0
  MaxTries = 0
  LandExactly = TRUE
  NoGrowAfterReject = TRUE
  HoldOnLanding = TRUE
SPECIFICATION TSpec
CONSTRAINT Prog
POSTCONDITION Post
CHECK_DEADLOCK FALSE
