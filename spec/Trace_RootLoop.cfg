CONSTANTS
  Kinds = {}
  MaxIterMax = 0
  ReturnTested = TRUE
  ZeroResidualStops = TRUE
  EarlyFixedPoint = TRUE
  WarnIffNotConverged = TRUE
SPECIFICATION TSpec
CONSTRAINT Prog
POSTCONDITION Post
CHECK_DEADLOCK FALSE
