----------------------------- MODULE BckDispatch -----------------------------
(***************************************************************************)
(* Who runs where: the method that produces the forward solution and the   *)
(* method that is run inside the backward pass, for the functionals whose  *)
(* backward pass itself calls a numerical method.                          *)
(*                                                                         *)
(*   SameKind  (solve_ivp, quad): backward re-runs the functional on the   *)
(*             adjoint / differentiated problem.  Its method is the one in *)
(*             bck_options if given, else the forward method.              *)
(*   LinearBwd (solve, symeig, rootfinder, equilibrium, minimize):         *)
(*             backward is a linear solve; its method is the one in        *)
(*             bck_options if given, else solve's own default - never the  *)
(*             forward method (which belongs to another family).           *)
(*                                                                         *)
(* Forward method kinds: a built-in name, a callable wrapping a built-in,  *)
(* an "oracle" callable returning the solution without using the function  *)
(* (closed form, no autograd graph).  The gradient must not depend on the  *)
(* kind.  An oracle cannot integrate the adjoint problem, hence for        *)
(* SameKind it is only meaningful together with an explicit backward       *)
(* method (rows without one are outside the property).                     *)
(*                                                                         *)
(* Deviation switches (TRUE = intended): BckWins (an explicit backward     *)
(* method overrides the inherited one), NoForwardLeak (backward options    *)
(* do not reach the forward call).                                         *)
(***************************************************************************)
EXTENDS Naturals, TLC
CONSTANTS BckWins, NoForwardLeak
SameKind == {"solve_ivp", "quad"}
LinearBwd == {"solve", "symeig", "rootfinder", "equilibrium", "minimize"}
F == SameKind \cup LinearBwd
FwdKinds == {"builtin", "wrapper", "oracle"}
BckKinds == {"unset", "builtin", "callable"}
VARIABLES f, fk, bk, who
vars == <<f, fk, bk, who>>
Meaningful(ff, k1, k2) == ~(ff \in SameKind /\ k1 = "oracle" /\ k2 = "unset")
\* the method run inside the backward pass: "fwd" (the forward one, inherited), "bck" (the caller's), "default"
BwdMethod(ff, k1, k2) ==
   IF ff \in SameKind THEN (IF k2 # "unset" /\ BckWins THEN "bck" ELSE "fwd")
   ELSE (IF k2 # "unset" THEN "bck" ELSE "default")
Who(ff, k1, k2) ==
   [fwdCallableInFwd |-> k1 # "builtin",
    fwdCallableInBwd |-> k1 # "builtin" /\ BwdMethod(ff, k1, k2) = "fwd",
    bckCallableInFwd |-> k2 = "callable" /\ ~NoForwardLeak,
    bckCallableInBwd |-> k2 = "callable" /\ BwdMethod(ff, k1, k2) = "bck",
    bwd |-> BwdMethod(ff, k1, k2)]
Init == /\ f \in F /\ fk \in FwdKinds /\ bk \in BckKinds /\ Meaningful(f, fk, bk)
        /\ who = Who(f, fk, bk)
Next == UNCHANGED vars
Spec == Init /\ [][Next]_vars
CallersBackwardMethodIsUsed == bk = "callable" => who.bckCallableInBwd /\ ~who.fwdCallableInBwd
BackwardMethodNotInForward == ~who.bckCallableInFwd
ForwardCallableAlwaysProducesSolution == fk # "builtin" => who.fwdCallableInFwd
OracleNeverDifferentiates == fk = "oracle" => ~who.fwdCallableInBwd
=============================================================================
