----------------------------- MODULE LinopExpr -----------------------------
(***************************************************************************)
(* xitorch.LinearOperator expression trees, the literal dispatch of the    *)
(* public products mv / rmv / mm / rmm / fullmatrix through the private    *)
(* methods of the composed classes (xitorch/_core/linop.py), and their     *)
(* denotation as concrete 2x2 integer matrices.                            *)
(*                                                                         *)
(* A leaf is a user-defined operator with a fixed matrix and a set of      *)
(* optional private methods ("caps").  Expressions are built through the   *)
(* same constructors as the public API (.H, scalar *, +, -, matmul), with  *)
(* the same merging rules (dense operands fold into a dense operator,      *)
(* .H of a Hermitian-flagged operator is itself, .H.H unwraps).            *)
(* Dispatch is transcribed method by method; a result is                   *)
(*     [ok |-> BOOLEAN, v |-> value, p |-> sequence of leaf primitives]    *)
(* where p is the predicted call log of the leaves.                        *)
(*                                                                         *)
(* Deviation switches (TRUE = intended):                                   *)
(*   MulRmvUsesPublic  scaled operator's _rmv goes through operand.rmv     *)
(*   AdjMvFallsBack    .H.mv of an operator without _rmv falls back to     *)
(*                     the operand's public rmv (adjoint trick)            *)
(*   MatmulNotHerm     a product of operators is not flagged Hermitian     *)
(*                     unless the caller says so (two Hermitian operands   *)
(*                     need not commute: S1 S2 # S2 S1 for the two         *)
(*                     Hermitian-flagged leaves)                           *)
(***************************************************************************)
EXTENDS Integers, Sequences, FiniteSets, TLC
CONSTANTS MulRmvUsesPublic, AdjMvFallsBack, MatmulNotHerm, Depth

\* ---------- 2x2 integer matrices <<a,b,c,d>> (row major), vectors <<x,y>>
MV(m, x) == << m[1]*x[1] + m[2]*x[2], m[3]*x[1] + m[4]*x[2] >>
T(m) == << m[1], m[3], m[2], m[4] >>
MM(m, n) == << m[1]*n[1]+m[2]*n[3], m[1]*n[2]+m[2]*n[4], m[3]*n[1]+m[4]*n[3], m[3]*n[2]+m[4]*n[4] >>
MAdd(m, n, s) == << m[1]+s*n[1], m[2]+s*n[2], m[3]+s*n[3], m[4]+s*n[4] >>
MScale(m, f) == << m[1]*f, m[2]*f, m[3]*f, m[4]*f >>
VAdd(x, y, s) == << x[1]+s*y[1], x[2]+s*y[2] >>
VScale(x, f) == << x[1]*f, x[2]*f >>
Col(m, j) == IF j = 1 THEN <<m[1], m[3]>> ELSE <<m[2], m[4]>>
FromCols(c1, c2) == <<c1[1], c2[1], c1[2], c2[2]>>
I2 == <<1, 0, 0, 1>>

\* ---------- leaves
LeafMat == [ L1 |-> <<1,2,3,5>>, L2 |-> <<2,-1,0,3>>, S1 |-> <<2,1,1,4>>, S2 |-> <<1,3,3,-2>> ]   \* S1, S2 symmetric, S1 S2 # S2 S1
LeafKinds == { [id |-> "L1", caps |-> {}, herm |-> FALSE, mat |-> FALSE],                    \* _mv only
               [id |-> "L2", caps |-> {"rmv"}, herm |-> FALSE, mat |-> FALSE],               \* _mv + _rmv
               [id |-> "L1", caps |-> {"mm"}, herm |-> FALSE, mat |-> FALSE],                \* _mv + _mm
               [id |-> "L2", caps |-> {"rmv","mm","rmm"}, herm |-> FALSE, mat |-> FALSE],    \* all products
               [id |-> "S1", caps |-> {}, herm |-> TRUE, mat |-> FALSE],                     \* Hermitian-flagged, _mv only
               [id |-> "S2", caps |-> {}, herm |-> TRUE, mat |-> FALSE],                     \* a second one that does not commute with the first
               [id |-> "L2", caps |-> {"rmv","mm","rmm","fm"}, herm |-> FALSE, mat |-> TRUE] }  \* MatrixLinearOperator
Leaf(k) == [t |-> "leaf", k |-> k]
Tag(e) == e.k.id \o (IF "rmv" \in e.k.caps THEN "r" ELSE "") \o (IF "mm" \in e.k.caps THEN "m" ELSE "")
               \o (IF "rmm" \in e.k.caps THEN "R" ELSE "") \o (IF e.k.herm THEN "h" ELSE "") \o (IF e.k.mat THEN "M" ELSE "")

\* ---------- constructors (as the public API builds them)
IsMat(e) == e.t = "leaf" /\ e.k.mat
Dense(e) == e.t = "mat2" \/ IsMat(e)
Herm(e) == CASE e.t = "leaf" -> e.k.herm
             [] e.t = "matmul" -> e.herm
             [] OTHER -> e.herm
\* the class of every composed operator defines _rmv; leaves define what their kind says
Caps(e) == CASE e.t = "leaf" -> e.k.caps
             [] e.t = "mat2" -> {"rmv","mm","rmm","fm"}
             [] OTHER -> {"rmv"}
RECURSIVE Den(_)
Den(e) == CASE e.t = "leaf" -> LeafMat[e.k.id]
            [] e.t = "mat2" -> e.m
            [] e.t = "adj" -> T(Den(e.o))
            [] e.t = "mul" -> MScale(Den(e.a), e.f)
            [] e.t = "add" -> MAdd(Den(e.a), Den(e.b), e.s)
            [] e.t = "matmul" -> MM(Den(e.a), Den(e.b))
Sym(m) == m[2] = m[3]
MkH(e) == IF Herm(e) THEN e
          ELSE IF Dense(e) THEN [t |-> "mat2", m |-> T(Den(e)), herm |-> Sym(Den(e))]       \* LinearOperator.m checks symmetry
          ELSE IF e.t = "adj" THEN e.o
          ELSE [t |-> "adj", o |-> e, herm |-> FALSE]
MkMul(e, f) == IF IsMat(e) \/ e.t = "mat2" THEN [t |-> "mat2", m |-> MScale(Den(e), f), herm |-> Sym(MScale(Den(e), f))]
               ELSE [t |-> "mul", a |-> e, f |-> f, herm |-> Herm(e)]
MkAdd(a, b, s) == IF Dense(a) /\ Dense(b) THEN [t |-> "mat2", m |-> MAdd(Den(a), Den(b), s), herm |-> Sym(MAdd(Den(a), Den(b), s))]
                  ELSE [t |-> "add", a |-> a, b |-> b, s |-> s, herm |-> Herm(a) /\ Herm(b)]
MkMatmul(a, b) == IF Dense(a) /\ Dense(b) THEN [t |-> "mat2", m |-> MM(Den(a), Den(b)), herm |-> FALSE]   \* is_hermitian=False given
                  ELSE [t |-> "matmul", a |-> a, b |-> b, herm |-> IF MatmulNotHerm THEN FALSE ELSE Herm(a) /\ Herm(b)]

\* ---------- results
Ok(v, p) == [ok |-> TRUE, v |-> v, p |-> p]
Raise == [ok |-> FALSE, v |-> <<>>, p |-> <<>>]
Bind(r, F(_)) == IF r.ok THEN LET s == F(r.v) IN IF s.ok THEN Ok(s.v, r.p \o s.p) ELSE Raise ELSE Raise
Map(r, F(_)) == IF r.ok THEN Ok(F(r.v), r.p) ELSE Raise
Lift2(r1, r2, F(_,_)) == IF r1.ok /\ r2.ok THEN Ok(F(r1.v, r2.v), r1.p \o r2.p) ELSE Raise
E1 == <<1,0>>
E2 == <<0,1>>

RECURSIVE PMv(_,_), PRmv(_,_), Umv(_,_), Urmv(_,_)
\* private _mv / _rmv of each class
Umv(e, x) == CASE e.t = "leaf" -> Ok(MV(LeafMat[e.k.id], x), <<Tag(e) \o "._mv">>)
               [] e.t = "mat2" -> Ok(MV(e.m, x), <<>>)
               [] e.t = "adj" -> IF "rmv" \in Caps(e.o) THEN Urmv(e.o, x)
                                 ELSE IF AdjMvFallsBack THEN PRmv(e.o, x) ELSE Raise
               [] e.t = "mul" -> Map(Umv(e.a, x), LAMBDA v : VScale(v, e.f))
               [] e.t = "add" -> Lift2(Umv(e.a, x), Umv(e.b, x), LAMBDA u, w : VAdd(u, w, e.s))
               [] e.t = "matmul" -> Bind(Umv(e.b, x), LAMBDA v : Umv(e.a, v))
Urmv(e, x) == CASE e.t = "leaf" -> IF "rmv" \in e.k.caps THEN Ok(MV(T(LeafMat[e.k.id]), x), <<Tag(e) \o "._rmv">>)
                                   ELSE Raise                                   \* NotImplementedError
                [] e.t = "mat2" -> Ok(MV(T(e.m), x), <<>>)
                [] e.t = "adj" -> Umv(e.o, x)
                [] e.t = "mul" -> Map(IF MulRmvUsesPublic THEN PRmv(e.a, x) ELSE Urmv(e.a, x), LAMBDA v : VScale(v, e.f))
                [] e.t = "add" -> Lift2(PRmv(e.a, x), PRmv(e.b, x), LAMBDA u, w : VAdd(u, w, e.s))
                [] e.t = "matmul" -> Bind(PRmv(e.a, x), LAMBDA v : PRmv(e.b, v))
\* public mv / rmv
PMv(e, x) == Umv(e, x)
\* autograd adjoint trick: one evaluation of mv (on a dummy) differentiated against x; its value is the transposed mv-matrix
AdjTrick(e, x) ==
   LET c1 == PMv(e, E1)  c2 == PMv(e, E2) IN
   IF c1.ok /\ c2.ok THEN Ok(<< c1.v[1]*x[1] + c1.v[2]*x[2], c2.v[1]*x[1] + c2.v[2]*x[2] >>, c1.p) ELSE Raise
PRmv(e, x) == IF Herm(e) THEN Umv(e, x)
              ELSE IF "rmv" \in Caps(e) THEN Urmv(e, x)
              ELSE AdjTrick(e, x)
\* mm: _mm if the class defines it, else one batched _mv over the columns
Cols2(r1, r2) == IF r1.ok /\ r2.ok THEN Ok(FromCols(r1.v, r2.v), r1.p) ELSE Raise     \* one batched call: log of one column
PMm(e, X) == IF "mm" \in Caps(e)
             THEN IF e.t = "mat2" THEN Ok(MM(e.m, X), <<>>) ELSE Ok(MM(LeafMat[e.k.id], X), <<Tag(e) \o "._mm">>)
             ELSE Cols2(Umv(e, Col(X, 1)), Umv(e, Col(X, 2)))
PRmm(e, X) == IF Herm(e) THEN PMm(e, X)
              ELSE IF "rmm" \in Caps(e)
                   THEN IF e.t = "mat2" THEN Ok(MM(T(e.m), X), <<>>) ELSE Ok(MM(T(LeafMat[e.k.id]), X), <<Tag(e) \o "._rmm">>)
              ELSE IF "rmv" \in Caps(e) THEN Cols2(Urmv(e, Col(X, 1)), Urmv(e, Col(X, 2)))
              ELSE Cols2(PRmv(e, Col(X, 1)), PRmv(e, Col(X, 2)))
PFull(e) == IF "fm" \in Caps(e) THEN Ok(Den(e), <<>>) ELSE PMm(e, I2)

\* ---------- enumeration of expressions
D0 == { Leaf(k) : k \in LeafKinds }
Step(S) == S \cup { MkH(e) : e \in S } \cup { MkMul(e, 2) : e \in S }
             \cup { MkAdd(a, b, s) : a \in S, b \in D0, s \in {1, -1} }
             \cup { MkMatmul(a, b) : a \in S, b \in D0 } \cup { MkMatmul(b, a) : a \in S, b \in D0 }
RECURSIVE Exprs(_)
Exprs(d) == IF d = 0 THEN D0 ELSE Step(Exprs(d - 1))

X == <<3, -2>>
XM == <<3, 1, -2, 4>>
Predict(e) == [mv |-> PMv(e, X), rmv |-> PRmv(e, X), mm |-> PMm(e, XM), rmm |-> PRmm(e, XM), fm |-> PFull(e)]

VARIABLES e, pred
vars == <<e, pred>>
Init == e \in Exprs(Depth) /\ pred = Predict(e)
Next == UNCHANGED vars
Spec == Init /\ [][Next]_vars

\* the property: all products describe one and the same matrix, the denotation of the expression
Val(r) == [ok |-> r.ok, v |-> r.v]
AllGood == /\ Val(pred.mv) = [ok |-> TRUE, v |-> MV(Den(e), X)]
           /\ Val(pred.rmv) = [ok |-> TRUE, v |-> MV(T(Den(e)), X)]
           /\ Val(pred.mm) = [ok |-> TRUE, v |-> MM(Den(e), XM)]
           /\ Val(pred.rmm) = [ok |-> TRUE, v |-> MM(T(Den(e)), XM)]
           /\ Val(pred.fm) = [ok |-> TRUE, v |-> Den(e)]
\* a Hermitian-flagged expression denotes a symmetric matrix
HermSound == Herm(e) => Sym(Den(e))
=============================================================================
