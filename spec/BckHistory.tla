----------------------------- MODULE BckHistory -----------------------------
(***************************************************************************)
(* Histories of calls of one functional in one process.  Every call gives  *)
(* forward options (one of two variants) and either gives bck_options or   *)
(* leaves the default.  The configuration the backward pass of call i      *)
(* works with is a function of call i alone:                               *)
(*      bck_options of the call, if given;                                 *)
(*      else its own forward options for the functionals that inherit      *)
(*      (solve_ivp, quad), and the backward solver's defaults for the      *)
(*      others (rootfinder, equilibrium, minimize: a linear solve).        *)
(* The model carries the one piece of state through which calls could      *)
(* influence each other - the default bck_options object of the            *)
(* functional, shared by all calls that do not pass their own - and the    *)
(* deviation switch DefaultsImmutable (TRUE = intended) says that no call  *)
(* writes to it.                                                           *)
(***************************************************************************)
EXTENDS Naturals, Sequences, TLC
CONSTANTS Fs, MaxLen, DefaultsImmutable
Inherit == {"solve_ivp", "quad"}
Variants == {"v1", "v2"}
VARIABLES f, hist, shared
vars == <<f, hist, shared>>
Init == f \in Fs /\ hist = <<>> /\ shared = "empty"
Expected(ff, v, given) == IF given THEN "b" ELSE IF ff \in Inherit THEN v ELSE "default"
Eff(v, given) == IF given THEN "b" ELSE IF shared # "empty" THEN shared ELSE IF f \in Inherit THEN v ELSE "default"
Call(v, given) ==
   /\ Len(hist) < MaxLen
   /\ hist' = Append(hist, [v |-> v, given |-> given, eff |-> Eff(v, given)])
   /\ shared' = IF ~DefaultsImmutable /\ ~given /\ shared = "empty" THEN v ELSE shared
   /\ UNCHANGED f
Next == \E v \in Variants, given \in BOOLEAN : Call(v, given)
Spec == Init /\ [][Next]_vars
BackwardConfigIsOwn == \A i \in 1..Len(hist) : hist[i].eff = Expected(f, hist[i].v, hist[i].given)
=============================================================================
