CONSTANTS
  MaxAlias = 1
  MaxKids = 1
  Depth = 0
  Kinds = {"L"}
  PutOrder = "same"
  UseInverse = TRUE
  OwnCache = TRUE
SPECIFICATION TSpec
CONSTRAINT Prog
POSTCONDITION Post
CHECK_DEADLOCK FALSE
