----------------------------- MODULE SQuadShape -----------------------------
(* Shape table of SQuad.cumsum / SQuad.integrate: y of rank 1..MaxRank whose dimension `dim` (negative indices     *)
(* allowed) has the length of the sample positions; all other dimensions are untouched and keep their order.        *)
(* A y of any other length along `dim` is rejected - longer, shorter, and also length 1 (which would broadcast       *)
(* silently against the weights).                                                                                    *)
EXTENDS Integers, Sequences, TLC
CONSTANTS MaxRank, NX
VARIABLES rank, dim, keepdim, mismatch, unit, pred
vars == <<rank, dim, keepdim, mismatch, unit, pred>>
\* size of the k-th non-integrated dimension: all different from each other, except that one of them (position `unit`,
\* 0 = none) may have size 1 - a size-1 dimension is a dimension like any other, it is neither dropped nor broadcast
Other(k) == IF k = unit THEN 1 ELSE k + 1
Pos == IF dim < 0 THEN dim + rank + 1 ELSE dim + 1      \* 1-based position of the integrated dimension
Mismatches == {"none", "longer", "shorter", "one"}
LenAlong == CASE mismatch = "none" -> NX [] mismatch = "longer" -> NX + 1 [] mismatch = "shorter" -> NX - 1 [] mismatch = "one" -> 1
YShape == [k \in 1..rank |-> IF k = Pos THEN LenAlong ELSE Other(k)]
Without(s, p) == [k \in 1..(Len(s) - 1) |-> IF k < p THEN s[k] ELSE s[k + 1]]
Predict == IF mismatch # "none" THEN [ok |-> FALSE, cumsum |-> <<>>, integrate |-> <<>>]
           ELSE [ok |-> TRUE, cumsum |-> YShape,
                 integrate |-> IF keepdim THEN [YShape EXCEPT ![Pos] = 1] ELSE Without(YShape, Pos)]
Init == /\ rank \in 1..MaxRank /\ dim \in (-rank)..(rank - 1) /\ keepdim \in BOOLEAN /\ mismatch \in Mismatches
        /\ unit \in 0..rank /\ unit # Pos /\ (mismatch # "none" => unit = 0) /\ pred = Predict
Next == UNCHANGED vars
Spec == Init /\ [][Next]_vars
Sane == pred.ok => (Len(pred.cumsum) = rank /\ Len(pred.integrate) = (IF keepdim THEN rank ELSE rank - 1))
=============================================================================
