------------------------------ MODULE FnKinds ------------------------------
(***************************************************************************)
(* What xitorch accepts as "a function" (get_pure_function) and which      *)
(* object parameters it exposes for it:                                    *)
(*   plain / lambda / TorchScript function      -> no object parameters    *)
(*   bound method of an EditableModule          -> the tensors named by    *)
(*                                                  getparamnames(method)  *)
(*   bound method of a torch.nn.Module          -> all named parameters    *)
(*   callable instance of either                -> as its __call__ method  *)
(*   an existing PureFunction / sibling         -> itself (same object)    *)
(*   method or callable instance of any other   *)
(*   object, non-callable                       -> rejected                *)
(***************************************************************************)
EXTENDS Naturals, TLC
Kinds == {"function", "lambda", "scripted", "edit_method", "nn_method", "plain_method", "edit_instance", "nn_instance",
          "plain_instance", "purefunction", "sibling", "noncallable"}
VARIABLES kind, pred
vars == <<kind, pred>>
Class == CASE kind \in {"function", "lambda", "scripted"} -> "FunctionPureFunction"
           [] kind \in {"edit_method", "edit_instance"} -> "EditableModulePureFunction"
           [] kind \in {"nn_method", "nn_instance"} -> "TorchNNPureFunction"
           [] kind = "purefunction" -> "same"
           [] kind = "sibling" -> "same"
           [] OTHER -> "raise"
NObj == CASE kind \in {"function", "lambda", "scripted"} -> 0
          [] kind \in {"edit_method", "edit_instance"} -> 2          \* the test object declares two tensors
          [] kind \in {"nn_method", "nn_instance"} -> 3               \* the test module registers three parameters
          [] OTHER -> 0
Init == kind \in Kinds /\ pred = [cls |-> Class, nobj |-> NObj]
Next == UNCHANGED vars
Spec == Init /\ [][Next]_vars
FunctionsHaveNoObjectParams == pred.cls = "FunctionPureFunction" => pred.nobj = 0
=============================================================================
