CONSTANTS
  Kinds = {}
  MaxIterMax = 0
  ReturnTested = FALSE
  ZeroResidualStops = FALSE
  EarlyFixedPoint = FALSE
  WarnIffNotConverged = TRUE
SPECIFICATION TSpec
CONSTRAINT Prog
POSTCONDITION Post
CHECK_DEADLOCK FALSE
