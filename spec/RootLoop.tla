------------------------------ MODULE RootLoop ------------------------------
(***************************************************************************)
(* The iteration loops behind xitorch.optimize.rootfinder / equilibrium /  *)
(* minimize, as control skeletons:                                         *)
(*   kind "nonlin"   _nonlin_solver (newton, broyden1, broyden2,           *)
(*                   linearmixing): quasi-Newton loop, AND-type stop test, *)
(*                   best-iterate fallback with warning, zero-step guard   *)
(*   kind "anderson" anderson_acc: two plain fixed-point steps, then       *)
(*                   accelerated steps k = 2 .. maxiter-1                  *)
(*   kind "opt"      gd / adam: evaluate, step, OR-type stagnation test,   *)
(*                   best-evaluated fallback with warning                  *)
(* Iterates are numbered 0 (the initial guess), 1, 2, ...  What TLC        *)
(* chooses per iterate is its residual class relative to the requested     *)
(* tolerance, res[j] in {"zero","below","above"}, and the class of the     *)
(* step that produced it, "small" (below x_tol) or "large".                *)
(*                                                                         *)
(* Deviation switches (TRUE = intended):                                   *)
(*   ReturnTested        on a passed stop test the tested iterate is the   *)
(*                       one returned (FALSE: the previous one)            *)
(*   ZeroResidualStops   an iterate with exactly zero residual ends the    *)
(*                       loop (FALSE: only the AND test; the next step is  *)
(*                       then the zero vector and the solver raises)       *)
(*   EarlyFixedPoint     anderson: if f(x0) is already a fixed point it is *)
(*                       returned (FALSE: x0 is returned)                  *)
(*   WarnIffNotConverged the warning is raised exactly when no test passed *)
(***************************************************************************)
EXTENDS Naturals, Sequences, TLC
CONSTANTS Kinds, MaxIterMax, ReturnTested, ZeroResidualStops, EarlyFixedPoint, WarnIffNotConverged
ResC == {"zero", "below", "above"}
VARIABLES kind, maxiter, pc, i,
          res,      \* res[j+1] = residual class of iterate j (for "opt": "below" <=> f(x_j) <= f(x_0))
          n,        \* number of iterates produced so far minus one (= index of the newest)
          x,        \* index of the iterate held in the loop variable that is returned on convergence
          tested,   \* index of the iterate last passed to the stop test (0 if none)
          best,     \* index of the best iterate seen (for the fallback)
          converged, warned, raised, ret,
          early     \* the call returned from a start-up shortcut (exact root / fixed point at the initial guess)
vars == <<kind, maxiter, pc, i, res, n, x, tested, best, converged, warned, raised, ret, early>>
Res(j) == res[j + 1]
Rank(c) == CASE c = "zero" -> 0 [] c = "below" -> 1 [] c = "above" -> 2
Better(a, b) == Rank(a) < Rank(b)

Init == /\ kind \in Kinds /\ maxiter \in 0..MaxIterMax
        /\ pc = "start" /\ i = 0 /\ res = <<>> /\ n = 0 /\ x = 0 /\ tested = 0 /\ best = 0
        /\ converged = FALSE /\ warned = FALSE /\ raised = FALSE /\ ret = 0 /\ early = FALSE
Done(r, w) == /\ pc' = "done" /\ ret' = r /\ warned' = w

---------------------------------------------------------------------------
(* nonlin *)
\* y = f(x0); exact root: return at once
NlStart(r0) ==
   /\ kind = "nonlin" /\ pc = "start" /\ res' = <<r0>>
   /\ IF r0 = "zero" THEN Done(0, FALSE) /\ UNCHANGED <<i, n, x, tested, best, converged, raised>>
      ELSE pc' = "loop" /\ UNCHANGED <<i, n, x, tested, best, converged, warned, raised, ret>>
   /\ early' = (r0 = "zero") /\ UNCHANGED <<kind, maxiter>>
\* one iteration: step from iterate x to a new iterate, stop test on the new one
NlIter(dxc, rc) ==
   /\ kind = "nonlin" /\ pc = "loop" /\ i < maxiter /\ Res(x) # "zero"
   /\ LET j == n + 1
          stop == (dxc = "small" /\ rc # "above") IN
      /\ n' = j /\ res' = Append(res, rc) /\ tested' = j /\ i' = i + 1
      /\ best' = IF Better(rc, Res(best)) THEN j ELSE best
      /\ IF stop THEN /\ converged' = TRUE /\ pc' = "exit" /\ x' = IF ReturnTested THEN j ELSE x
                 ELSE /\ x' = j /\ UNCHANGED <<converged, pc>>
   /\ UNCHANGED <<early, kind, maxiter, warned, raised, ret>>
\* the residual of the current iterate is exactly zero but the loop goes on: the step is the zero vector
\* intended: the current iterate is an exact root, nothing is left to do
NlZeroDone ==
   /\ kind = "nonlin" /\ pc = "loop" /\ i < maxiter /\ Res(x) = "zero" /\ ZeroResidualStops
   /\ converged' = TRUE /\ pc' = "exit"
   /\ UNCHANGED <<early, kind, maxiter, i, res, n, x, tested, best, warned, raised, ret>>
NlZeroStep ==
   /\ kind = "nonlin" /\ pc = "loop" /\ i < maxiter /\ Res(x) = "zero" /\ ~ZeroResidualStops
   /\ raised' = TRUE /\ pc' = "done"
   /\ UNCHANGED <<early, kind, maxiter, i, res, n, x, tested, best, converged, warned, ret>>
NlExhaust == /\ kind = "nonlin" /\ pc = "loop" /\ i = maxiter /\ pc' = "exit"
             /\ UNCHANGED <<early, kind, maxiter, i, res, n, x, tested, best, converged, warned, raised, ret>>
NlReturn == /\ kind = "nonlin" /\ pc = "exit"
            /\ IF converged THEN Done(x, ~WarnIffNotConverged) ELSE Done(best, WarnIffNotConverged)
            /\ UNCHANGED <<early, kind, maxiter, i, res, n, x, tested, best, converged, raised>>

\* the loop is left (a test passed, or the budget is used up) and the function returns: one observable step
NlFinish == LET zero == pc = "loop" /\ i < maxiter /\ Res(x) = "zero" /\ ZeroResidualStops IN
            /\ kind = "nonlin" /\ (pc = "exit" \/ (pc = "loop" /\ i = maxiter) \/ zero)
            /\ converged' = (converged \/ zero)
            /\ IF converged' THEN Done(x, ~WarnIffNotConverged) ELSE Done(best, WarnIffNotConverged)
            /\ UNCHANGED <<early, kind, maxiter, i, res, n, x, tested, best, raised>>
---------------------------------------------------------------------------
(* anderson *)
\* iterates 0 = x0, 1 = f(x0); res[j] = class of |f(x_j) - x_j|; the start-up looks only at iterate 1
AaStart(r0, r1) ==
   /\ kind = "anderson" /\ pc = "start" /\ res' = <<r0, r1>> /\ n' = 1 /\ x' = 1
   /\ (r0 = "zero" => r1 = "zero")                \* x0 a fixed point => f(x0) = x0 is one too
   /\ IF r1 = "zero" THEN Done(IF EarlyFixedPoint THEN 1 ELSE 0, FALSE) /\ UNCHANGED <<i, tested, best, converged, raised>>
      ELSE pc' = "loop" /\ i' = 2 /\ UNCHANGED <<tested, best, converged, warned, raised, ret>>
   /\ early' = (r1 = "zero") /\ UNCHANGED <<kind, maxiter>>
AaIter(dxc, rc) ==
   /\ kind = "anderson" /\ pc = "loop" /\ i < maxiter
   /\ LET j == n + 1  stop == (dxc = "small" /\ rc # "above") IN
      /\ n' = j /\ res' = Append(res, rc) /\ tested' = j /\ i' = i + 1 /\ x' = j
      /\ IF stop THEN converged' = TRUE /\ pc' = "exit" ELSE UNCHANGED <<converged, pc>>
   /\ UNCHANGED <<early, kind, maxiter, best, warned, raised, ret>>
AaExhaust == /\ kind = "anderson" /\ pc = "loop" /\ i >= maxiter /\ pc' = "exit"
             /\ UNCHANGED <<early, kind, maxiter, i, res, n, x, tested, best, converged, warned, raised, ret>>
AaReturn == /\ kind = "anderson" /\ pc = "exit"
            /\ Done(x, IF WarnIffNotConverged THEN ~converged ELSE FALSE)
            /\ UNCHANGED <<early, kind, maxiter, i, res, n, x, tested, best, converged, raised>>

AaFinish == /\ kind = "anderson" /\ (pc = "exit" \/ (pc = "loop" /\ i >= maxiter))
            /\ Done(x, IF WarnIffNotConverged THEN ~converged ELSE FALSE)
            /\ UNCHANGED <<early, kind, maxiter, i, res, n, x, tested, best, converged, raised>>
---------------------------------------------------------------------------
(* opt (gd, adam) *)
\* each iteration evaluates the objective at the newest iterate, then steps; res[j] = "below" iff f(x_j) <= f(x_0)
\* (known for evaluated iterates; the iterate returned on convergence has not been evaluated by the loop)
OptStart == /\ kind = "opt" /\ pc = "start" /\ res' = <<"below">> /\ pc' = "loop"
            /\ UNCHANGED <<early, kind, maxiter, i, n, x, tested, best, converged, warned, raised, ret>>
OptIter(stagnant, rnext, improves) ==
   /\ kind = "opt" /\ pc = "loop" /\ i < maxiter
   /\ LET j == n + 1  stop == i > 0 /\ stagnant IN
      /\ tested' = n                                 \* the objective was evaluated at iterate n
      /\ best' = IF n > 0 /\ improves THEN n ELSE best     \* strictly smaller objective than every earlier evaluation
      /\ (n > 0 /\ improves => Res(n) = "below")
      /\ n' = j /\ res' = Append(res, rnext) /\ x' = j /\ i' = i + 1
      /\ IF stop THEN converged' = TRUE /\ pc' = "exit" ELSE UNCHANGED <<converged, pc>>
   /\ UNCHANGED <<early, kind, maxiter, warned, raised, ret>>
OptExhaust == /\ kind = "opt" /\ pc = "loop" /\ i = maxiter /\ pc' = "exit"
              /\ UNCHANGED <<early, kind, maxiter, i, res, n, x, tested, best, converged, warned, raised, ret>>
OptReturn == /\ kind = "opt" /\ pc = "exit"
             /\ IF converged \/ maxiter = 0 THEN Done(x, FALSE) ELSE Done(best, WarnIffNotConverged)
             /\ UNCHANGED <<early, kind, maxiter, i, res, n, x, tested, best, converged, raised>>

OptFinish == /\ kind = "opt" /\ (pc = "exit" \/ (pc = "loop" /\ i = maxiter))
             /\ IF converged \/ maxiter = 0 THEN Done(x, FALSE) ELSE Done(best, WarnIffNotConverged)
             /\ UNCHANGED <<early, kind, maxiter, i, res, n, x, tested, best, converged, raised>>

Next == \/ \E r \in ResC : NlStart(r)
        \/ \E d \in {"small", "large"}, r \in ResC : NlIter(d, r) \/ AaIter(d, r)
        \/ NlZeroDone \/ NlZeroStep \/ NlExhaust \/ NlReturn
        \/ \E r0, r1 \in ResC : AaStart(r0, r1)
        \/ AaExhaust \/ AaReturn
        \/ OptStart \/ OptExhaust \/ OptReturn
        \/ \E s, im \in BOOLEAN, r \in {"below", "above"} : OptIter(s, r, im)
Spec == Init /\ [][Next]_vars

---------------------------------------------------------------------------
(* properties *)
Finished == pc = "done" /\ ~raised
Silent == Finished /\ ~warned
\* a silent return meets the tolerance the caller asked for (rootfinder / equilibrium)
SilentMeetsTol == (Silent /\ kind # "opt") => Res(ret) # "above"
\* ... and it is the iterate that passed the test, not an earlier or later one
SilentReturnsTested == (Silent /\ kind # "opt" /\ converged) => ret = tested
\* an exact root never makes the solver fail
NoRaiseAtRoot == ~raised
\* the minimizer's fallback is the best evaluated point, hence no worse than the initial guess
OptFallbackNoWorse == (Finished /\ kind = "opt" /\ warned) => Res(ret) = "below"
WarnedIffNotConverged == (Finished /\ kind # "opt") => (warned <=> (~converged /\ ~early))
TypeOK == /\ n + 1 >= Len(res) /\ ret <= n /\ best <= n /\ tested <= n
=============================================================================
