--------------------------- MODULE Trace_AdaptiveRK ---------------------------
(* Trial steps of the adaptive solvers recorded through the ark.try hook (floats compared in the harness and      *)
(* logged as classes) checked against AdaptiveRK.tla; the ret event carries the numeric verdicts of the run.      *)
EXTENDS AdaptiveRK, TraceLib
VARIABLES tid, l
tvars == <<vars, tid, l>>
ASSUME InitRegs
Ev == Traces[tid].ev
E == Ev[l]
TInit == /\ tid \in 1..NT /\ l = 1 /\ Init
IsEvent(a) == l <= Len(Ev) /\ E.a = a /\ l' = l + 1 /\ UNCHANGED tid
TTry == /\ IsEvent("try")
        /\ E.tgt = tgt /\ E.prev_rejected = prevRej
        /\ tgt <= Traces[tid].cfg.nt /\ tries' = tries + 1
        /\ (E.accept /\ ~E.over) => ((prevRej /\ NoGrowAfterReject) => E.grow # "up")
        /\ (E.accept /\ E.over) => (E.grow = "same" /\ E.landed_exact)
        /\ ~E.accept => E.grow = "down"
        /\ E.factor_ok /\ E.not_past
        /\ E.stage_ok      \* the trial is one step of the declared scheme from (t0, y0), first stage = f(t0, y0)
        /\ E.accept_ok     \* accepted iff the embedded error estimate is within the REQUESTED atol + rtol * max(|y0|, |ynew|)
        /\ LET landed == E.accept /\ E.over IN
           /\ last' = [accept |-> E.accept, over |-> E.over, grow |-> E.grow, landed |-> landed]
           /\ IF landed THEN pos' = "before" /\ recorded' = Append(recorded, tgt) /\ tgt' = tgt + 1
                        ELSE UNCHANGED <<pos, recorded, tgt>>
           /\ prevRej' = ~E.accept
TRet == /\ IsEvent("ret") /\ tgt = Traces[tid].cfg.nt + 1 /\ Len(recorded) = Traces[tid].cfg.nt
        /\ \A j \in 1..Len(E.verdicts) : E.verdicts[j][2]
        /\ UNCHANGED vars
TNext == TTry \/ TRet
TSpec == TInit /\ [][TNext]_tvars
Prog == Progress(tid, l)
=============================================================================
