------------------------------- MODULE EigSel -------------------------------
(***************************************************************************)
(* Which spectral pairs symeig / svd hand back, as index arithmetic on the *)
(* ascending spectrum 1..n of the (generalised) eigenproblem.              *)
(*   symeig(A, neig, mode): neig = None means all; mode "lowest" takes the *)
(*   first neig, "uppest" / "uppermost" the last neig, both in ascending   *)
(*   order.                                                                *)
(*   svd(A (m x n), k, mode): works on the Gram operator of the smaller    *)
(*   side (A A^H if m < n else A^H A, size min(m, n)); k = None means      *)
(*   min(m, n); singular values are the square roots of the selected       *)
(*   eigenvalues, ascending; default mode "uppest" = the k largest.        *)
(* Deviation switches: UppestTakesLast (TRUE intended), LowestTakesFirst.  *)
(***************************************************************************)
EXTENDS Naturals, Sequences, TLC
CONSTANTS MaxN, UppestTakesLast, LowestTakesFirst
Modes == {"lowest", "uppest", "uppermost"}
VARIABLES fn, m, n, k, kGiven, mode, pred
vars == <<fn, m, n, k, kGiven, mode, pred>>
Size == IF fn = "symeig" THEN n ELSE (IF m < n THEN m ELSE n)
K == IF kGiven THEN k ELSE Size
First(c) == [i \in 1..c |-> i]
Last(c, s) == [i \in 1..c |-> s - c + i]
Sel == IF mode = "lowest" THEN (IF LowestTakesFirst THEN First(K) ELSE Last(K, Size))
       ELSE (IF UppestTakesLast THEN Last(K, Size) ELSE First(K))
Predict == [idx |-> Sel, gram |-> IF fn = "svd" THEN (IF m < n THEN "AAH" ELSE "AHA") ELSE "none",
            ushape |-> <<m, K>>, vhshape |-> <<K, n>>]
Init == /\ fn \in {"symeig", "svd"} /\ m \in 1..MaxN /\ n \in 1..MaxN /\ kGiven \in BOOLEAN /\ k \in 1..MaxN
        /\ mode \in Modes
        /\ (fn = "symeig" => m = n)
        /\ k <= Size /\ (~kGiven => k = 1)
        /\ pred = Predict
Next == UNCHANGED vars
Spec == Init /\ [][Next]_vars
\* exactly K pairs, ascending, the extreme ones of the requested end
Ascending == \A i \in 1..(Len(pred.idx) - 1) : pred.idx[i] < pred.idx[i + 1]
Extreme == /\ Len(pred.idx) = K
           /\ (mode = "lowest" => pred.idx[1] = 1)
           /\ (mode # "lowest" => pred.idx[K] = Size)
=============================================================================
