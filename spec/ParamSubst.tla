----------------------------- MODULE ParamSubst -----------------------------
(***************************************************************************)
(* The temporary-substitution protocols of xitorch as one state machine:   *)
(*   PureFunction.set_objparams / restore_objparams / useobjparams         *)
(*   PureFunction.disable_state_change                                     *)
(*   LinearOperator.uselinopparams (on the Jacobian operator _Jac, whose   *)
(*   parameter list contains the object parameters of the function)        *)
(*   xitorch.debug.enable_debug / disable_debug                            *)
(* together with user-function evaluations that may raise at any index.    *)
(*                                                                         *)
(* The user's objects are a vector of SLOTS (named places: attributes,     *)
(* list or dict entries, registered nn.Parameters).  A slot holds a tensor *)
(* id; aliasing = two slots holding the same id.  A VIEW is a PureFunction *)
(* over a sequence of slots (its names, fixed when it is created, together *)
(* with the unique maps computed from what the slots held at that moment); *)
(* several views may cover the same slots (siblings, a second              *)
(* get_pure_function).  What a view believes the object currently holds   *)
(* (_cur_objparams) is a REFERENCE to a mutable list object in `heap`,     *)
(* because the code stores and re-installs the very list objects it is     *)
(* handed.                                                                 *)
(*                                                                         *)
(* Deviation switches (TRUE = intended behaviour):                         *)
(*   PushAlways   the restore stack is pushed also for identical lists     *)
(*   UseFinally   useobjparams restores in a finally clause                *)
(*   DbgFinally   the debug context managers restore in a finally clause   *)
(*   DisFinally   disable_state_change restores in a finally clause        *)
(*   LinFinally   uselinopparams restores in a finally clause              *)
(*   JacOwnList   the Jacobian operator holds its own copy of the list of  *)
(*                object parameters (FALSE: it holds _cur_objparams itself)*)
(*   ExposeAll    an nn.Module view substitutes every registered name      *)
(*                (FALSE: names are de-duplicated by tensor identity)      *)
(***************************************************************************)
EXTENDS Naturals, Sequences, FiniteSets, SequencesExt, TLC

CONSTANTS NS,          \* number of slots
          Slots0,      \* initial content, Seq of tensor ids of length NS
          Kind,        \* "edit" (EditableModule) | "nn" (torch.nn.Module)
          ParamIds,    \* tensor ids that are nn.Parameters
          Views,       \* view names; "pf" exists initially, the others are created on the way
          Cands,       \* candidate lists of unique tensors a caller may substitute
          MaxDepth, MaxLists, MaxEvals,
          PushAlways, UseFinally, DbgFinally, DisFinally, LinFinally, JacOwnList, ExposeAll

VARIABLES slots,     \* [slot -> tensor id]
          slots0,    \* what the slots held when the caller handed the objects over (never changes)
          reg,       \* nn: Seq of slot numbers = order of obj._parameters ; edit: <<>>
          heap,      \* [1..MaxLists -> Seq(tensor id)]  mutable list objects
          vnames,    \* [live views -> Seq(slot)]    names a view substitutes
          vc0,       \* [live views -> Seq(tensor)]  content of those names when the view was created
          cur,       \* [live views -> list id]      _cur_objparams
          stack,     \* [live views -> Seq([old, ident])] _restore_stack
          allowed,   \* [live views -> BOOLEAN]      _state_change_allowed
          jacList,   \* list id held by _Jac.objparams (0: no Jacobian operator yet)
          jac0,      \* what that list held when the operator was created
          debug,     \* global debug flag
          frames,    \* open with-blocks, innermost last
          evals, crashAt, unwinding,
          lastEval   \* [ok |-> the last user-function evaluation saw the requested tensors]
vars == <<slots, slots0, reg, heap, vnames, vc0, cur, stack, allowed, jacList, jac0, debug, frames,
          evals, crashAt, unwinding, lastEval>>

---------------------------------------------------------------------------
(* unique maps: Uniquifier / _get_unique_params_idxs *)
UPos(s) == {i \in 1..Len(s) : \A j \in 1..(i - 1) : s[j] # s[i]}
USeq(s) == LET ps == SetToSortSeq(UPos(s), <) IN [i \in 1..Len(ps) |-> s[ps[i]]]
First(s, i) == CHOOSE j \in 1..i : s[j] = s[i] /\ \A q \in 1..(j - 1) : s[q] # s[i]
UInv(s) == [i \in 1..Len(s) |-> Cardinality({p \in UPos(s) : p <= First(s, i)})]

Live == DOMAIN cur
\* list objects are allocated at the lowest unreferenced index and cleared when they become garbage, so that
\* the state does not remember how many lists were ever allocated
Refd(c, st, jl) == {c[w] : w \in DOMAIN c} \cup UNION {{st[w][i].old : i \in 1..Len(st[w])} : w \in DOMAIN st} \cup {jl}
FreeL == IF \E i \in 1..MaxLists : i \notin Refd(cur, stack, jacList)
         THEN CHOOSE i \in 1..MaxLists : i \notin Refd(cur, stack, jacList) /\ \A j \in 1..(i - 1) : j \in Refd(cur, stack, jacList)
         ELSE MaxLists + 1
NU(v) == Len(USeq(vc0[v]))
Expand(v, P) == [i \in 1..Len(vnames[v]) |-> P[UInv(vc0[v])[i]]]       \* map_unique_objs
Held(v) == [i \in 1..Len(vnames[v]) |-> slots[vnames[v][i]]]

IdentZip(a, b) == \A i \in 1..(IF Len(a) < Len(b) THEN Len(a) ELSE Len(b)) : a[i] = b[i]   \* _check_identical_objs

\* _set_all_obj_params: name by name, in order
RECURSIVE SetFrom(_, _, _, _, _)
SetFrom(nm, sl, rg, all, i) ==
   IF i > Len(nm) THEN <<sl, rg>>
   ELSE LET n == nm[i]  t == all[i]
            rgd == SelectSeq(rg, LAMBDA x : x # n)                                  \* del_attr
            rgs == IF t \in ParamIds THEN Append(rgd, n) ELSE rgd                   \* set_attr: Parameters register last
        IN SetFrom(nm, [sl EXCEPT ![n] = t], IF Kind = "nn" THEN rgs ELSE rg, all, i + 1)
SetAll(v, all) == SetFrom(vnames[v], slots, reg, all, 1)

AllNames == [i \in 1..NS |-> i]
Reg0 == IF Kind = "nn" THEN SelectSeq(AllNames, LAMBDA n : Slots0[n] \in ParamIds) ELSE <<>>
\* names exposed by a freshly created view given what the slots hold now
NamesNow == IF Kind = "nn" /\ ~ExposeAll
            THEN LET c == [i \in 1..Len(reg) |-> slots[reg[i]]] ps == SetToSortSeq(UPos(c), <) IN [i \in 1..Len(ps) |-> reg[ps[i]]]
            ELSE IF Kind = "nn" THEN reg ELSE AllNames

Depth == Len(frames)
Top == frames[Depth]

\* creation of a view: get_pure_function / make_sibling
Create(v, nm) ==
   LET c == [i \in 1..Len(nm) |-> slots[nm[i]]] IN
   /\ vnames' = vnames @@ (v :> nm)
   /\ vc0' = vc0 @@ (v :> c)
   /\ heap' = [heap EXCEPT ![FreeL] = USeq(c)]
   /\ cur' = cur @@ (v :> FreeL)
   /\ stack' = stack @@ (v :> <<>>)
   /\ allowed' = allowed @@ (v :> TRUE)

Empty == [x \in {} |-> 0]
Init == /\ slots = Slots0 /\ slots0 = Slots0 /\ reg = Reg0
        /\ heap = [i \in 1..MaxLists |-> <<>>]
        /\ vnames = Empty /\ vc0 = Empty /\ cur = Empty /\ stack = Empty /\ allowed = Empty
        /\ jacList = 0 /\ jac0 = <<>>
        /\ debug = FALSE /\ frames = <<>>
        /\ evals = 0 /\ crashAt \in 0..MaxEvals /\ unwinding = FALSE
        /\ lastEval = [ok |-> TRUE]

\* A view created while a substitution is active took the substituted tensors for the object's own; using it after
\* that block had ended put them back into the object (TLC: NewView inside EnterUse, Exit, EnterUse(v2, original),
\* Exit leaves the substituted tensors installed).  This IS reachable - a functional called inside the function of
\* another functional on the same object - and was repaired in the code (set_objparams now saves what the object
\* holds at that moment).  That part of the protocol is modelled and replayed separately in NestedViews.tla; this
\* module keeps creating views outside use-blocks only (with that restriction belief = content, which is what the
\* list-identity machinery below relies on); recorded executions are not restricted (Trace_ParamSubst.TNew).
NewView(v) ==
   /\ ~unwinding /\ v \notin Live /\ FreeL <= MaxLists
   /\ \A i \in 1..Depth : frames[i].k # "use"
   /\ (v # "pf" => "pf" \in Live)
   /\ Create(v, NamesNow)
   /\ UNCHANGED <<slots, slots0, reg, jacList, jac0, debug, frames, evals, crashAt, unwinding, lastEval>>
\* jac(pf, ...) : the operator's parameter list contains the function's object parameters
NewJac ==
   /\ ~unwinding /\ jacList = 0 /\ "pf" \in Live /\ FreeL <= MaxLists
   /\ IF JacOwnList THEN /\ heap' = [heap EXCEPT ![FreeL] = heap[cur["pf"]]] /\ jacList' = FreeL
                    ELSE /\ jacList' = cur["pf"] /\ UNCHANGED <<heap>>
   /\ jac0' = heap[cur["pf"]]
   /\ UNCHANGED <<slots, slots0, reg, vnames, vc0, cur, stack, allowed, debug, frames, evals, crashAt, unwinding, lastEval>>

---------------------------------------------------------------------------
(* PureFunction.set_objparams / restore_objparams *)
DoSet(v, P) ==
   LET ident == IdentZip(P, heap[cur[v]]) IN
   /\ stack' = [stack EXCEPT ![v] = IF PushAlways \/ ~ident THEN Append(@, [old |-> cur[v], ident |-> ident]) ELSE @]
   /\ IF ident THEN UNCHANGED <<slots, slots0, reg, heap, cur>>
      ELSE LET r == SetAll(v, Expand(v, P)) IN
           /\ slots' = r[1] /\ reg' = r[2]
           /\ heap' = [heap EXCEPT ![FreeL] = P]            \* self._cur_objparams = list(objparams)
           /\ cur' = [cur EXCEPT ![v] = FreeL]
DoRestore(v) ==
   LET top == stack[v][Len(stack[v])] IN
   /\ stack' = [stack EXCEPT ![v] = SubSeq(@, 1, Len(@) - 1)]
   /\ IF top.ident THEN UNCHANGED <<slots, slots0, reg, cur>>
      ELSE LET r == SetAll(v, Expand(v, heap[top.old])) IN
           /\ slots' = r[1] /\ reg' = r[2] /\ cur' = [cur EXCEPT ![v] = top.old]
   /\ heap' = IF top.ident \/ cur[v] \in Refd([cur EXCEPT ![v] = top.old], stack', jacList) THEN heap
              ELSE [heap EXCEPT ![cur[v]] = <<>>]       \* the list installed by the matching set is garbage now

EnterUse(v, P) ==
   /\ ~unwinding /\ v \in Live /\ Depth < MaxDepth /\ FreeL <= MaxLists /\ allowed[v] /\ Len(P) = NU(v)
   /\ DoSet(v, P)
   /\ frames' = Append(frames, [k |-> "use", v |-> v, req |-> P])
   /\ UNCHANGED <<slots0, vnames, vc0, jacList, jac0, allowed, debug, evals, crashAt, unwinding, lastEval>>
\* a refused substitution (state change disabled) raises and changes nothing
RefusedUse(v) ==
   /\ ~unwinding /\ v \in Live /\ ~allowed[v] /\ Depth > 0
   /\ unwinding' = TRUE
   /\ UNCHANGED <<slots, slots0, reg, heap, vnames, vc0, cur, stack, jacList, jac0, allowed, debug, frames, evals, crashAt, lastEval>>

EnterDisable(v) ==
   /\ ~unwinding /\ v \in Live /\ Depth < MaxDepth
   /\ frames' = Append(frames, [k |-> "dis", v |-> v, prev |-> allowed[v]])
   /\ allowed' = [allowed EXCEPT ![v] = FALSE]
   /\ UNCHANGED <<slots, slots0, reg, heap, vnames, vc0, cur, stack, jacList, jac0, debug, evals, crashAt, unwinding, lastEval>>
EnterDebug(b) ==
   /\ ~unwinding /\ Depth < MaxDepth
   /\ frames' = Append(frames, [k |-> "dbg", prev |-> debug])
   /\ debug' = b
   /\ UNCHANGED <<slots, slots0, reg, heap, vnames, vc0, cur, stack, jacList, jac0, allowed, evals, crashAt, unwinding, lastEval>>
\* uselinopparams on the Jacobian operator: setparams("objparams[i]", t) writes into the list object in place
EnterLinop(P) ==
   /\ ~unwinding /\ jacList # 0 /\ Depth < MaxDepth /\ Len(P) = Len(heap[jacList])
   /\ frames' = Append(frames, [k |-> "lin", saved |-> heap[jacList], req |-> P])
   /\ heap' = [heap EXCEPT ![jacList] = P]
   /\ UNCHANGED <<slots, slots0, reg, vnames, vc0, cur, stack, jacList, jac0, allowed, debug, evals, crashAt, unwinding, lastEval>>

\* a block that overwrites the slots in DOMAIN w and puts the previous content back on exit:
\* kind "lin2" = LinearOperator.uselinopparams on an operator whose parameters are slots,
\* kind "probe" = the debug-mode check of EditableModule.assertparams (all float tensors replaced by copies)
EnterWrite(kind, w) ==
   /\ ~unwinding /\ Depth < MaxDepth /\ DOMAIN w \subseteq DOMAIN slots
   /\ frames' = Append(frames, [k |-> kind, saved |-> [x \in DOMAIN w |-> slots[x]]])
   /\ slots' = [x \in DOMAIN slots |-> IF x \in DOMAIN w THEN w[x] ELSE slots[x]]
   /\ UNCHANGED <<slots0, reg, heap, vnames, vc0, cur, stack, jacList, jac0, allowed, debug, evals, crashAt, unwinding, lastEval>>

\* __exit__ of the innermost block; `exc` = an exception is propagating
ExitBody(exc) ==
   /\ Depth > 0
   /\ frames' = SubSeq(frames, 1, Depth - 1)
   /\ CASE Top.k = "use" ->
             /\ IF exc /\ ~UseFinally THEN UNCHANGED <<slots, slots0, reg, heap, cur, stack>>
                ELSE IF stack[Top.v] = <<>> THEN UNCHANGED <<slots, slots0, reg, heap, cur, stack>>   \* (only under ~PushAlways)
                ELSE DoRestore(Top.v)
             /\ UNCHANGED <<allowed, debug>>
        [] Top.k = "dis" ->
             /\ allowed' = IF exc /\ ~DisFinally THEN allowed ELSE [allowed EXCEPT ![Top.v] = Top.prev]
             /\ UNCHANGED <<slots, slots0, reg, heap, cur, stack, debug>>
        [] Top.k = "dbg" ->
             /\ debug' = IF exc /\ ~DbgFinally THEN debug ELSE Top.prev
             /\ UNCHANGED <<slots, slots0, reg, heap, cur, stack, allowed>>
        [] Top.k \in {"lin2", "probe"} ->      \* put back what the block saved
             /\ slots' = [x \in DOMAIN slots |-> IF x \in DOMAIN Top.saved THEN Top.saved[x] ELSE slots[x]]
             /\ UNCHANGED <<reg, heap, cur, stack, allowed, debug>>
        [] Top.k = "lin" ->
             /\ heap' = IF exc /\ ~LinFinally THEN heap ELSE [heap EXCEPT ![jacList] = Top.saved]
             /\ UNCHANGED <<slots, slots0, reg, cur, stack, allowed, debug>>
Exit == /\ ~unwinding /\ ExitBody(FALSE)
        /\ UNCHANGED <<slots0, vnames, vc0, jacList, jac0, evals, crashAt, unwinding, lastEval>>
Unwind == /\ unwinding /\ Depth > 0 /\ ExitBody(TRUE)
          /\ UNCHANGED <<slots0, vnames, vc0, jacList, jac0, evals, crashAt, unwinding, lastEval>>
\* the exception reaches the caller; the caller may go on using the object
Propagated == /\ unwinding /\ Depth = 0 /\ unwinding' = FALSE /\ crashAt' = 0
              /\ UNCHANGED <<slots, slots0, reg, heap, vnames, vc0, cur, stack, jacList, jac0, allowed, debug, frames, evals, lastEval>>

\* a user-function evaluation through view v inside a use-block of v
Eval(v) ==
   /\ ~unwinding /\ evals < MaxEvals /\ Depth > 0 /\ Top.k = "use" /\ Top.v = v
   /\ evals' = evals + 1
   /\ lastEval' = [ok |-> Held(v) = Expand(v, Top.req)]
   /\ unwinding' = (evals' = crashAt)
   /\ UNCHANGED <<slots, slots0, reg, heap, vnames, vc0, cur, stack, jacList, jac0, allowed, debug, frames, crashAt>>
\* a Jacobian product: with fcn.useobjparams(self.objparams): fcn(...)   (fcn is view "pf")
JacProduct == jacList # 0 /\ EnterUse("pf", heap[jacList])

Next == \/ \E v \in Views : NewView(v) \/ RefusedUse(v) \/ EnterDisable(v) \/ Eval(v)
        \/ \E v \in Views, P \in Cands : EnterUse(v, P)
        \/ \E b \in BOOLEAN : EnterDebug(b)
        \/ \E P \in Cands : EnterLinop(P)
        \/ NewJac \/ JacProduct
        \/ Exit \/ Unwind \/ Propagated
Spec == Init /\ [][Next]_vars

---------------------------------------------------------------------------
(* properties *)
UseFrames(v) == {i \in 1..Depth : frames[i].k = "use" /\ frames[i].v = v}
\* no block open and no exception in flight: the objects are exactly as the caller left them
Quiescent == (Depth = 0 /\ ~unwinding) =>
                /\ slots = slots0 /\ reg = Reg0
                /\ \A v \in Live : stack[v] = <<>> /\ allowed[v]
                /\ debug = FALSE
                /\ (jacList # 0 => heap[jacList] = jac0)
LIFO == \A v \in Live : Len(stack[v]) = Cardinality(UseFrames(v))
\* what a view believes is what the object holds (makes the "identical" shortcut sound); single view only
BeliefCoherent == \A v \in Live : Held(v) = Expand(v, heap[cur[v]])
EvalSeesRequested == lastEval.ok
UniqueRoundTrip == \A v \in Live : Expand(v, USeq(vc0[v])) = vc0[v]
TypeOK == /\ Depth <= MaxDepth /\ evals <= MaxEvals
=============================================================================
