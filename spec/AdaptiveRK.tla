----------------------------- MODULE AdaptiveRK -----------------------------
(***************************************************************************)
(* Step-size controller of the adaptive Runge-Kutta solvers (rk23, rk45)   *)
(* as used by solve_ivp: the solver walks through the requested times in   *)
(* order; a trial step that would pass the current target is shortened to  *)
(* land exactly on it; an accepted step that does not land may grow the    *)
(* step size (not after a rejection), a rejected step shrinks it.          *)
(* Abstract quantities per trial: accept (error estimate below tolerance), *)
(* over (the tentative step passes the target), grow in {"up","same",      *)
(* "down"} (h_out compared with the step just used).                       *)
(*                                                                         *)
(* Deviation switches (TRUE = intended):                                   *)
(*   LandExactly   an overshooting trial is cut to end at the target       *)
(*   NoGrowAfterReject   the step after a rejection does not grow          *)
(*   HoldOnLanding       a landing step leaves the step size unchanged     *)
(***************************************************************************)
EXTENDS Naturals, Sequences, TLC
CONSTANTS NTimes, MaxTries, LandExactly, NoGrowAfterReject, HoldOnLanding
VARIABLES tgt,        \* index of the requested time the solver is heading for (2..NTimes), NTimes+1 when done
          pos,        \* "before" the target | "at" it | "past" it
          prevRej,    \* the previous trial (of this single step) was rejected
          tries, recorded,   \* recorded: sequence of target indices whose value was stored
          last        \* [accept, over, grow, landed]
vars == <<tgt, pos, prevRej, tries, recorded, last>>
Init == tgt = 2 /\ pos = "before" /\ prevRej = FALSE /\ tries = 0 /\ recorded = <<1>> /\ last = [accept |-> TRUE, over |-> FALSE, grow |-> "same", landed |-> FALSE]
Try(accept, over, grow) ==
   /\ tgt <= NTimes /\ tries < MaxTries /\ tries' = tries + 1
   \* the step-size update rules
   /\ (accept /\ ~over) => (grow \in {"up", "same", "down"} /\ ((prevRej /\ NoGrowAfterReject) => grow # "up"))
   /\ (accept /\ over) => (IF HoldOnLanding THEN grow = "same" ELSE grow \in {"up", "same", "down"})
   /\ ~accept => grow = "down"
   /\ LET landed == accept /\ over IN
      /\ last' = [accept |-> accept, over |-> over, grow |-> grow, landed |-> landed]
      /\ IF landed THEN /\ pos' = (IF LandExactly THEN "before" ELSE "past")     \* "before" the next target
                        /\ recorded' = Append(recorded, tgt) /\ tgt' = tgt + 1
                   ELSE UNCHANGED <<pos, recorded, tgt>>
      /\ prevRej' = IF accept THEN FALSE ELSE TRUE
Next == \E a, o \in BOOLEAN, g \in {"up", "same", "down"} : Try(a, o, g)
Spec == Init /\ [][Next]_vars
NeverPast == pos # "past"
InOrder == \A i \in 1..Len(recorded) : recorded[i] = i
RejectShrinks == ~last.accept => last.grow = "down"
Done == tgt = NTimes + 1 => Len(recorded) = NTimes
=============================================================================
