----------------------------- MODULE LinopShape -----------------------------
(***************************************************************************)
(* Shapes of composed LinearOperators: which binary constructions are      *)
(* accepted and what shape the result declares.  Operators are matrices    *)
(* (rows x columns); a sum or difference needs identical shapes - a        *)
(* dimension of size 1 does NOT broadcast against another size, an         *)
(* operator is not an array - and a product needs matching inner           *)
(* dimensions.  Every accepted construction denotes the corresponding      *)
(* dense matrix in all of its products.                                    *)
(*                                                                         *)
(* Deviation switch FullShapeCompared (TRUE = intended): FALSE compares    *)
(* only the column counts of the operands of a difference.                 *)
(***************************************************************************)
EXTENDS Naturals, Sequences, TLC
CONSTANTS Sizes, FullShapeCompared
Ops == {"add", "sub", "matmul"}
VARIABLES op, r1, c1, r2, c2, pred
vars == <<op, r1, c1, r2, c2, pred>>
Accept == CASE op = "matmul" -> c1 = r2
            [] op = "sub" -> IF FullShapeCompared THEN r1 = r2 /\ c1 = c2 ELSE c1 = c2
            [] OTHER -> r1 = r2 /\ c1 = c2
Shape == IF op = "matmul" THEN <<r1, c2>> ELSE <<r1, c1>>
Init == /\ op \in Ops /\ r1 \in Sizes /\ c1 \in Sizes /\ r2 \in Sizes /\ c2 \in Sizes
        /\ pred = [accept |-> Accept, shape |-> IF Accept THEN Shape ELSE <<0, 0>>]
Next == UNCHANGED vars
Spec == Init /\ [][Next]_vars
\* an accepted construction has operands whose matrices can be combined entry by entry / multiplied
OnlyConformable == pred.accept => (IF op = "matmul" THEN c1 = r2 ELSE r1 = r2 /\ c1 = c2)
=============================================================================
