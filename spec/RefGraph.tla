------------------------------ MODULE RefGraph ------------------------------
(***************************************************************************)
(* Reclamation of the objects of one functional call by reference counting *)
(* alone (no cycle collector).  The ownership graph is recorded from the   *)
(* real objects after the call: nodes = Python objects reachable from what *)
(* the caller holds (outputs, gradients), strong edges as reported by the  *)
(* interpreter (gc.get_referents) plus tensor -> grad_fn.  The caller      *)
(* drops its handles in some order; an object is freed as soon as nothing  *)
(* live refers to it and the caller does not hold it.                      *)
(* Property: once every handle is dropped no tensor allocated during the   *)
(* call is live, for every order of dropping.                              *)
(*                                                                         *)
(* One TLC run checks a whole batch of recorded graphs (file GRAPH_FILE,   *)
(* ndjson: {gid, n, edges: [[p, q]...], handles: [...], tensors: [...]}).  *)
(***************************************************************************)
EXTENDS Naturals, Sequences, FiniteSets, TLC, Json, IOUtils
Graphs == ndJsonDeserialize(IOEnv.GRAPH_FILE)
NG == Len(Graphs)
ASSUME \A g \in 1..NG : TLCSet(g, 0) /\ TLCSet(NG + g, 0)
VARIABLES gid, held, live
vars == <<gid, held, live>>
G == Graphs[gid]
ToSet(s) == {s[i] : i \in 1..Len(s)}
EdgeSet == {<<G.edges[i][1], G.edges[i][2]>> : i \in 1..Len(G.edges)}
Freeable(l, h) == {o \in l : o \notin h /\ \A p \in l : <<p, o>> \notin EdgeSet \/ p = o}
RECURSIVE Collect(_, _)
Collect(l, h) == LET f == Freeable(l, h) IN IF f = {} THEN l ELSE Collect(l \ f, h)
Init == /\ gid \in 1..NG
        /\ held = ToSet(Graphs[gid].handles)
        /\ live = Collect(1..Graphs[gid].n, ToSet(Graphs[gid].handles))
Drop(h) == /\ h \in held /\ held' = held \ {h} /\ live' = Collect(live, held') /\ UNCHANGED gid
Next == \E h \in held : Drop(h)
Spec == Init /\ [][Next]_vars
LeakedTensors == live \cap ToSet(G.tensors)
\* registers: per graph the largest number of leaked tensors over all drop orders, and one witness object
Record == held = {} => /\ (Cardinality(LeakedTensors) > TLCGet(gid) => TLCSet(gid, Cardinality(LeakedTensors)))
                       /\ (LeakedTensors # {} => TLCSet(NG + gid, CHOOSE o \in LeakedTensors : TRUE))
Post == \A g \in 1..NG : TLCGet(g) = 0 \/ PrintT(<<"LEAK", Graphs[g].gid, TLCGet(g), TLCGet(NG + g)>>)
\* design-level sanity on a recorded graph: freeing is monotone
Monotone == live \subseteq 1..G.n
=============================================================================
