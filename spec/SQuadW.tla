------------------------------- MODULE SQuadW -------------------------------
(***************************************************************************)
(* xitorch.integrate.SQuad: cumulative integration of samples.  Because    *)
(* the result is linear in y, it is described by a weight matrix W:        *)
(* cumsum(y)[i] = sum_j W[i][j] * y[j].  For the trapezoid rule and for     *)
(* Simpson's rule (piecewise parabolas) on integer sample positions the    *)
(* specification computes W exactly over Q:                                *)
(*   trapz    running integral of the piecewise-linear interpolant         *)
(*   simpson  even index i: exact integrals of the parabolas through       *)
(*            (x_{k}, x_{k+1}, x_{k+2}), k = 1, 3, ..; odd index i >= 3:   *)
(*            the value at i-1 plus the integral over [x_{i-1}, x_i] of    *)
(*            the parabola through the last three points; index 2 (second  *)
(*            sample): either the trapezoid of the first interval or the   *)
(*            parabola through the first three points (the statement does  *)
(*            not decide; both are accepted)                               *)
(* (the shape table is in SQuadShape.tla)                                  *)
(*                                                                         *)
(***************************************************************************)
EXTENDS Rat, Sequences, TLC
CONSTANTS Grids     \* set of strictly increasing integer sequences
\* ---- exact integrals of Lagrange basis parabolas
Cube(x) == RMul(x, RMul(x, x))
Sq(x) == RMul(x, x)
\* antiderivative of (x - p)(x - q) at x
Anti(x, p, q) == RAdd(RSub(RDiv(Cube(x), R(3)), RMul(RDiv(RAdd(p, q), R(2)), Sq(x))), RMul(RMul(p, q), x))
\* integral over [a, b] of the Lagrange basis polynomial that is 1 at xs[k] for nodes xs = <<x0, x1, x2>>
LagInt(xs, k, a, b) ==
   LET o == IF k = 1 THEN <<xs[2], xs[3]>> ELSE IF k = 2 THEN <<xs[1], xs[3]>> ELSE <<xs[1], xs[2]>>
       den == RMul(RSub(xs[k], o[1]), RSub(xs[k], o[2]))
   IN RDiv(RSub(Anti(b, o[1], o[2]), Anti(a, o[1], o[2])), den)
N(x) == Len(x)
Xr(x, i) == R(x[i])
\* ---- trapezoid
TrapzW(x, i, j) ==     \* weight of y_j in cumsum[i]
   LET left == IF j >= 2 /\ j <= i THEN RDiv(R(x[j] - x[j - 1]), R(2)) ELSE R(0)
       right == IF j <= i - 1 THEN RDiv(R(x[j + 1] - x[j]), R(2)) ELSE R(0)
   IN RAdd(left, right)
\* ---- Simpson
RECURSIVE SimpEven(_, _, _)
\* weight of y_j in the integral from x_1 to x_i, i odd-numbered sample (1-based odd = even count of intervals)
SimpEven(x, i, j) ==
   IF i = 1 THEN R(0)
   ELSE LET tri == <<Xr(x, i - 2), Xr(x, i - 1), Xr(x, i)>>
            c == IF j \in {i - 2, i - 1, i} THEN LagInt(tri, j - (i - 3), Xr(x, i - 2), Xr(x, i)) ELSE R(0)
        IN RAdd(SimpEven(x, i - 2, j), c)
SimpW(x, i, j, second) ==
   IF i % 2 = 1 THEN SimpEven(x, i, j)
   ELSE IF i = 2 THEN (IF second = "trapezoid" \/ N(x) < 3 THEN TrapzW(x, 2, j)
                       ELSE IF j <= 3 THEN LagInt(<<Xr(x, 1), Xr(x, 2), Xr(x, 3)>>, j, Xr(x, 1), Xr(x, 2)) ELSE R(0))
   ELSE LET tri == <<Xr(x, i - 2), Xr(x, i - 1), Xr(x, i)>>
            c == IF j \in {i - 2, i - 1, i} THEN LagInt(tri, j - (i - 3), Xr(x, i - 1), Xr(x, i)) ELSE R(0)
        IN RAdd(SimpEven(x, i - 1, j), c)
Row(x, method, i, second) == [j \in 1..N(x) |-> IF method = "trapz" THEN TrapzW(x, i, j) ELSE SimpW(x, i, j, second)]
VARIABLES x, method, i, row, rowAlt
vars == <<x, method, i, row, rowAlt>>
Init == /\ x \in Grids /\ method \in {"trapz", "simpson"} /\ i \in 1..N(x)
        /\ row = Row(x, method, i, "trapezoid") /\ rowAlt = Row(x, method, i, "parabola")
Next == UNCHANGED vars
Spec == Init /\ [][Next]_vars
RECURSIVE SumRow(_, _)
SumRow(r, k) == IF k = 0 THEN R(0) ELSE RAdd(SumRow(r, k - 1), r[k])
\* integrating the constant 1 gives the distance from the first sample; the first entry is zero
ConstantExact == SumRow(row, N(x)) = R(x[i] - x[1]) /\ SumRow(rowAlt, N(x)) = R(x[i] - x[1])
FirstZero == i = 1 => \A j \in 1..N(x) : row[j] = R(0)
\* integrating y = x is exact for both rules
RECURSIVE Dot(_, _, _)
Dot(r, xs, k) == IF k = 0 THEN R(0) ELSE RAdd(Dot(r, xs, k - 1), RMul(r[k], R(xs[k])))
LinearExact == Dot(row, x, N(x)) = RDiv(R(x[i] * x[i] - x[1] * x[1]), R(2))
=============================================================================
