------------------------------- MODULE Packer -------------------------------
(***************************************************************************)
(* xitorch.Packer (xitorch/_core/packer.py) as a state machine.            *)
(*                                                                         *)
(* A Packer is built around an immutable nested structure (lists, dicts,   *)
(* attribute-bearing objects, tensors, opaque leaves).  The structure is   *)
(* a tree value; tensor leaves carry an alias id (two leaves with the same *)
(* id hold the very same tensor object).  The Packer's mutable state is a  *)
(* handful of caches that are filled by the getters and consulted by the   *)
(* constructors; one action per public method.  `last` is the observable   *)
(* outcome of the most recent call.                                        *)
(*                                                                         *)
(* Deviation switches (TRUE/"intended" value = what the property demands): *)
(*   PutOrder   : "same" | "reversed"   refill order vs. extraction order  *)
(*   UseInverse : TRUE | FALSE          unique refill goes through the     *)
(*                                      inverse-unique map                 *)
(*   OwnCache   : TRUE | FALSE          each getter sets only its own cache*)
(***************************************************************************)
EXTENDS Naturals, Sequences, FiniteSets, SequencesExt, TLC

CONSTANTS MaxAlias, MaxKids, Depth, Kinds, PutOrder, UseInverse, OwnCache

VARIABLES tree,    \* the structure given to Packer(...)
          shp,     \* [BOOLEAN -> {"unset","U","N"}]  _unique_tensor_shapes / _tensor_shapes: which listing's shapes they hold
          num,     \* [BOOLEAN -> {"unset","U","N"}]  _unique_tensor_numels / _tensor_numels
          called,  \* [BOOLEAN -> {"none","list","tensor"}]  history: strongest getter called so far for each `unique`
          last     \* request and outcome of the last call
vars == <<tree, shp, num, called, last>>

---------------------------------------------------------------------------
(* structures *)
T(a) == [k |-> "T", a |-> a]
Leafs == {T(a) : a \in 1..MaxAlias} \cup {[k |-> "N"], [k |-> "Tup"]}
SeqsUpTo(S, n) == UNION {[1..m -> S] : m \in 0..n}
Containers(S) == {[k |-> kd, c |-> cs] : kd \in Kinds, cs \in SeqsUpTo(S, MaxKids)}
RECURSIVE Trees(_)
Trees(d) == IF d = 0 THEN Leafs ELSE LET S == Trees(d - 1) IN S \cup Containers(S)

IsLeaf(t) == t.k \in {"T", "N", "Tup"}

RECURSIVE Extract(_)      \* alias ids of the tensor slots in traversal order (= _extract_tensors)
Extract(t) == IF t.k = "T" THEN <<t.a>>
              ELSE IF IsLeaf(t) THEN <<>>
              ELSE FlattenSeq([i \in 1..Len(t.c) |-> Extract(t.c[i])])

Count(t) == Len(Extract(t))
RECURSIVE CountUpTo(_, _)
CountUpTo(cs, i) == IF i = 0 THEN 0 ELSE Count(cs[i]) + CountUpTo(cs, i - 1)

RECURSIVE PutAt(_, _, _)  \* refill: slot number p (traversal order) receives m[p]  (= _put_tensors)
PutAt(t, off, m) ==
   IF t.k = "T" THEN [k |-> "T", s |-> m[off + 1]]
   ELSE IF IsLeaf(t) THEN t
   ELSE [k |-> t.k, c |-> [i \in 1..Len(t.c) |-> PutAt(t.c[i], off + CountUpTo(t.c, i - 1), m)]]

RECURSIVE Slots(_)        \* supplied indices found in a rebuilt structure, traversal order
Slots(t) == IF t.k = "T" THEN <<t.s>>
            ELSE IF IsLeaf(t) THEN <<>>
            ELSE FlattenSeq([i \in 1..Len(t.c) |-> Slots(t.c[i])])

RECURSIVE Shape(_)        \* the structure with tensor leaves erased
Shape(t) == IF t.k = "T" THEN [k |-> "T"]
            ELSE IF IsLeaf(t) THEN t
            ELSE [k |-> t.k, c |-> [i \in 1..Len(t.c) |-> Shape(t.c[i])]]

---------------------------------------------------------------------------
(* unique maps (= _get_unique_idxs) *)
UPos(s) == {i \in 1..Len(s) : \A j \in 1..(i - 1) : s[j] # s[i]}
USeq(s) == LET ps == SetToSortSeq(UPos(s), <) IN [i \in 1..Len(ps) |-> s[ps[i]]]
First(s, i) == CHOOSE j \in 1..i : s[j] = s[i] /\ \A q \in 1..(j - 1) : s[q] # s[i]
UInv(s) == [i \in 1..Len(s) |-> Cardinality({p \in UPos(s) : p <= First(s, i)})]

All == Extract(tree)
Listed(u) == IF u THEN USeq(All) ELSE All
NList(u) == Len(Listed(u))

---------------------------------------------------------------------------
Tag(u) == IF u THEN "U" ELSE "N"
Init0(t) == /\ tree = t
            /\ shp = [u \in BOOLEAN |-> "unset"]
            /\ num = [u \in BOOLEAN |-> "unset"]
            /\ called = [u \in BOOLEAN |-> "none"]
            /\ last = [kind |-> "none"]
Init == \E t \in Trees(Depth) : Init0(t)

SetShp(u) == IF OwnCache THEN [shp EXCEPT ![u] = Tag(u)] ELSE [b \in BOOLEAN |-> Tag(u)]

\* get_param_tensor_list(unique=u)
GetList(u) ==
   /\ shp' = SetShp(u)
   /\ called' = [called EXCEPT ![u] = IF @ = "tensor" THEN @ ELSE "list"]
   /\ last' = [kind |-> "listed", u |-> u, listed |-> Listed(u)]
   /\ UNCHANGED <<tree, num>>

\* get_param_tensor(unique=u): lists, then (only if there is a tensor) records numels; returns None / the tensor / cat
GetTensor(u) ==
   /\ shp' = SetShp(u)
   /\ num' = IF NList(u) = 0 THEN num ELSE [num EXCEPT ![u] = Tag(u)]
   /\ called' = [called EXCEPT ![u] = "tensor"]
   /\ last' = [kind |-> "flat", u |-> u, listed |-> Listed(u), none |-> (NList(u) = 0)]
   /\ UNCHANGED tree

SupKinds == {"good", "short", "long", "badshape"}
\* the list the caller supplies: sequence of [i |-> supplied index, sh |-> alias id whose shape it has]
Supplied(u, sk) ==
   LET L == Listed(u)  n == Len(L)  good == [i \in 1..n |-> [i |-> i, sh |-> L[i]]] IN
   CASE sk = "good" -> good
     [] sk = "short" -> SubSeq(good, 1, n - 1)
     [] sk = "long" -> Append(good, [i |-> n + 1, sh |-> 0])
     [] sk = "badshape" -> [i \in 1..n |-> IF i = n THEN [i |-> i, sh |-> 0] ELSE good[i]]
SupEnabled(u, sk) == sk \in {"good", "long"} \/ NList(u) > 0

Built(u, sup) ==   \* the rebuilt structure, given an accepted supplied list
   LET n == Len(All)
       clip(p) == IF p <= Len(sup) THEN p ELSE Len(sup)
       direct == [p \in 1..n |-> IF u /\ UseInverse THEN sup[clip(UInv(All)[p])].i ELSE sup[clip(p)].i]
       m == IF PutOrder = "same" THEN direct ELSE [p \in 1..n |-> direct[n + 1 - p]]
   IN PutAt(tree, 0, m)

Stored(tag) == Listed(tag = "U")     \* the listing whose shapes a cache holds
ListOutcome(u, sup) ==
   IF shp[u] = "unset" THEN [kind |-> "raise", why |-> "precondition"]
   ELSE LET st == Stored(shp[u]) IN
        IF Len(sup) # Len(st) THEN [kind |-> "raise", why |-> "length"]
        ELSE IF Len(st) = 0 THEN [kind |-> "inner"]        \* returns the Packer's own copy
        ELSE IF \E i \in 1..Len(sup) : sup[i].sh # st[i] THEN [kind |-> "raise", why |-> "shape"]
        ELSE [kind |-> "built", u |-> u, result |-> Built(u, sup)]

\* construct_from_tensor_list(sup, unique=u)
ConstructList(u, sk) ==
   /\ SupEnabled(u, sk)
   /\ last' = [req |-> [op |-> "clist", u |-> u, sk |-> sk]] @@ ListOutcome(u, Supplied(u, sk))
   /\ UNCHANGED <<tree, shp, num, called>>

\* construct_from_tensor(a, unique=u): fk in {"good","badnumel"}
ConstructTensor(u, fk) ==
   /\ last' = [req |-> [op |-> "ctensor", u |-> u, sk |-> fk]] @@
              (IF shp[u] = "unset" THEN [kind |-> "raise", why |-> "precondition"]
               ELSE IF Len(Stored(shp[u])) = 0 THEN [kind |-> "inner"]
               ELSE IF num[u] = "unset" THEN [kind |-> "raise", why |-> "precondition"]
               ELSE IF fk = "badnumel" \/ Stored(num[u]) # Listed(u) THEN [kind |-> "raise", why |-> "numel"]
               ELSE ListOutcome(u, Supplied(u, "good")))
   /\ UNCHANGED <<tree, shp, num, called>>

Next == \/ \E u \in BOOLEAN : GetList(u) \/ GetTensor(u)
        \/ \E u \in BOOLEAN, sk \in SupKinds : ConstructList(u, sk)
        \/ \E u \in BOOLEAN, fk \in {"good", "badnumel"} : ConstructTensor(u, fk)
Spec == Init /\ [][Next]_vars

---------------------------------------------------------------------------
(* the property, stated without reference to the helper maps used by the actions *)
IndexOf(s, x) == CHOOSE j \in 1..Len(s) : s[j] = x /\ \A q \in 1..(j - 1) : s[q] # x   \* first index

\* listing: stable traversal order; each distinct tensor exactly once when unique is requested
ListingOK ==
   last.kind \in {"listed", "flat"} =>
      /\ ToSet(last.listed) = ToSet(All)
      /\ last.u => IsInjective(last.listed)
      /\ ~last.u => last.listed = All
      /\ last.u => \A i, j \in 1..Len(last.listed) :     \* order of first occurrences is preserved
            i < j => IndexOf(All, last.listed[i]) < IndexOf(All, last.listed[j])

\* rebuilding: identical shape; position p holds the supplied tensor whose listing index is that of the slot's tensor
RoundTripOK ==
   last.kind = "built" =>
      /\ Shape(last.result) = Shape(tree)
      /\ \A p \in 1..Len(All) :
            Slots(last.result)[p] = IF last.u THEN IndexOf(USeq(All), All[p]) ELSE p
      /\ last.u => \A p, q \in 1..Len(All) : All[p] = All[q] => Slots(last.result)[p] = Slots(last.result)[q]

\* outcome depends on history only through the documented precondition (the matching getter was called):
\* valid input is then accepted and invalid input rejected
IsReq == "req" \in DOMAIN last
PreMet == IsReq /\ (called[last.req.u] = "tensor" \/ (last.req.op = "clist" /\ called[last.req.u] = "list"))
ValidAccepted == (PreMet /\ last.req.sk = "good") => last.kind \in {"built", "inner"}
InvalidRejected ==
   (PreMet /\ last.req.sk # "good" /\ (last.req.op = "clist" \/ NList(last.req.u) > 0)) => last.kind = "raise"

TypeOK == /\ shp \in [BOOLEAN -> {"unset", "U", "N"}] /\ num \in [BOOLEAN -> {"unset", "U", "N"}]
          /\ \A u \in BOOLEAN : called[u] # "none" => shp[u] # "unset"
=============================================================================
