------------------------- MODULE Trace_ParamSubst -------------------------
(* Recorded executions of the real substitution protocols (hooks pf.new / pf.set / pf.restore / lo.use /    *)
(* lo.unuse / em.probe of xitorch plus the harness' own eval / final observations) checked against         *)
(* ParamSubst.tla.  Every logged field is bound; nothing is chosen nondeterministically, so a trace with n   *)
(* events has exactly n+1 states.  disable_state_change and the debug context managers have no hook: their   *)
(* effect is observed in the `final` event (flags must be back).                                             *)
EXTENDS ParamSubst, TraceLib
VARIABLES tid, l
tvars == <<vars, tid, l>>
ASSUME InitRegs
Ev == Traces[tid].ev
E == Ev[l]
\* list of [slot, tensor] pairs -> function
Fn(ps) == [x \in {ps[i][1] : i \in 1..Len(ps)} |-> ps[CHOOSE i \in 1..Len(ps) : ps[i][1] = x][2]]
Agrees(ps, f) == \A i \in 1..Len(ps) : ps[i][1] \in DOMAIN f /\ f[ps[i][1]] = ps[i][2]

TInit == /\ tid \in 1..NT /\ l = 1
         /\ slots = Fn(Traces[tid].cfg.slots0) /\ slots0 = slots /\ reg = <<>>
         /\ heap = [i \in 1..MaxLists |-> <<>>]
         /\ vnames = Empty /\ vc0 = Empty /\ cur = Empty /\ stack = Empty /\ allowed = Empty
         /\ jacList = 0 /\ jac0 = <<>>
         /\ debug = FALSE /\ frames = <<>>
         /\ evals = 0 /\ crashAt = 0 /\ unwinding = FALSE
         /\ lastEval = [ok |-> TRUE]

IsEvent(a) == l <= Len(Ev) /\ E.a = a /\ l' = l + 1 /\ UNCHANGED tid
HeldAfter(v) == [i \in 1..Len(vnames[v]) |-> slots'[vnames[v][i]]]

\* places the harness sees for the first time (objects created inside the call)
TReg == /\ IsEvent("reg")
        /\ slots' = Fn(E.w) @@ slots /\ slots0' = Fn(E.w) @@ slots0
        /\ UNCHANGED <<reg, heap, vnames, vc0, cur, stack, allowed, jacList, jac0, debug, frames, evals, crashAt, unwinding, lastEval>>
TNew == /\ IsEvent("new")
        /\ E.v \notin Live /\ FreeL <= MaxLists
        /\ \A i \in 1..Len(E.vs) : E.vs[i] \in DOMAIN slots
        /\ Create(E.v, E.vs)
        /\ heap'[cur'[E.v]] = E.cur                       \* the view starts out believing what the object holds
        /\ UNCHANGED <<slots, slots0, reg, jacList, jac0, debug, frames, evals, crashAt, unwinding, lastEval>>
TSet == /\ IsEvent("set")
        /\ E.v \in Live
        /\ E.old = heap[cur[E.v]]                          \* the belief was not modified behind the view's back
        /\ E.ident = IdentZip(E.req, heap[cur[E.v]])
        /\ EnterUse(E.v, E.req)
        /\ HeldAfter(E.v) = E.held
TRestore == /\ IsEvent("restore")
            /\ E.v \in Live /\ Depth > 0 /\ Top.k = "use" /\ Top.v = E.v      \* last in, first out
            /\ stack[E.v] # <<>> /\ E.ident = stack[E.v][Len(stack[E.v])].ident
            /\ Exit
            /\ HeldAfter(E.v) = E.held
TLinUse == IsEvent("linuse") /\ EnterWrite("lin2", Fn(E.w))
TLinUnuse == /\ IsEvent("linunuse") /\ Depth > 0 /\ Top.k = "lin2" /\ DOMAIN Top.saved = {E.after[i][1] : i \in 1..Len(E.after)}
             /\ Exit /\ Agrees(E.after, slots')
TProbe == IsEvent("probe") /\ EnterWrite("probe", Fn(E.w))
TUnprobe == /\ IsEvent("unprobe") /\ Depth > 0 /\ Top.k = "probe"
            /\ Exit /\ Agrees(E.after, slots')
\* an evaluation of the user's function: it sees exactly what the specification says the objects hold, and that
\* is what the innermost substitution asked for
UseIdx == {i \in 1..Depth : frames[i].k = "use"}
InnerUse == frames[CHOOSE i \in UseIdx : \A j \in UseIdx : j <= i]
TEval == /\ IsEvent("eval")
         /\ Agrees(E.seen, slots)
         /\ (UseIdx # {} /\ \A i \in 1..Depth : frames[i].k \notin {"lin2", "probe"})
               => Held(InnerUse.v) = Expand(InnerUse.v, InnerUse.req)
         /\ UNCHANGED vars
\* the call has returned or raised: everything is as the caller left it
TFinal == /\ IsEvent("final")
          /\ Agrees(E.seen, slots)
          /\ Depth = 0 /\ slots = slots0
          /\ \A v \in Live : stack[v] = <<>>
          /\ \A i \in 1..Len(E.depths) : E.depths[i][1] \in Live /\ E.depths[i][2] = Len(stack[E.depths[i][1]])
          /\ E.allowed /\ E.debug_same /\ E.named_same
          \* numeric verdicts computed by the harness against the pure-function form (C09): all must hold
          /\ Has(E, "verdicts") => \A i \in 1..Len(E.verdicts) : E.verdicts[i][2]
          /\ UNCHANGED vars
TNext == TReg \/ TNew \/ TSet \/ TRestore \/ TLinUse \/ TLinUnuse \/ TProbe \/ TUnprobe \/ TEval \/ TFinal
TSpec == TInit /\ [][TNext]_tvars
Prog == Progress(tid, l)
=============================================================================
