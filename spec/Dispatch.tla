------------------------------ MODULE Dispatch ------------------------------
(***************************************************************************)
(* Method selection of the xitorch functionals as a case table.            *)
(* Every functional takes `method` = None | a name | a callable.  A name   *)
(* is looked up in the functional's table of built-in methods; several     *)
(* functionals additionally compare the name against particular built-ins  *)
(* BEFORE the table lookup (solve: the direct solver bypasses autograd's   *)
(* custom function; symeig likewise; equilibrium / minimize choose the     *)
(* family of algorithms).  The documented behaviour: names are matched     *)
(* case-insensitively, unknown names are rejected, callables are accepted. *)
(*                                                                         *)
(* Deviation switch LowerFirst[f] (TRUE = intended): the name is           *)
(* lower-cased before those early comparisons.                             *)
(* "Callable" means whatever can be called: a def, a lambda, a             *)
(* functools.partial, an instance with __call__, a bound method.           *)
(* Deviation switch AnyCallable (TRUE = intended): FALSE accepts only      *)
(* functions and methods (routines).                                       *)
(* `method` = None IS the default built-in: the caller's options reach it  *)
(* exactly as when the default is named.  Deviation switch                 *)
(* DefaultTakesOptions[f] (TRUE = intended): FALSE builds the default      *)
(* method without the caller's options.                                    *)
(* "No method given" is `method is None` and nothing else: an empty name   *)
(* is an unknown name, and a callable object whose truth value is False    *)
(* (an empty container-like solver object, anything with __len__ == 0 or   *)
(* __bool__ False) is a callable.  Deviation switch NoneByIdentity (TRUE = *)
(* intended): FALSE tests `not method` and runs the default instead.       *)
(* Every functional has its OWN table: a name that some other functional   *)
(* knows (rootfinder's "anderson_acc", equilibrium's "gd", quad's "rk4")   *)
(* is an unknown name here.  Deviation switch OwnTable (TRUE = intended):  *)
(* FALSE looks the name up in one registry shared by the three optimize    *)
(* functionals.                                                            *)
(***************************************************************************)
EXTENDS Naturals, Sequences, FiniteSets, TLC
CONSTANTS LowerFirst, AnyCallable, DefaultTakesOptions, NoneByIdentity, OwnTable
RF == {"newton", "broyden1", "broyden2", "linearmixing"}
Functionals == {"solve", "symeig", "rootfinder", "equilibrium", "minimize", "solve_ivp", "quad", "mcquad", "interp1d", "squad"}
Names == [f \in Functionals |->
   CASE f = "solve" -> {"exactsolve", "custom_exactsolve", "cg", "bicgstab", "gmres", "broyden1", "scipy_gmres"}
     [] f = "symeig" -> {"exacteig", "custom_exacteig", "davidson"}
     [] f = "rootfinder" -> RF
     [] f = "equilibrium" -> RF \cup {"anderson_acc"}
     [] f = "minimize" -> RF \cup {"gd", "adam"}
     [] f = "solve_ivp" -> {"rk4", "rk38", "rk23", "rk45", "euler"}
     [] f = "quad" -> {"leggauss"}
     [] f = "mcquad" -> {"mh", "mhcustom", "_dummy1d"}
     [] f = "interp1d" -> {"cspline", "linear"}
     [] f = "squad" -> {"cspline", "trapz", "simpson"}]
\* names that are compared before the table lookup
Early == [f \in Functionals |->
   CASE f = "solve" -> {"exactsolve"} [] f = "symeig" -> {"exacteig"}
     [] f = "equilibrium" -> {"anderson_acc"} [] f = "minimize" -> RF
     [] OTHER -> {}]
Default == [f \in Functionals |->
   CASE f = "solve" -> "exactsolve" [] f = "symeig" -> "exacteig" [] f \in {"rootfinder", "equilibrium", "minimize"} -> "broyden1"
     [] f = "solve_ivp" -> "rk45" [] f = "quad" -> "leggauss" [] f = "mcquad" -> "mh" [] f \in {"interp1d", "squad"} -> "cspline"]
ArgClasses == {"none", "exact", "mixedcase", "unknown", "foreign", "emptyname", "callable", "noncallable"}
AllNames == UNION {Names[g] : g \in Functionals}
OptFamily == {"rootfinder", "equilibrium", "minimize"}
SharedRegistry == UNION {Names[g] : g \in OptFamily}
CallableKinds == {"function", "lambda", "partial", "instance", "boundmethod", "falsyinstance"}
Falsy(cls, ck) == cls = "emptyname" \/ (cls = "callable" /\ ck = "falsyinstance")
Routines == {"function", "lambda", "boundmethod"}
\* which functionals run the method inside an autograd custom function (gradient recording disabled) and
\* differentiate implicitly (the callable needs no graph of its own)
Implicit == {"solve", "symeig", "rootfinder", "equilibrium", "minimize", "solve_ivp", "quad", "mcquad"}

Resolve(f, cls, nm, ck) ==
   CASE cls = "none" \/ (~NoneByIdentity /\ Falsy(cls, ck)) -> Default[f]
     [] cls = "exact" -> nm
     [] cls = "mixedcase" -> IF LowerFirst[f] \/ nm \notin Early[f] THEN nm ELSE "raise"    \* an early comparison that misses sends the name to the wrong table
     [] cls = "foreign" -> IF ~OwnTable /\ f \in OptFamily /\ nm \in SharedRegistry THEN nm ELSE "raise"
     [] cls = "callable" -> IF AnyCallable \/ ck \in Routines THEN "callable" ELSE "raise"
     [] OTHER -> "raise"

\* do the caller's method-specific options reach the method that runs?
OptionsReach(f, cls) == IF cls = "none" THEN DefaultTakesOptions[f] ELSE TRUE
VARIABLES f, cls, nm, ck, outcome, opts
vars == <<f, cls, nm, ck, outcome, opts>>
Init == /\ f \in Functionals /\ cls \in ArgClasses /\ nm \in AllNames
        /\ (cls = "foreign" => nm \notin Names[f]) /\ (cls # "foreign" => nm \in Names[f])
        /\ (cls \notin {"exact", "mixedcase", "foreign"} => nm = CHOOSE x \in Names[f] : TRUE)     \* the name only matters for these classes
        /\ ck \in CallableKinds /\ (cls # "callable" => ck = "function")               \* the kind only matters for callables
        /\ outcome = Resolve(f, cls, nm, ck) /\ opts = OptionsReach(f, cls)
Next == UNCHANGED vars
Spec == Init /\ [][Next]_vars
CaseInsensitive == cls = "mixedcase" => outcome = nm
UnknownRejected == cls \in {"unknown", "foreign", "emptyname", "noncallable"} => outcome = "raise"
CallableAccepted == cls = "callable" => outcome = "callable"
DefaultIsBuiltIn == cls = "none" => outcome \in Names[f]
OptionsDelivered == outcome # "raise" => opts
=============================================================================
