----------------------------- MODULE InterpCfg -----------------------------
(***************************************************************************)
(* xitorch.interpolate.Interp1D as a case table with exact values.         *)
(* Samples (x_i, y_i) with integer x_i (strictly increasing after sorting) *)
(* and integer y_i; a rational query point q; an extrapolation mode.       *)
(* The specification predicts                                              *)
(*   - the position inside the sample range that an outside query is       *)
(*     mapped to by the modes bound / mirror / periodic (exactly, over Q), *)
(*   - the outcome class: "value" | "nan" | "const" | "raise",             *)
(*   - for the piecewise-linear interpolant the exact value and its exact   *)
(*     derivative w.r.t. the query point (slope of the segment times the   *)
(*     derivative of the position map: 0 for bound, 1 for periodic, +-1    *)
(*     for mirror; 0 for the padding classes), wherever it exists (the     *)
(*     mapped position is not a knot).                                     *)
(* How y is supplied (at construction, at call time, both) is part of the  *)
(* configuration: both => a warning and the constructor's y wins; none =>  *)
(* an error; periodic extrapolation of a spline requires y_1 = y_n.        *)
(***************************************************************************)
EXTENDS Rat, Sequences, TLC
CONSTANTS Grids,      \* set of [x, y] records, x strictly increasing integer sequence, y integer sequence
          Queries,    \* set of rationals <<num, den>>
          Extraps,    \* subset of {"nan", "const", "const0", "constneg", "bound", "mirror", "periodic"}
          YModes      \* subset of {"init", "call", "both", "none"}
VARIABLES g, q, extrap, ymode, pred
vars == <<g, q, extrap, ymode, pred>>
N(gr) == Len(gr.x)
XMin(gr) == R(gr.x[1])
XMax(gr) == R(gr.x[N(gr)])
Inside(gr, p) == RLe(XMin(gr), p) /\ RLe(p, XMax(gr))
\* interval index i with x_i <= p <= x_{i+1} (searchsorted left, clamped to 1..n-1)
Seg(gr, p) == IF RLe(p, R(gr.x[1])) THEN 1
              ELSE CHOOSE i \in 1..(N(gr) - 1) : RLt(R(gr.x[i]), p) /\ RLe(p, R(gr.x[i + 1]))
Linear(gr, p) == LET i == Seg(gr, p)
                     t == RDiv(RSub(p, R(gr.x[i])), R(gr.x[i + 1] - gr.x[i]))
                 IN RAdd(R(gr.y[i]), RMul(R(gr.y[i + 1] - gr.y[i]), t))
\* position maps of the extrapolation modes
Len_(gr) == RSub(XMax(gr), XMin(gr))
Map(gr, p, mode) ==
   LET u == RDiv(RSub(p, XMin(gr)), Len_(gr))      \* normalised position
   IN CASE mode = "bound" -> IF RLt(u, R(0)) THEN XMin(gr) ELSE IF RLt(R(1), u) THEN XMax(gr) ELSE p
        [] mode = "periodic" -> RAdd(XMin(gr), RMul(RSub(u, R(RFloor(u))), Len_(gr)))
        [] mode = "mirror" -> LET a == RAbs(u) k == RFloor(a) f == RSub(a, R(k))
                                  v == IF k % 2 = 0 THEN f ELSE RSub(R(1), f)
                              IN RAdd(XMin(gr), RMul(v, Len_(gr)))
Slope(gr, p) == LET i == Seg(gr, p) IN RDiv(R(gr.y[i + 1] - gr.y[i]), R(gr.x[i + 1] - gr.x[i]))
IsKnot(gr, p) == \E i \in 1..N(gr) : R(gr.x[i]) = p
\* derivative of the position maps at an outside point
MapD(gr, p, mode) ==
   LET u == RDiv(RSub(p, XMin(gr)), Len_(gr))
   IN CASE mode = "bound" -> R(0)
        [] mode = "periodic" -> R(1)
        [] mode = "mirror" -> LET a == RAbs(u) k == RFloor(a)
                                  sgn == IF RLt(u, R(0)) THEN 0 - 1 ELSE 1
                              IN R(IF k % 2 = 0 THEN sgn ELSE 0 - sgn)
ConstVal == R(7)
Predict ==
   IF ymode = "none" THEN [cls |-> "raise", warn |-> FALSE, pos |-> q, v |-> R(0), smooth |-> FALSE, dq |-> R(0), mapd |-> R(0)]
   ELSE LET w == ymode = "both" IN
        IF Inside(g, q) THEN [cls |-> "value", warn |-> w, pos |-> q, v |-> Linear(g, q), smooth |-> ~IsKnot(g, q), dq |-> Slope(g, q), mapd |-> R(1)]
        ELSE CASE extrap = "nan" -> [cls |-> "nan", warn |-> w, pos |-> q, v |-> R(0), smooth |-> TRUE, dq |-> R(0), mapd |-> R(0)]
               [] extrap = "const" -> [cls |-> "const", warn |-> w, pos |-> q, v |-> ConstVal, smooth |-> TRUE, dq |-> R(0), mapd |-> R(0)]
               [] extrap = "const0" -> [cls |-> "const", warn |-> w, pos |-> q, v |-> R(0), smooth |-> TRUE, dq |-> R(0), mapd |-> R(0)]          \* the padding constant zero is a constant like any other
               [] extrap = "constneg" -> [cls |-> "const", warn |-> w, pos |-> q, v |-> R(0 - 3), smooth |-> TRUE, dq |-> R(0), mapd |-> R(0)]
               [] OTHER -> LET p == Map(g, q, extrap) IN [cls |-> "value", warn |-> w, pos |-> p, v |-> Linear(g, p),
                                                         smooth |-> ~IsKnot(g, p), dq |-> RMul(Slope(g, p), MapD(g, q, extrap)), mapd |-> MapD(g, q, extrap)]
Init == /\ g \in Grids /\ q \in Queries /\ extrap \in Extraps /\ ymode \in YModes /\ pred = Predict
Next == UNCHANGED vars
Spec == Init /\ [][Next]_vars
\* sanity of the model itself
MappedInside == pred.cls = "value" => Inside(g, pred.pos)
HitsSamples == \A i \in 1..N(g) : Linear(g, R(g.x[i])) = R(g.y[i])
Between == pred.cls = "value" => LET i == Seg(g, pred.pos) lo == IF g.y[i] <= g.y[i + 1] THEN g.y[i] ELSE g.y[i + 1]
                                     hi == IF g.y[i] <= g.y[i + 1] THEN g.y[i + 1] ELSE g.y[i]
                                 IN RLe(R(lo), pred.v) /\ RLe(pred.v, R(hi))
\* the derivative of a mapped query has the magnitude of a segment slope (or vanishes)
SlopeMagnitude == (pred.cls = "value" /\ pred.smooth) =>
                    (pred.dq = R(0) \/ \E i \in 1..(N(g) - 1) : RAbs(pred.dq) = RAbs(RDiv(R(g.y[i + 1] - g.y[i]), R(g.x[i + 1] - g.x[i]))))
=============================================================================
