------------------------ MODULE ResultHistory_proofs ------------------------
(* Histories of any length over any set of functionals (TLC explores length <= 3). *)
EXTENDS ResultHistory, TLAPS
ASSUME Intended == OwnStorage = TRUE
ASSUME ConstNat == MaxLen \in Nat
Entry == [f : Fs, version : Nat]
Inv == hist \in Seq(Entry) /\ EarlierResultsUntouched
LEMMA InitInv == Init => Inv
  BY DEF Init, Inv, EarlierResultsUntouched
LEMMA NextInv == Inv /\ [Next]_vars => Inv'
<1> SUFFICES ASSUME Inv, [Next]_vars PROVE Inv'
  OBVIOUS
<1>1. CASE UNCHANGED vars
  BY <1>1 DEF Inv, vars, EarlierResultsUntouched
<1>2. ASSUME NEW f \in Fs, Call(f) PROVE Inv'
  <2>0. Len(hist) \in Nat
    BY DEF Inv
  <2>1. hist' = Append(hist, [f |-> f, version |-> Len(hist) + 1])
    BY <1>2, Intended DEF Call
  <2>2. [f |-> f, version |-> Len(hist) + 1] \in Entry
    BY <2>0 DEF Entry
  <2>3. hist' \in Seq(Entry) /\ Len(hist') = Len(hist) + 1
    BY <2>1, <2>2 DEF Inv
  <2>4. \A i \in 1..Len(hist') : hist'[i].version = i
    <3> SUFFICES ASSUME NEW i \in 1..Len(hist') PROVE hist'[i].version = i
      OBVIOUS
    <3>1. i <= Len(hist) \/ i = Len(hist) + 1
      BY <2>0, <2>3
    <3>2. CASE i <= Len(hist)
      BY <3>2, <2>1, <2>0 DEF Inv, EarlierResultsUntouched
    <3>3. CASE i = Len(hist) + 1
      BY <3>3, <2>1, <2>0 DEF Inv
    <3> QED BY <3>1, <3>2, <3>3
  <2> QED BY <2>3, <2>4 DEF Inv, EarlierResultsUntouched
<1> QED BY <1>1, <1>2 DEF Next
THEOREM Safety == Spec => []EarlierResultsUntouched
  BY InitInv, NextInv, PTL DEF Spec, Inv
=============================================================================
