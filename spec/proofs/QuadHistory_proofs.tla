------------------------- MODULE QuadHistory_proofs -------------------------
(* Histories of any length (TLC explores length <= 3). *)
EXTENDS QuadHistory, TLAPS
ASSUME Intended == KeyedByPrecision = TRUE
ASSUME ConstNat == MaxLen \in Nat
Entry == [call : Calls, rule : Dtypes]
Inv == hist \in Seq(Entry) /\ RuleInCallPrecision
LEMMA InitInv == Init => Inv
  BY DEF Init, Inv, RuleInCallPrecision
LEMMA NextInv == Inv /\ [Next]_vars => Inv'
<1> SUFFICES ASSUME Inv, [Next]_vars PROVE Inv'
  OBVIOUS
<1>1. CASE UNCHANGED vars
  BY <1>1 DEF Inv, vars, RuleInCallPrecision
<1>2. ASSUME NEW c \in Calls, Call(c) PROVE Inv'
  <2>1. hist' = Append(hist, [call |-> c, rule |-> c.dtype])
    BY <1>2, Intended DEF Call, Served
  <2>2. [call |-> c, rule |-> c.dtype] \in Entry
    BY DEF Entry, Calls
  <2>3. hist' \in Seq(Entry) /\ Len(hist') = Len(hist) + 1 /\ Len(hist) \in Nat
    BY <2>1, <2>2 DEF Inv
  <2>4. \A i \in 1..Len(hist') : hist'[i].rule = hist'[i].call.dtype
    <3> SUFFICES ASSUME NEW i \in 1..Len(hist') PROVE hist'[i].rule = hist'[i].call.dtype
      OBVIOUS
    <3>1. i <= Len(hist) \/ i = Len(hist) + 1
      BY <2>3
    <3>2. CASE i <= Len(hist)
      BY <3>2, <2>1, <2>3 DEF Inv, RuleInCallPrecision
    <3>3. CASE i = Len(hist) + 1
      BY <3>3, <2>1, <2>3 DEF Inv
    <3> QED BY <3>1, <3>2, <3>3
  <2> QED BY <2>3, <2>4 DEF Inv, RuleInCallPrecision
<1> QED BY <1>1, <1>2 DEF Next
THEOREM Safety == Spec => []RuleInCallPrecision
  BY InitInv, NextInv, PTL DEF Spec, Inv
=============================================================================
