-------------------------- MODULE BckHistory_proofs --------------------------
(* Histories of any length (TLC explores length <= 3). *)
EXTENDS BckHistory, TLAPS
ASSUME Intended == DefaultsImmutable = TRUE
ASSUME ConstNat == MaxLen \in Nat
Entry == [v : Variants, given : BOOLEAN, eff : {"b", "default", "v1", "v2"}]
Inv == hist \in Seq(Entry) /\ shared = "empty" /\ BackwardConfigIsOwn
LEMMA InitInv == Init => Inv
  BY DEF Init, Inv, BackwardConfigIsOwn
LEMMA NextInv == Inv /\ [Next]_vars => Inv'
<1> SUFFICES ASSUME Inv, [Next]_vars PROVE Inv'
  OBVIOUS
<1>1. CASE UNCHANGED vars
  BY <1>1 DEF Inv, vars, BackwardConfigIsOwn, Expected
<1>2. ASSUME NEW v \in Variants, NEW given \in BOOLEAN, Call(v, given) PROVE Inv'
  <2>1. hist' = Append(hist, [v |-> v, given |-> given, eff |-> Expected(f, v, given)]) /\ shared' = "empty" /\ f' = f
    BY <1>2, Intended DEF Call, Eff, Expected, Inv
  <2>2. [v |-> v, given |-> given, eff |-> Expected(f, v, given)] \in Entry
    BY DEF Entry, Expected, Variants
  <2>3. hist' \in Seq(Entry) /\ Len(hist') = Len(hist) + 1 /\ Len(hist) \in Nat
    BY <2>1, <2>2 DEF Inv
  <2>4. \A i \in 1..Len(hist') : hist'[i].eff = Expected(f', hist'[i].v, hist'[i].given)
    <3> SUFFICES ASSUME NEW i \in 1..Len(hist') PROVE hist'[i].eff = Expected(f', hist'[i].v, hist'[i].given)
      OBVIOUS
    <3>1. i <= Len(hist) \/ i = Len(hist) + 1
      BY <2>3
    <3>2. CASE i <= Len(hist)
      BY <3>2, <2>1, <2>3 DEF Inv, BackwardConfigIsOwn
    <3>3. CASE i = Len(hist) + 1
      BY <3>3, <2>1, <2>3 DEF Inv
    <3> QED BY <3>1, <3>2, <3>3
  <2> QED BY <2>1, <2>3, <2>4 DEF Inv, BackwardConfigIsOwn
<1> QED BY <1>1, <1>2 DEF Next
THEOREM Safety == Spec => []BackwardConfigIsOwn
  BY InitInv, NextInv, PTL DEF Spec, Inv
=============================================================================
