--------------------------- MODULE Davidson_proofs ---------------------------
(* Unbounded safety of the Davidson subspace loop: for every operator size, number of requested pairs, initial   *)
(* search-space size and iteration budget (TLC explores na <= MaxNA, it <= MaxIter for small values).             *)
EXTENDS DavidsonCore, TLAPS
ASSUME Intended == KeepBest = TRUE
ASSUME ConstNat == MaxNA \in Nat /\ MaxIter \in Nat

Inv == /\ na \in Nat /\ neig \in Nat /\ nguess \in Nat /\ neig >= 1 /\ neig <= nguess /\ nguess <= na
       /\ it \in Nat /\ it <= MaxIter /\ best \in Nat /\ cur \in Nat /\ residOk \in BOOLEAN
       /\ pc \in {"loop", "done", "ret"}
       /\ (pc = "ret" => ret = best)
       /\ ((pc \in {"done", "ret"} /\ it < MaxIter) => (residOk \/ nguess = na))

LEMMA InitInv == Init => Inv
  BY ConstNat DEF Init, Inv

LEMMA NextInv == Inv /\ [Next]_vars => Inv'
<1> SUFFICES ASSUME Inv, [Next]_vars PROVE Inv'
  OBVIOUS
<1>0. CASE UNCHANGED vars
  BY <1>0 DEF Inv, vars
<1>1. ASSUME NEW ok \in BOOLEAN, NEW im \in BOOLEAN, Iterate(ok, im) PROVE Inv'
  <2>1. /\ pc = "loop" /\ it < MaxIter /\ it' = it + 1 /\ cur' = it + 1 /\ residOk' = ok
        /\ best' \in {it + 1, best} /\ UNCHANGED <<na, neig, ret>>
    BY <1>1 DEF Iterate
  <2>2. CASE ok \/ nguess = na
    <3>1. pc' = "done" /\ UNCHANGED <<nguess, applied>>
      BY <1>1, <2>2 DEF Iterate
    <3>2. (nguess = na) => ok
      BY <1>1 DEF Iterate
    <3> QED BY <2>1, <2>2, <3>1, <3>2, ConstNat DEF Inv
  <2>3. CASE ~(ok \/ nguess = na)
    <3>1. pc' = "loop" /\ nguess' = nguess + Min(neig, na - nguess)
      BY <1>1, <2>3 DEF Iterate
    <3>2. Min(neig, na - nguess) \in Nat /\ Min(neig, na - nguess) <= na - nguess
      BY DEF Min, Inv
    <3> QED BY <2>1, <2>3, <3>1, <3>2, ConstNat DEF Inv
  <2> QED BY <2>2, <2>3
<1>2. CASE Exhaust
  BY <1>2 DEF Exhaust, Inv
<1>3. CASE Return
  BY <1>3, Intended DEF Return, Inv
<1> QED BY <1>0, <1>1, <1>2, <1>3 DEF Next

THEOREM Safety == Spec => [](Bounded /\ ReturnsBest /\ Terminates)
<1>1. Inv => Bounded /\ ReturnsBest /\ Terminates
  BY DEF Inv, Bounded, ReturnsBest, Terminates
<1> QED BY InitInv, NextInv, <1>1, PTL DEF Spec
=============================================================================
