------------------------ MODULE BackwardReuse_proofs ------------------------
(* Any number of cotangents and of passes through one result (TLC explores  *)
(* NCot = 2, MaxPasses = 3).                                                *)
EXTENDS BackwardReuse, TLAPS
ASSUME Intended == OwnCotangent = TRUE /\ CotangentCopied = TRUE /\ ShortcutByGraph = TRUE
ASSUME ConstNat == NCot \in Nat /\ MaxPasses \in Nat
PassRec == [cot : 1..NCot, rec : BOOLEAN]
Inv == /\ passes \in Seq(PassRec)
       /\ usedCot \in Seq(Nat) /\ Len(usedCot) = Len(passes)
       /\ secondOf \in Seq(Nat) /\ Len(secondOf) = Len(passes)
       /\ memo = 0 /\ written = {}
       /\ second \subseteq 1..Len(passes)
       /\ gn \in {"none", "kept"}
       /\ EachPassOwnCotangent
       /\ SecondBelongsToItsPass
LEMMA InitInv == Init => Inv
  BY DEF Init, Inv, EachPassOwnCotangent, SecondBelongsToItsPass
LEMMA NextInv == Inv /\ [Next]_vars => Inv'
<1> SUFFICES ASSUME Inv, [Next]_vars PROVE Inv'
  OBVIOUS
<1>1. CASE UNCHANGED vars
  BY <1>1 DEF Inv, vars, EachPassOwnCotangent, SecondBelongsToItsPass
<1>2. CASE GaussNewton
  BY <1>2, Intended DEF GaussNewton, Inv, EachPassOwnCotangent, SecondBelongsToItsPass
<1>3. ASSUME NEW c \in 1..NCot, NEW rec \in BOOLEAN, Pass(c, rec) PROVE Inv'
  <2>1. /\ passes' = Append(passes, [cot |-> c, rec |-> rec])
        /\ usedCot' = Append(usedCot, c) /\ memo' = 0 /\ written' = written
        /\ secondOf' = Append(secondOf, 0) /\ second' = second /\ gn' = gn
    BY <1>3, Intended DEF Pass
  <2>2. [cot |-> c, rec |-> rec] \in PassRec /\ c \in Nat
    BY ConstNat DEF PassRec
  <2>3. /\ passes' \in Seq(PassRec) /\ Len(passes') = Len(passes) + 1 /\ Len(passes) \in Nat
        /\ usedCot' \in Seq(Nat) /\ Len(usedCot') = Len(passes')
        /\ secondOf' \in Seq(Nat) /\ Len(secondOf') = Len(passes')
    BY <2>1, <2>2 DEF Inv
  <2>4. EachPassOwnCotangent'
    <3> SUFFICES ASSUME NEW i \in 1..Len(passes') PROVE usedCot'[i] = passes'[i].cot
      BY DEF EachPassOwnCotangent
    <3>1. i <= Len(passes) \/ i = Len(passes) + 1
      BY <2>3
    <3>2. CASE i <= Len(passes)
      BY <3>2, <2>1, <2>3 DEF Inv, EachPassOwnCotangent
    <3>3. CASE i = Len(passes) + 1
      BY <3>3, <2>1, <2>3 DEF Inv
    <3> QED BY <3>1, <3>2, <3>3
  <2>5. SecondBelongsToItsPass'
    <3> SUFFICES ASSUME NEW i \in second' PROVE secondOf'[i] = passes'[i].cot
      BY DEF SecondBelongsToItsPass
    <3>1. i \in 1..Len(passes) /\ i \in second
      BY <2>1 DEF Inv
    <3> QED BY <3>1, <2>1, <2>3 DEF Inv, SecondBelongsToItsPass
  <2>6. second' \subseteq 1..Len(passes')
    BY <2>1, <2>3 DEF Inv
  <2> QED BY <2>1, <2>3, <2>4, <2>5, <2>6 DEF Inv
<1>4. ASSUME NEW i \in 1..MaxPasses, Second(i) PROVE Inv'
  <2>1. /\ i \in 1..Len(passes) /\ second' = second \cup {i}
        /\ secondOf' = [secondOf EXCEPT ![i] = usedCot[i]]
        /\ passes' = passes /\ usedCot' = usedCot /\ memo' = memo /\ written' = written /\ gn' = gn
    BY <1>4 DEF Second
  <2>2. usedCot[i] \in Nat /\ usedCot[i] = passes[i].cot
    BY <2>1 DEF Inv, EachPassOwnCotangent
  <2>3. secondOf' \in Seq(Nat) /\ Len(secondOf') = Len(passes')
    BY <2>1, <2>2 DEF Inv
  <2>4. SecondBelongsToItsPass'
    <3> SUFFICES ASSUME NEW j \in second' PROVE secondOf'[j] = passes'[j].cot
      BY DEF SecondBelongsToItsPass
    <3>1. CASE j = i
      BY <3>1, <2>1, <2>2 DEF Inv
    <3>2. CASE j # i
      BY <3>2, <2>1 DEF Inv, SecondBelongsToItsPass
    <3> QED BY <3>1, <3>2
  <2>5. EachPassOwnCotangent'
    BY <2>1 DEF Inv, EachPassOwnCotangent
  <2> QED BY <2>1, <2>3, <2>4, <2>5 DEF Inv
<1> QED BY <1>1, <1>2, <1>3, <1>4 DEF Next
THEOREM Safety == Spec => [](EachPassOwnCotangent /\ CotangentsUntouched /\ SecondBelongsToItsPass /\ GaussNewtonTermKept)
  <1>1. Inv => EachPassOwnCotangent /\ CotangentsUntouched /\ SecondBelongsToItsPass /\ GaussNewtonTermKept
    BY DEF Inv, CotangentsUntouched, GaussNewtonTermKept
  <1> QED BY InitInv, NextInv, <1>1, PTL DEF Spec
=============================================================================
