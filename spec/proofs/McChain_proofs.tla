--------------------------- MODULE McChain_proofs ---------------------------
(* Unbounded safety of the sampling protocol of the two chain samplers: machine-checked with TLAPS for every   *)
(* nsamples >= 1 and nburn >= 0 (TLC explores small values only).                                               *)
EXTENDS McChain, TLAPS
ASSUME Intended == CollectFrom = "burned" /\ CollectCount = "nsamples" /\ BurnSteps = "n" /\ BwdOnSamples = TRUE
ASSUME ConstOK == MaxN \in Nat /\ Samplers \subseteq {"mh", "mhcustom"}

Off == IF sampler = "mhcustom" THEN 1 ELSE 0
Chain == /\ Len(collected) <= nsamples
         /\ (sampler = "mhcustom" => Len(collected) >= 1)
         /\ pos = nburn + Len(collected) - Off
         /\ \A j \in 1..Len(collected) : collected[j] = nburn + j - Off
Inv == /\ sampler \in {"mh", "mhcustom"} /\ nsamples \in Nat /\ nsamples >= 1 /\ nburn \in Nat
       /\ pos \in Nat /\ steps \in Nat /\ collected \in Seq(Nat)
       /\ phase \in {"burn", "collect", "done", "bwd"}
       /\ (phase = "burn" => pos = steps /\ steps <= nburn /\ collected = << >>)
       /\ (phase # "burn" => Chain)
       /\ (phase \in {"done", "bwd"} => Len(collected) = nsamples /\ fEvals = collected)
       /\ (phase = "bwd" => bwdPoints = collected)

LEMMA Targets == BurnTarget = nburn /\ Target = nsamples
  BY Intended DEF BurnTarget, Target

LEMMA InitInv == Init => Inv
  BY ConstOK DEF Init, Inv

LEMMA NextInv == Inv /\ [Next]_vars => Inv'
<1> SUFFICES ASSUME Inv, [Next]_vars PROVE Inv'
  OBVIOUS
<1>0. CASE UNCHANGED vars
  BY <1>0 DEF Inv, vars, Chain, Off
<1>1. CASE BurnStep
  BY <1>1, Targets DEF BurnStep, Inv, Chain, Off
<1>2. CASE StartCollect
  <2>1. /\ phase = "burn" /\ steps = nburn /\ pos' = pos /\ phase' = "collect"
        /\ collected' = (IF sampler = "mhcustom" THEN <<pos>> ELSE << >>)
        /\ UNCHANGED <<sampler, nsamples, nburn, fEvals, bwdPoints>> /\ steps' = 0
    BY <1>2, Targets, Intended DEF StartCollect, Inv
  <2>2. pos = nburn
    BY <2>1 DEF Inv
  <2>3. CASE sampler = "mhcustom"
    <3>1. collected' = <<nburn>> /\ Len(collected') = 1 /\ collected'[1] = nburn
      BY <2>1, <2>2, <2>3
    <3> QED BY <2>1, <2>2, <2>3, <3>1 DEF Inv, Chain, Off
  <2>4. CASE sampler = "mh"
    <3>1. collected' = << >> /\ Len(collected') = 0
      BY <2>1, <2>4
    <3> QED BY <2>1, <2>2, <2>4, <3>1 DEF Inv, Chain, Off
  <2> QED BY <2>3, <2>4 DEF Inv
<1>3. CASE CollectStep
  <2>1. /\ phase = "collect" /\ Len(collected) < nsamples /\ pos' = pos + 1 /\ steps' = steps + 1
        /\ collected' = Append(collected, pos + 1)
        /\ UNCHANGED <<sampler, nsamples, nburn, phase, fEvals, bwdPoints>>
    BY <1>3, Targets DEF CollectStep
  <2>2. Len(collected') = Len(collected) + 1 /\ collected' \in Seq(Nat) /\ Len(collected) \in Nat
    BY <2>1 DEF Inv
  <2>3. \A j \in 1..Len(collected') : collected'[j] = nburn + j - Off'
    <3> SUFFICES ASSUME NEW j \in 1..Len(collected') PROVE collected'[j] = nburn + j - Off'
      OBVIOUS
    <3>1. CASE j <= Len(collected)
      BY <3>1, <2>1, <2>2 DEF Inv, Chain, Off
    <3>2. CASE j = Len(collected) + 1
      BY <3>2, <2>1, <2>2 DEF Inv, Chain, Off
    <3>3. j \in Nat /\ (j <= Len(collected) \/ j = Len(collected) + 1)
      BY <2>2
    <3> QED BY <3>1, <3>2, <3>3
  <2>4. Off' = Off /\ Off \in {0, 1}
    BY <2>1 DEF Off
  <2>5. Chain'
    <3>1. Len(collected') <= nsamples' /\ (sampler' = "mhcustom" => Len(collected') >= 1)
      BY <2>1, <2>2 DEF Inv, Chain
    <3>2. pos' = nburn' + Len(collected') - Off'
      BY <2>1, <2>2, <2>4 DEF Inv, Chain
    <3> QED BY <3>1, <3>2, <2>3, <2>1 DEF Chain
  <2>6. phase' = "collect" /\ pos' \in Nat /\ steps' \in Nat
    BY <2>1 DEF Inv
  <2> QED BY <2>1, <2>2, <2>5, <2>6 DEF Inv
<1>4. CASE Quadrature
  BY <1>4 DEF Quadrature, Inv
<1>5. CASE Integrate
  BY <1>5, Targets DEF Integrate, Inv, Chain, Off
<1>6. CASE Backward
  BY <1>6, Intended DEF Backward, Inv, Chain, Off
<1> QED BY <1>0, <1>1, <1>2, <1>3, <1>4, <1>5, <1>6 DEF Next

THEOREM Safety == Spec => [](CountOK /\ AfterBurnIn /\ Continuous /\ BackwardOnSamples)
<1>1. Inv => CountOK /\ BackwardOnSamples
  BY DEF Inv, CountOK, BackwardOnSamples, Finished
<1>2. Inv => AfterBurnIn
  BY DEF Inv, AfterBurnIn, Finished, Chain, Off
<1>3. Inv => Continuous
  BY DEF Inv, Continuous, Finished, Chain, Off
<1> QED BY InitInv, NextInv, <1>1, <1>2, <1>3, PTL DEF Spec
=============================================================================
