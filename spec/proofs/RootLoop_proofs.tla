--------------------------- MODULE RootLoop_proofs ---------------------------
(* Unbounded safety of the three loop skeletons: machine-checked with TLAPS for every iteration budget            *)
(* (TLC explores maxiter <= MaxIterMax for a small MaxIterMax).                                                   *)
EXTENDS RootLoop, TLAPS
ASSUME Intended == ReturnTested = TRUE /\ ZeroResidualStops = TRUE /\ EarlyFixedPoint = TRUE /\ WarnIffNotConverged = TRUE
ASSUME ConstOK == MaxIterMax \in Nat /\ Kinds \subseteq {"nonlin", "anderson", "opt"}

TypeI == /\ kind \in {"nonlin", "anderson", "opt"} /\ maxiter \in Nat /\ pc \in {"start", "loop", "exit", "done"}
         /\ i \in Nat /\ n \in Nat /\ x \in Nat /\ tested \in Nat /\ best \in Nat /\ ret \in Nat
         /\ res \in Seq(ResC) /\ converged \in BOOLEAN /\ warned \in BOOLEAN /\ early \in BOOLEAN /\ raised = FALSE
Inv == /\ TypeI
       /\ (pc = "start" => ~converged /\ ~warned /\ ~early /\ n = 0 /\ x = 0 /\ tested = 0 /\ best = 0 /\ res = << >>)
       /\ ((pc # "start" /\ ~early) => Len(res) = n + 1 /\ x <= n /\ tested <= n /\ best <= n)
       /\ (early => pc = "done" /\ ~warned /\ ~converged /\ kind # "opt" /\ Len(res) >= ret + 1 /\ res[ret + 1] = "zero")
       /\ (pc = "loop" => ~converged /\ ~warned /\ ~early)
       /\ (pc = "exit" => ~warned /\ ~early)
       /\ ((kind # "opt" /\ pc # "start" /\ ~early) => x = n)
       /\ ((kind = "nonlin" /\ pc # "start" /\ ~early) => tested = n)
       /\ ((kind # "opt" /\ converged) => tested = n /\ res[n + 1] # "above")
       /\ ((kind # "opt" /\ pc = "done" /\ ~early) => (converged => ret = x /\ ~warned) /\ (~converged => warned))
       /\ ((kind = "opt" /\ pc # "start") => res[best + 1] = "below" /\ ~early)
       /\ ((kind = "opt" /\ pc = "done" /\ warned) => ret = best)

LEMMA InitInv == Init => Inv
  BY ConstOK DEF Init, Inv, TypeI

LEMMA AppendRes == ASSUME res \in Seq(ResC), NEW r \in ResC, NEW m \in Nat, Len(res) = m + 1
                   PROVE /\ Append(res, r) \in Seq(ResC) /\ Len(Append(res, r)) = m + 2
                         /\ Append(res, r)[m + 2] = r
                         /\ \A q \in 1..(m + 1) : Append(res, r)[q] = res[q]
  OBVIOUS

LEMMA NextInv == Inv /\ [Next]_vars => Inv'
<1> SUFFICES ASSUME Inv, [Next]_vars PROVE Inv'
  OBVIOUS
<1> USE Intended
<1>0. CASE UNCHANGED vars
  BY <1>0 DEF Inv, TypeI, vars
<1>1. ASSUME NEW r \in ResC, NlStart(r) PROVE Inv'
  <2>1. kind = "nonlin" /\ pc = "start" /\ res' = <<r>> /\ UNCHANGED <<kind, maxiter>> /\ early' = (r = "zero")
    BY <1>1 DEF NlStart
  <2>2. CASE r = "zero"
    <3>1. pc' = "done" /\ ret' = 0 /\ warned' = FALSE /\ UNCHANGED <<i, n, x, tested, best, converged, raised>>
      BY <1>1, <2>2 DEF NlStart, Done
    <3> QED BY <2>1, <2>2, <3>1 DEF Inv, TypeI, ResC
  <2>3. CASE r # "zero"
    <3>1. pc' = "loop" /\ UNCHANGED <<i, n, x, tested, best, converged, warned, raised, ret>>
      BY <1>1, <2>3 DEF NlStart
    <3> QED BY <2>1, <2>3, <3>1 DEF Inv, TypeI, ResC
  <2> QED BY <2>2, <2>3
<1>2. ASSUME NEW d \in {"small", "large"}, NEW r \in ResC, NlIter(d, r) PROVE Inv'
  <2>1. /\ kind = "nonlin" /\ pc = "loop" /\ i < maxiter /\ n' = n + 1 /\ res' = Append(res, r) /\ tested' = n + 1 /\ i' = i + 1
        /\ x' = n + 1 /\ best' \in {best, n + 1}
        /\ UNCHANGED <<early, kind, maxiter, warned, raised, ret>>
    BY <1>2 DEF NlIter
  <2>2. Len(res) = n + 1 /\ ~early /\ ~converged /\ ~warned
    BY <2>1 DEF Inv
  <2>3. /\ res' \in Seq(ResC) /\ Len(res') = n + 2 /\ res'[n + 2] = r
    BY <2>1, <2>2, AppendRes DEF Inv, TypeI
  <2>4. CASE d = "small" /\ r # "above"
    <3>1. converged' = TRUE /\ pc' = "exit"
      BY <1>2, <2>4 DEF NlIter
    <3>2. TypeI'
      BY <2>1, <2>3, <3>1 DEF Inv, TypeI
    <3>3. warned' = FALSE /\ early' = FALSE /\ kind' = "nonlin"
      BY <2>1, <2>2 DEF Inv, TypeI
    <3>4. Len(res') = n' + 1 /\ x' = n' /\ tested' = n' /\ best' <= n' /\ x' <= n' /\ tested' <= n' /\ res'[n' + 1] # "above"
      BY <2>1, <2>2, <2>3, <2>4 DEF Inv, TypeI
    <3> QED BY <3>1, <3>2, <3>3, <3>4 DEF Inv
  <2>5. CASE ~(d = "small" /\ r # "above")
    <3>1. UNCHANGED <<converged, pc>>
      BY <1>2, <2>5 DEF NlIter
    <3>2. TypeI'
      BY <2>1, <2>3, <3>1 DEF Inv, TypeI
    <3>3. pc' = "loop" /\ converged' = FALSE /\ warned' = FALSE /\ early' = FALSE /\ kind' = "nonlin"
      BY <2>1, <2>2, <3>1 DEF Inv, TypeI
    <3>4. Len(res') = n' + 1 /\ x' = n' /\ tested' = n' /\ best' <= n' /\ x' <= n' /\ tested' <= n'
      BY <2>1, <2>3 DEF Inv, TypeI
    <3> QED BY <3>2, <3>3, <3>4 DEF Inv
  <2> QED BY <2>4, <2>5
<1>3. ASSUME NEW d \in {"small", "large"}, NEW r \in ResC, AaIter(d, r) PROVE Inv'
  <2>1. /\ kind = "anderson" /\ pc = "loop" /\ i < maxiter /\ n' = n + 1 /\ res' = Append(res, r) /\ tested' = n + 1 /\ i' = i + 1
        /\ x' = n + 1
        /\ UNCHANGED <<early, kind, maxiter, best, warned, raised, ret>>
    BY <1>3 DEF AaIter
  <2>2. Len(res) = n + 1 /\ ~early /\ ~converged /\ ~warned
    BY <2>1 DEF Inv
  <2>3. /\ res' \in Seq(ResC) /\ Len(res') = n + 2 /\ res'[n + 2] = r
    BY <2>1, <2>2, AppendRes DEF Inv, TypeI
  <2>4. CASE d = "small" /\ r # "above"
    <3>1. converged' = TRUE /\ pc' = "exit"
      BY <1>3, <2>4 DEF AaIter
    <3>2. TypeI'
      BY <2>1, <2>3, <3>1 DEF Inv, TypeI
    <3>3. warned' = FALSE /\ early' = FALSE /\ kind' = "anderson"
      BY <2>1, <2>2 DEF Inv, TypeI
    <3>4. Len(res') = n' + 1 /\ x' = n' /\ tested' = n' /\ best' <= n' /\ x' <= n' /\ tested' <= n' /\ res'[n' + 1] # "above"
      BY <2>1, <2>2, <2>3, <2>4 DEF Inv, TypeI
    <3> QED BY <3>1, <3>2, <3>3, <3>4 DEF Inv
  <2>5. CASE ~(d = "small" /\ r # "above")
    <3>1. UNCHANGED <<converged, pc>>
      BY <1>3, <2>5 DEF AaIter
    <3>2. TypeI'
      BY <2>1, <2>3, <3>1 DEF Inv, TypeI
    <3>3. pc' = "loop" /\ converged' = FALSE /\ warned' = FALSE /\ early' = FALSE /\ kind' = "anderson"
      BY <2>1, <2>2, <3>1 DEF Inv, TypeI
    <3>4. Len(res') = n' + 1 /\ x' = n' /\ tested' = n' /\ best' <= n' /\ x' <= n' /\ tested' <= n'
      BY <2>1, <2>2, <2>3 DEF Inv, TypeI
    <3> QED BY <3>2, <3>3, <3>4 DEF Inv
  <2> QED BY <2>4, <2>5
<1>4. CASE NlZeroDone
  <2>1. /\ kind = "nonlin" /\ pc = "loop" /\ res[x + 1] = "zero" /\ converged' = TRUE /\ pc' = "exit"
        /\ UNCHANGED <<early, kind, maxiter, i, res, n, x, tested, best, warned, raised, ret>>
    BY <1>4 DEF NlZeroDone, Res
  <2> QED BY <2>1 DEF Inv, TypeI
<1>5. CASE NlZeroStep
  BY <1>5 DEF NlZeroStep
<1>6. CASE NlExhaust
  BY <1>6 DEF NlExhaust, Inv, TypeI
<1>7. CASE NlReturn
  <2>1. /\ kind = "nonlin" /\ pc = "exit" /\ pc' = "done"
        /\ (converged => ret' = x /\ warned' = FALSE) /\ (~converged => ret' = best /\ warned' = TRUE)
        /\ UNCHANGED <<early, kind, maxiter, i, res, n, x, tested, best, converged, raised>>
    BY <1>7 DEF NlReturn, Done
  <2> QED BY <2>1 DEF Inv, TypeI
<1>8. ASSUME NEW r0 \in ResC, NEW r1 \in ResC, AaStart(r0, r1) PROVE Inv'
  <2>1. /\ kind = "anderson" /\ pc = "start" /\ res' = <<r0, r1>> /\ n' = 1 /\ x' = 1 /\ early' = (r1 = "zero")
        /\ UNCHANGED <<kind, maxiter>>
    BY <1>8 DEF AaStart
  <2>2. CASE r1 = "zero"
    <3>1. pc' = "done" /\ ret' = 1 /\ warned' = FALSE /\ UNCHANGED <<i, tested, best, converged, raised>>
      BY <1>8, <2>2 DEF AaStart, Done
    <3> QED BY <2>1, <2>2, <3>1 DEF Inv, TypeI, ResC
  <2>3. CASE r1 # "zero"
    <3>1. pc' = "loop" /\ i' = 2 /\ UNCHANGED <<tested, best, converged, warned, raised, ret>>
      BY <1>8, <2>3 DEF AaStart
    <3> QED BY <2>1, <2>3, <3>1 DEF Inv, TypeI, ResC
  <2> QED BY <2>2, <2>3
<1>9. CASE AaExhaust
  BY <1>9 DEF AaExhaust, Inv, TypeI
<1>10. CASE AaReturn
  <2>1. /\ kind = "anderson" /\ pc = "exit" /\ pc' = "done" /\ ret' = x /\ warned' = ~converged
        /\ UNCHANGED <<early, kind, maxiter, i, res, n, x, tested, best, converged, raised>>
    BY <1>10 DEF AaReturn, Done
  <2> QED BY <2>1 DEF Inv, TypeI
<1>11. CASE OptStart
  <2>1. /\ kind = "opt" /\ pc = "start" /\ res' = <<"below">> /\ pc' = "loop"
        /\ UNCHANGED <<early, kind, maxiter, i, n, x, tested, best, converged, warned, raised, ret>>
    BY <1>11 DEF OptStart
  <2> QED BY <2>1 DEF Inv, TypeI, ResC
<1>12. CASE OptExhaust
  BY <1>12 DEF OptExhaust, Inv, TypeI
<1>13. CASE OptReturn
  <2>1. /\ kind = "opt" /\ pc = "exit" /\ pc' = "done"
        /\ ((converged \/ maxiter = 0) => ret' = x /\ warned' = FALSE)
        /\ (~(converged \/ maxiter = 0) => ret' = best /\ warned' = TRUE)
        /\ UNCHANGED <<early, kind, maxiter, i, res, n, x, tested, best, converged, raised>>
    BY <1>13 DEF OptReturn, Done
  <2> QED BY <2>1 DEF Inv, TypeI
<1>14. ASSUME NEW s \in BOOLEAN, NEW im \in BOOLEAN, NEW r \in {"below", "above"}, OptIter(s, r, im) PROVE Inv'
  <2>1. /\ kind = "opt" /\ pc = "loop" /\ i < maxiter /\ tested' = n /\ n' = n + 1 /\ res' = Append(res, r) /\ x' = n + 1 /\ i' = i + 1
        /\ best' = (IF n > 0 /\ im THEN n ELSE best) /\ ((n > 0 /\ im) => res[n + 1] = "below")
        /\ UNCHANGED <<early, kind, maxiter, warned, raised, ret>>
    BY <1>14 DEF OptIter, Res
  <2>2. Len(res) = n + 1 /\ ~early /\ ~converged /\ ~warned /\ best <= n /\ res[best + 1] = "below"
    BY <2>1 DEF Inv
  <2>3. /\ res' \in Seq(ResC) /\ Len(res') = n + 2 /\ \A q \in 1..(n + 1) : res'[q] = res[q]
    BY <2>1, <2>2, AppendRes DEF Inv, TypeI, ResC
  <2>4. best' \in Nat /\ best' <= n + 1 /\ res'[best' + 1] = "below"
    BY <2>1, <2>2, <2>3 DEF Inv, TypeI
  <2>5. (converged' = TRUE /\ pc' = "exit") \/ UNCHANGED <<converged, pc>>
    BY <1>14 DEF OptIter
  <2> QED BY <2>1, <2>2, <2>3, <2>4, <2>5 DEF Inv, TypeI
<1> QED BY <1>0, <1>1, <1>2, <1>3, <1>4, <1>5, <1>6, <1>7, <1>8, <1>9, <1>10, <1>11, <1>12, <1>13, <1>14 DEF Next

THEOREM Safety == Spec => [](SilentMeetsTol /\ SilentReturnsTested /\ NoRaiseAtRoot /\ OptFallbackNoWorse /\ WarnedIffNotConverged)
<1>1. Inv => SilentMeetsTol
  BY DEF Inv, TypeI, SilentMeetsTol, Silent, Finished, Res
<1>2. Inv => SilentReturnsTested
  BY DEF Inv, TypeI, SilentReturnsTested, Silent, Finished
<1>3. Inv => NoRaiseAtRoot /\ WarnedIffNotConverged
  BY DEF Inv, TypeI, NoRaiseAtRoot, WarnedIffNotConverged, Finished
<1>4. Inv => OptFallbackNoWorse
  BY DEF Inv, TypeI, OptFallbackNoWorse, Finished, Res
<1> QED BY InitInv, NextInv, <1>1, <1>2, <1>3, <1>4, PTL DEF Spec
=============================================================================
