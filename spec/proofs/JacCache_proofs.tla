--------------------------- MODULE JacCache_proofs ---------------------------
(* Unbounded safety of the Jacobian operator's cache: for every nesting depth and number of products. *)
EXTENDS JacCache, TLAPS
ASSUME Intended == KeyHasObj = TRUE /\ KeyHasY = TRUE
ASSUME ConstOK == MaxDepth \in Nat /\ MaxProducts \in Nat /\ 0 \in Ids

Inv == /\ cur \in Pt /\ frames \in Seq(Pt)
       /\ last \in [p : Products \cup {"none"}, at : Pt, reeval : BOOLEAN]
       /\ (frames = << >> => cur = Orig)
       /\ (frames # << >> => frames[1] = Orig)
       /\ AtCurrent /\ ReevalIffChanged

LEMMA KeyInj == \A p \in Pt : (Key(p) = Key(Orig)) <=> (p = Orig)
  BY Intended DEF Key, Orig, Pt

LEMMA InitInv == Init => Inv
  BY ConstOK DEF Init, Inv, Orig, Pt, AtCurrent, ReevalIffChanged, Products

LEMMA NextInv == Inv /\ [Next]_vars => Inv'
<1> SUFFICES ASSUME Inv, [Next]_vars PROVE Inv'
  OBVIOUS
<1>0. CASE UNCHANGED vars
  BY <1>0 DEF Inv, vars, AtCurrent, ReevalIffChanged
<1>1. ASSUME NEW q \in Pt, Substitute(q) PROVE Inv'
  <2>1. frames' = Append(frames, cur) /\ cur' = q /\ last'.p = "none" /\ last' \in [p : Products \cup {"none"}, at : Pt, reeval : BOOLEAN]
    BY <1>1 DEF Substitute, Inv
  <2>2. frames' \in Seq(Pt) /\ frames' # << >> /\ frames'[1] = Orig
    <3>1. frames \in Seq(Pt) /\ cur \in Pt /\ Len(frames) \in Nat
      BY DEF Inv
    <3>2. frames' \in Seq(Pt) /\ Len(frames') = Len(frames) + 1
      BY <2>1, <3>1
    <3>3. frames' # << >>
      BY <3>1, <3>2
    <3>4. CASE frames = << >>
      BY <2>1, <3>2, <3>3, <3>4 DEF Inv
    <3>5. CASE frames # << >>
      <4>1. Len(frames) >= 1
        BY <3>1, <3>5
      <4>2. frames'[1] = frames[1]
        BY <2>1, <3>1, <4>1
      <4> QED BY <4>2, <3>2, <3>3, <3>5 DEF Inv
    <3> QED BY <3>2, <3>3, <3>4, <3>5
  <2> QED BY <2>1, <2>2 DEF Inv, AtCurrent, ReevalIffChanged
<1>2. CASE Restore
  <2>1. /\ frames # << >> /\ cur' = frames[Len(frames)] /\ frames' = SubSeq(frames, 1, Len(frames) - 1) /\ last'.p = "none"
        /\ last' \in [p : Products \cup {"none"}, at : Pt, reeval : BOOLEAN]
    BY <1>2 DEF Restore, Inv
  <2>2. Len(frames) \in Nat /\ Len(frames) >= 1 /\ cur' \in Pt /\ frames' \in Seq(Pt) /\ Len(frames') = Len(frames) - 1
    <3>1. frames \in Seq(Pt) /\ Len(frames) \in Nat
      BY DEF Inv
    <3>2. Len(frames) >= 1
      BY <2>1, <3>1
    <3>3. frames[Len(frames)] \in Pt
      BY <3>1, <3>2
    <3>4. SubSeq(frames, 1, Len(frames) - 1) \in Seq(Pt) /\ Len(SubSeq(frames, 1, Len(frames) - 1)) = Len(frames) - 1
      BY <3>1, <3>2
    <3> QED BY <2>1, <3>1, <3>2, <3>3, <3>4
  <2>3. CASE Len(frames) = 1
    BY <2>1, <2>2, <2>3 DEF Inv, AtCurrent, ReevalIffChanged
  <2>4. CASE Len(frames) > 1
    <3>1. frames' # << >> /\ frames'[1] = frames[1]
      BY <2>1, <2>2, <2>4
    <3> QED BY <2>1, <2>2, <2>4, <3>1 DEF Inv, AtCurrent, ReevalIffChanged
  <2> QED BY <2>2, <2>3, <2>4
<1>3. ASSUME NEW p \in Products, Product(p) PROVE Inv'
  <2>1. /\ UNCHANGED <<cur, frames>>
        /\ last' = [p |-> p, at |-> IF Key(cur) = Key(Orig) THEN Orig ELSE cur, reeval |-> ~(Key(cur) = Key(Orig))]
    BY <1>3 DEF Product
  <2>2. (Key(cur) = Key(Orig)) <=> (cur = Orig)
    BY KeyInj DEF Inv
  <2> QED BY <2>1, <2>2 DEF Inv, AtCurrent, ReevalIffChanged, Products
<1> QED BY <1>0, <1>1, <1>2, <1>3 DEF Next

THEOREM Safety == Spec => [](AtCurrent /\ ReevalIffChanged /\ Unwound)
<1>1. Inv => AtCurrent /\ ReevalIffChanged /\ Unwound
  BY DEF Inv, Unwound
<1> QED BY InitInv, NextInv, <1>1, PTL DEF Spec
=============================================================================
