------------------------- MODULE IvpAdjoint_proofs -------------------------
(* Unbounded safety of the adjoint segment loop: machine-checked with TLAPS for every number of requested times. *)
EXTENDS IvpAdjoint, TLAPS
ASSUME Intended == Reseed = TRUE /\ AddCotangent = TRUE /\ UseBckOptions = TRUE /\ InheritFwd = TRUE
ASSUME ConstNat == MaxNT \in Nat

SegOK(s, i) == /\ s.from = nt - i + 1 /\ s.to = nt - i /\ s.ySrc = "stored" /\ s.opts = "bck"
               /\ s.eff = Effective(fwdO, bckO)
Inv == /\ nt \in Nat /\ nt >= 1 /\ k \in 1..nt /\ tsReq \in BOOLEAN /\ done \in BOOLEAN
       /\ fwdO \in [OptKeys -> {"f", "unset"}] /\ bckO \in [OptKeys -> {"b", "unset"}]
       /\ cot \subseteq Nat /\ \A j \in Nat : j \in cot <=> (k <= j /\ j <= nt)
       /\ ySrc = "stored"
       /\ Len(segs) = nt - k
       /\ \A i \in 1..(nt - k) : SegOK(segs[i], i)
       /\ gradTs \subseteq Nat
       /\ \A j \in Nat : j \in gradTs <=> (tsReq /\ j <= nt /\ (IF done THEN 1 <= j ELSE k + 1 <= j))
       /\ (done => k = 1)

LEMMA InitInv == Init => Inv
<1> SUFFICES ASSUME Init PROVE Inv
  OBVIOUS
<1>1. nt \in Nat /\ nt >= 1 /\ k = nt /\ cot = {nt} /\ gradTs = {} /\ segs = << >> /\ done = FALSE /\ ySrc = "stored" /\ tsReq \in BOOLEAN
  BY ConstNat DEF Init
<1>2. fwdO \in [OptKeys -> {"f", "unset"}] /\ bckO \in [OptKeys -> {"b", "unset"}]
  BY DEF Init
<1>3. Len(segs) = nt - k /\ \A i \in 1..(nt - k) : SegOK(segs[i], i)
  BY <1>1
<1> QED BY <1>1, <1>2, <1>3 DEF Inv

LEMMA NextInv == Inv /\ [Next]_vars => Inv'
<1> SUFFICES ASSUME Inv, [Next]_vars PROVE Inv'
  OBVIOUS
<1>1. CASE UNCHANGED vars
  BY <1>1 DEF Inv, vars, SegOK, Effective
<1>2. CASE Segment
  <2>1. /\ k >= 2 /\ ~done /\ k' = k - 1 /\ cot' = cot \cup {k - 1} /\ ySrc' = "stored"
        /\ UNCHANGED <<fwdO, bckO, nt, tsReq, done>>
        /\ gradTs' = (IF tsReq THEN gradTs \cup {k} ELSE gradTs)
    BY <1>2, Intended DEF Segment
  <2>2. segs' = Append(segs, [from |-> k, to |-> k - 1, opts |-> "bck", ySrc |-> ySrc, eff |-> Effective(fwdO, bckO)])
    BY <1>2, Intended DEF Segment
  <2>3. Len(segs') = nt - k + 1
    BY <2>2 DEF Inv
  <2>4. \A i \in 1..(nt - k + 1) : SegOK(segs[i], i)'
    <3> SUFFICES ASSUME NEW i \in 1..(nt - k + 1) PROVE SegOK(segs[i], i)'
      OBVIOUS
    <3>1. CASE i <= nt - k
      BY <3>1, <2>1, <2>2 DEF Inv, SegOK, Effective
    <3>2. CASE i = nt - k + 1
      BY <3>2, <2>1, <2>2 DEF Inv, SegOK, Effective
    <3> QED BY <3>1, <3>2 DEF Inv
  <2> QED BY <2>1, <2>3, <2>4 DEF Inv
<1>3. CASE Finish
  <2>1. /\ k = 1 /\ ~done /\ done' = TRUE /\ gradTs' = (IF tsReq THEN gradTs \cup {1} ELSE gradTs)
        /\ UNCHANGED <<fwdO, bckO, nt, tsReq, k, ySrc, cot, segs>>
    BY <1>3 DEF Finish
  <2> QED BY <2>1 DEF Inv, SegOK, Effective
<1> QED BY <1>1, <1>2, <1>3 DEF Next

THEOREM Safety == Spec => [](AllCotangents /\ SegmentsNewestFirst /\ OneSegmentPerInterval /\ AlwaysReseeded
                             /\ BackwardOptions /\ OptionInheritance /\ TimeGradients)
<1>1. Inv => AllCotangents /\ SegmentsNewestFirst /\ OneSegmentPerInterval /\ AlwaysReseeded /\ BackwardOptions /\ TimeGradients
  <2> SUFFICES ASSUME Inv PROVE AllCotangents /\ SegmentsNewestFirst /\ OneSegmentPerInterval /\ AlwaysReseeded /\ BackwardOptions /\ TimeGradients
    OBVIOUS
  <2>1. AllCotangents
    <3>1. done => \A j \in Nat : j \in cot <=> j \in 1..nt
      BY DEF Inv
    <3>2. done => cot = 1..nt
      BY <3>1 DEF Inv
    <3> QED BY <3>2 DEF AllCotangents
  <2>2. SegmentsNewestFirst /\ AlwaysReseeded /\ BackwardOptions
    BY DEF Inv, SegOK, SegmentsNewestFirst, AlwaysReseeded, BackwardOptions
  <2>3. OneSegmentPerInterval
    BY DEF Inv, OneSegmentPerInterval
  <2>4. TimeGradients
    <3>1. (done /\ tsReq) => \A j \in Nat : j \in gradTs <=> j \in 1..nt
      BY DEF Inv
    <3>2. (done /\ tsReq) => gradTs = 1..nt
      BY <3>1 DEF Inv
    <3>3. (done /\ ~tsReq) => \A j \in Nat : j \notin gradTs
      BY DEF Inv
    <3>4. (done /\ ~tsReq) => gradTs = {}
      BY <3>3 DEF Inv
    <3> QED BY <3>2, <3>4 DEF TimeGradients, Inv
  <2> QED BY <2>1, <2>2, <2>3, <2>4
<1>2. Inv => OptionInheritance
  BY Intended DEF Inv, SegOK, OptionInheritance, Effective, OptKeys
<1> QED BY InitInv, NextInv, <1>1, <1>2, PTL DEF Spec
=============================================================================
