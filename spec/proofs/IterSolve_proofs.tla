-------------------------- MODULE IterSolve_proofs --------------------------
(* Unbounded safety of the solve pipeline: for every iteration budget. *)
EXTENDS IterSolve, TLAPS
ASSUME Intended == ReturnPassed = TRUE /\ WarnIffNot = TRUE /\ \A m \in Methods : Unswap[m] = TRUE
ASSUME ConstNat == MaxIter \in Nat

Inv == /\ method \in Methods /\ k \in Nat /\ k <= MaxIter /\ best \in Nat /\ ret \in Nat
       /\ hit \in Seq(BOOLEAN) /\ Len(hit) = k
       /\ pc \in {"start", "loop", "finish", "done"} /\ converged \in BOOLEAN /\ warned \in BOOLEAN /\ zeroB \in BOOLEAN
       /\ (pc \in {"start", "loop"} => ~converged /\ ~warned)
       /\ (pc \in {"loop", "finish"} => method \in Iterative /\ ~zeroB /\ ~warned)
       /\ (converged /\ pc = "finish" => k > 0 /\ hit[k])
       /\ (pc = "done" => retLayout = "plain" /\ (warned <=> ~converged))
       /\ ((pc = "done" /\ method \in Iterative /\ ~zeroB /\ converged) => ret > 0 /\ ret <= k /\ hit[ret])

LEMMA InitInv == Init => Inv
  BY ConstNat DEF Init, Inv

LEMMA NextInv == Inv /\ [Next]_vars => Inv'
<1> SUFFICES ASSUME Inv, [Next]_vars PROVE Inv'
  OBVIOUS
<1> USE Intended
<1>0. CASE UNCHANGED vars
  BY <1>0 DEF Inv, vars
<1>1. CASE Direct
  <2>1. /\ pc = "start" /\ (method \notin Iterative \/ zeroB) /\ pc' = "done" /\ retLayout' = "plain" /\ ret' = 0
        /\ warned' \in BOOLEAN /\ converged' = ~warned'
        /\ UNCHANGED <<method, hasE, zeroB, layout, k, hit, best>>
    BY <1>1 DEF Direct
  <2> QED BY <2>1 DEF Inv
<1>2. CASE Setup
  BY <1>2 DEF Setup, Inv
<1>3. ASSUME NEW h \in BOOLEAN, NEW im \in BOOLEAN, Iter(h, im) PROVE Inv'
  <2>1. /\ pc = "loop" /\ k < MaxIter /\ k' = k + 1 /\ hit' = Append(hit, h) /\ best' \in {k + 1, best}
        /\ UNCHANGED <<method, hasE, zeroB, layout, warned, ret, retLayout>>
    BY <1>3 DEF Iter
  <2>2. hit' \in Seq(BOOLEAN) /\ Len(hit') = k + 1 /\ hit'[k + 1] = h
    BY <2>1 DEF Inv
  <2>3. CASE h
    <3>1. converged' = TRUE /\ pc' = "finish"
      BY <1>3, <2>3 DEF Iter
    <3> QED BY <2>1, <2>2, <2>3, <3>1, ConstNat DEF Inv
  <2>4. CASE ~h
    <3>1. UNCHANGED <<converged, pc>>
      BY <1>3, <2>4 DEF Iter
    <3> QED BY <2>1, <2>2, <2>4, <3>1, ConstNat DEF Inv
  <2> QED BY <2>3, <2>4
<1>4. CASE Exhaust
  BY <1>4 DEF Exhaust, Inv
<1>5. CASE Finish
  <2>1. /\ pc = "finish" /\ pc' = "done" /\ ret' = (IF converged THEN k ELSE best) /\ warned' = ~converged
        /\ retLayout' = "plain"
        /\ UNCHANGED <<method, hasE, zeroB, layout, k, hit, best, converged>>
    BY <1>5 DEF Finish, Inv
  <2> QED BY <2>1 DEF Inv
<1> QED BY <1>0, <1>1, <1>2, <1>3, <1>4, <1>5 DEF Next

THEOREM Safety == Spec => [](RetPlain /\ WarnedIffNotConverged /\ SilentPassed /\ Bounded)
<1>1. Inv => RetPlain /\ WarnedIffNotConverged /\ SilentPassed /\ Bounded
  BY DEF Inv, RetPlain, WarnedIffNotConverged, SilentPassed, Bounded, Done
<1> QED BY InitInv, NextInv, <1>1, PTL DEF Spec
=============================================================================
