------------------------- MODULE AdaptiveRK_proofs -------------------------
(* Unbounded safety of the step controller: machine-checked with TLAPS for every NTimes and MaxTries. *)
EXTENDS AdaptiveRK, TLAPS
ASSUME Intended == LandExactly = TRUE /\ NoGrowAfterReject = TRUE /\ HoldOnLanding = TRUE
ASSUME ConstNat == NTimes \in Nat /\ MaxTries \in Nat

Inv == /\ pos = "before"
       /\ tgt \in Nat /\ tgt >= 2
       /\ recorded \in Seq(Nat)
       /\ Len(recorded) = tgt - 1
       /\ \A i \in 1..Len(recorded) : recorded[i] = i
       /\ (~last.accept => last.grow = "down")

LEMMA InitInv == Init => Inv
  BY DEF Init, Inv

LEMMA NextInv == Inv /\ [Next]_vars => Inv'
<1> SUFFICES ASSUME Inv, [Next]_vars PROVE Inv'
  OBVIOUS
<1>1. CASE UNCHANGED vars
  BY <1>1 DEF Inv, vars
<1>2. ASSUME NEW a \in BOOLEAN, NEW o \in BOOLEAN, NEW g \in {"up", "same", "down"}, Try(a, o, g)
      PROVE Inv'
  <2>1. CASE a /\ o
    <3>1. recorded' = Append(recorded, tgt) /\ tgt' = tgt + 1 /\ pos' = "before"
      BY <1>2, <2>1, Intended DEF Try
    <3>2. last' = [accept |-> a, over |-> o, grow |-> g, landed |-> TRUE]
      BY <1>2, <2>1 DEF Try
    <3> QED BY <3>1, <3>2, <2>1 DEF Inv
  <2>2. CASE ~(a /\ o)
    <3>1. UNCHANGED <<pos, recorded, tgt>>
      BY <1>2, <2>2 DEF Try
    <3>2. last' = [accept |-> a, over |-> o, grow |-> g, landed |-> FALSE]
      BY <1>2, <2>2 DEF Try
    <3>3. ~a => g = "down"
      BY <1>2 DEF Try
    <3> QED BY <3>1, <3>2, <3>3 DEF Inv
  <2> QED BY <2>1, <2>2
<1> QED BY <1>1, <1>2 DEF Next

THEOREM Safety == Spec => [](NeverPast /\ InOrder /\ RejectShrinks)
<1>1. Inv => NeverPast /\ InOrder /\ RejectShrinks
  BY DEF Inv, NeverPast, InOrder, RejectShrinks
<1> QED BY InitInv, NextInv, <1>1, PTL DEF Spec
=============================================================================
