----------------------------- MODULE NestedViews -----------------------------
(***************************************************************************)
(* Several PureFunction views of ONE object, created at arbitrary moments  *)
(* - also while a substitution through another view is active, which is    *)
(* what happens when a functional is called inside the function of another *)
(* functional on the same object (quad over a method that calls rootfinder *)
(* on a sibling method).  A view remembers what it believes the object     *)
(* holds; set_objparams pushes the old content on the view's restore stack *)
(* and restore_objparams puts it back.                                     *)
(*                                                                         *)
(* Deviation switch RefreshAtSet (TRUE = intended, the behaviour after the *)
(* repair): the old content pushed by a set is what the object holds at    *)
(* that moment.  FALSE = it is what the view saw last (at its creation or  *)
(* its own last set): a view created inside another view's substitution    *)
(* then re-installs the substituted tensors long after that block ended.   *)
(*                                                                         *)
(* (Aliasing inside one view, the unique maps, nn.Module registration      *)
(* order, the Jacobian operator's list and exceptions are ParamSubst.tla's *)
(* business; here every slot holds a distinct tensor id.)                  *)
(***************************************************************************)
EXTENDS Naturals, Sequences, FiniteSets, TLC
CONSTANTS Views, Slots0, Cands, MaxDepth, RefreshAtSet
VARIABLES slots, belief, stack, frames
vars == <<slots, belief, stack, frames>>
Live == DOMAIN belief
Empty == [x \in {} |-> 0]
Init == slots = Slots0 /\ belief = Empty /\ stack = Empty /\ frames = <<>>
NewView(v) == /\ v \notin Live /\ belief' = [x \in Live \cup {v} |-> IF x = v THEN slots ELSE belief[x]]
              /\ stack' = [x \in Live \cup {v} |-> IF x = v THEN <<>> ELSE stack[x]]
              /\ UNCHANGED <<slots, frames>>
EnterUse(v, P) ==
   /\ v \in Live /\ Len(frames) < MaxDepth
   /\ LET cur == IF RefreshAtSet THEN slots ELSE belief[v]
          ident == P = cur IN
      /\ stack' = [stack EXCEPT ![v] = Append(@, [old |-> cur, ident |-> ident])]
      /\ slots' = IF ident THEN slots ELSE P
      /\ belief' = [belief EXCEPT ![v] = IF ident THEN cur ELSE P]
   /\ frames' = Append(frames, v)
Exit ==
   /\ frames # <<>>
   /\ LET v == frames[Len(frames)]  top == stack[v][Len(stack[v])] IN
      /\ stack' = [stack EXCEPT ![v] = SubSeq(@, 1, Len(@) - 1)]
      /\ slots' = IF top.ident THEN slots ELSE top.old
      /\ belief' = [belief EXCEPT ![v] = IF top.ident THEN @ ELSE top.old]
   /\ frames' = SubSeq(frames, 1, Len(frames) - 1)
Next == (\E v \in Views : NewView(v)) \/ (\E v \in Views, P \in Cands : EnterUse(v, P)) \/ Exit
Spec == Init /\ [][Next]_vars
\* no substitution active: the object holds exactly what the caller put there
Quiescent == frames = <<>> => slots = Slots0
\* every open block is restored by exactly one stack entry
LIFO == \A v \in Live : Len(stack[v]) = Cardinality({i \in 1..Len(frames) : frames[i] = v})
=============================================================================
