------------------------------ MODULE QuadCfg ------------------------------
(***************************************************************************)
(* xitorch.integrate.quad as a case table: for every accepted form of the  *)
(* limits and every backward-option setting the specification predicts     *)
(*   - the change of variables (none | tan for an infinite limit),         *)
(*   - how often the integrand is evaluated in the forward pass            *)
(*     (one probe of the output structure at xl + n quadrature nodes),     *)
(*   - how often in the backward pass (one evaluation per limit that       *)
(*     a tensor, + one probe + n_bck nodes of the integral of the          *)
(*     parameter derivative), where n_bck comes from bck_options when      *)
(*     given and from the forward options otherwise,                       *)
(*   - which inputs receive a gradient (None for limits that are python    *)
(*     numbers or tensors not requiring grad - never an error; zero or     *)
(*     None for tensors the integrand does not use).                       *)
(*                                                                         *)
(* Deviation switches (TRUE = intended):                                   *)
(*   BckForwarded   backward options reach the backward quadrature         *)
(*   KindRemembered the backward pass remembers which limits were tensors  *)
(*   AllowUnused    unused tensor parameters are tolerated                 *)
(***************************************************************************)
EXTENDS Naturals, Sequences, TLC
CONSTANTS NFwd, NBck, NDefault, BckForwarded, KindRemembered, AllowUnused
LimKinds == {"number", "tensor", "tensor_grad"}
VARIABLES xlKind, xuKind, xlInf, xuInf, nGiven, bckGiven, hasUnused, pred
vars == <<xlKind, xuKind, xlInf, xuInf, nGiven, bckGiven, hasUnused, pred>>
Nf == IF nGiven THEN NFwd ELSE NDefault
NbIntended == IF bckGiven THEN NBck ELSE Nf
Nb == IF BckForwarded THEN NbIntended ELSE NDefault
Predict ==
   LET gl == xlKind = "tensor_grad"  gu == xuKind = "tensor_grad"
       raises == (~KindRemembered /\ (xlKind = "number" \/ xuKind = "number")) \/ (~AllowUnused /\ hasUnused)
   IN [transform |-> IF xlInf \/ xuInf THEN "tan" ELSE "none",
       fwdEvals |-> 1 + Nf,
       bwdOk |-> ~raises,
       bwdEvals |-> (IF xlKind # "number" THEN 1 ELSE 0) + (IF xuKind # "number" THEN 1 ELSE 0) + 1 + Nb,
       gradXl |-> gl, gradXu |-> gu,
       gradUnused |-> "zero_or_none"]
Init == /\ xlKind \in LimKinds /\ xuKind \in LimKinds /\ xlInf \in BOOLEAN /\ xuInf \in BOOLEAN
        /\ nGiven \in BOOLEAN /\ bckGiven \in BOOLEAN /\ hasUnused \in BOOLEAN
        /\ pred = Predict
Next == UNCHANGED vars
Spec == Init /\ [][Next]_vars
\* differentiation works for every accepted form of the limits and with unused tensors
NeverRaises == pred.bwdOk
\* the backward quadrature uses the backward options when given, else the forward ones
BackwardRule == pred.bwdEvals = (IF xlKind # "number" THEN 1 ELSE 0) + (IF xuKind # "number" THEN 1 ELSE 0) + 1 + NbIntended
LimitsGetGradIffRequired == pred.gradXl = (xlKind = "tensor_grad") /\ pred.gradXu = (xuKind = "tensor_grad")
=============================================================================
