------------------------------ MODULE QuadCfg ------------------------------
(***************************************************************************)
(* xitorch.integrate.quad as a case table: for every accepted form of the  *)
(* limits and every backward-option setting the specification predicts     *)
(*   - the change of variables (none | tan for an infinite limit),         *)
(*   - how often the integrand is evaluated in the forward pass            *)
(*     (one probe of the output structure at xl + n quadrature nodes),     *)
(*   - how often in the backward pass (one evaluation per limit that       *)
(*     a tensor, + one probe + n_bck nodes of the integral of the          *)
(*     parameter derivative), where n_bck comes from bck_options when      *)
(*     given and from the forward options otherwise,                       *)
(*   - which inputs receive a gradient (None for limits that are python    *)
(*     numbers or tensors not requiring grad - never an error; zero or     *)
(*     None for tensors the integrand does not use).                       *)
(*                                                                         *)
(* A tensor limit may be of lower precision than the integrand            *)
(* ("tensor32_grad": a float32 tensor for a float64 integrand): the rule   *)
(* is built in the integrand's precision all the same.  The integrand's    *)
(* coefficient is passed as a tensor requiring grad, a plain tensor or a   *)
(* python number; when no tensor requiring grad is passed there is no      *)
(* parameter integral in the backward pass, only the limit terms.          *)
(*                                                                         *)
(* Deviation switches (TRUE = intended):                                   *)
(*   BckForwarded   backward options reach the backward quadrature         *)
(*   KindRemembered the backward pass remembers which limits were tensors  *)
(*   AllowUnused    unused tensor parameters are tolerated                 *)
(*   EmptyParamsOk  differentiable limits work without any tensor parameter*)
(*   LimitsConverted tensor limits are converted to the integrand's dtype  *)
(***************************************************************************)
EXTENDS Naturals, Sequences, TLC
CONSTANTS NFwd, NBck, NDefault, BckForwarded, KindRemembered, AllowUnused, EmptyParamsOk, LimitsConverted
LimKinds == {"number", "tensor", "tensor_grad", "tensor32_grad"}
ParamKinds == {"tensor_grad", "tensor", "number"}
IsGrad(k) == k \in {"tensor_grad", "tensor32_grad"}
VARIABLES xlKind, xuKind, xlInf, xuInf, nGiven, bckGiven, hasUnused, aKind, pred
vars == <<xlKind, xuKind, xlInf, xuInf, nGiven, bckGiven, hasUnused, aKind, pred>>
Nf == IF nGiven THEN NFwd ELSE NDefault
NbIntended == IF bckGiven THEN NBck ELSE Nf
Nb == IF BckForwarded THEN NbIntended ELSE NDefault
HasTensorParams == aKind = "tensor_grad" \/ hasUnused      \* only tensors that require grad count as tensor parameters
LimitTerms == (IF xlKind # "number" THEN 1 ELSE 0) + (IF xuKind # "number" THEN 1 ELSE 0)
Predict ==
   LET gl == IsGrad(xlKind)  gu == IsGrad(xuKind)
       raises == \/ (~KindRemembered /\ (xlKind = "number" \/ xuKind = "number")) \/ (~AllowUnused /\ hasUnused)
                 \/ (~EmptyParamsOk /\ ~HasTensorParams /\ (gl \/ gu))
   IN [transform |-> IF xlInf \/ xuInf THEN "tan" ELSE "none",
       fwdEvals |-> 1 + Nf,
       rulePrec |-> IF LimitsConverted \/ "tensor32_grad" \notin {xlKind, xuKind} THEN "integrand" ELSE "limits",
       needsBwd |-> gl \/ gu \/ aKind = "tensor_grad" \/ hasUnused,
       bwdOk |-> ~raises,
       bwdEvals |-> LimitTerms + (IF HasTensorParams THEN 1 + Nb ELSE 0),               \* as implemented: every tensor limit, every tensor parameter
       bwdEvalsMin |-> (IF gl THEN 1 ELSE 0) + (IF gu THEN 1 ELSE 0)                     \* what the gradients asked for cannot do without
                       + (IF aKind = "tensor_grad" \/ hasUnused THEN 1 + Nb ELSE 0),
       gradXl |-> gl, gradXu |-> gu, gradA |-> aKind = "tensor_grad",
       gradUnused |-> "zero_or_none"]
Init == /\ xlKind \in LimKinds /\ xuKind \in LimKinds /\ xlInf \in BOOLEAN /\ xuInf \in BOOLEAN
        /\ nGiven \in BOOLEAN /\ bckGiven \in BOOLEAN /\ hasUnused \in BOOLEAN /\ aKind \in ParamKinds
        /\ pred = Predict
Next == UNCHANGED vars
Spec == Init /\ [][Next]_vars
\* differentiation works for every accepted form of the limits and with unused tensors
NeverRaises == pred.bwdOk
\* the backward quadrature uses the backward options when given, else the forward ones
BackwardRule == pred.bwdEvals = LimitTerms + (IF HasTensorParams THEN 1 + NbIntended ELSE 0)
LimitsGetGradIffRequired == pred.gradXl = IsGrad(xlKind) /\ pred.gradXu = IsGrad(xuKind)
\* the nodes and weights are those of the integrand's precision whatever the precision of the limits
RuleInIntegrandPrecision == pred.rulePrec = "integrand"
=============================================================================
