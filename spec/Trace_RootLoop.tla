--------------------------- MODULE Trace_RootLoop ---------------------------
(* Recorded executions of rootfinder / equilibrium / minimize checked against RootLoop.tla.                 *)
(* Events come from API-boundary observers only: a custom_terminator object (the stop test of the           *)
(* quasi-Newton and Anderson loops: which iterate was tested, its residual and step classes, the verdict),  *)
(* a wrapper around the user's function (the evaluations of gd / adam), the warnings raised, and the        *)
(* returned tensor re-inserted into the user's function by the harness (fields res / fle / near_ref /      *)
(* shape_ok of the ret event).                                                                              *)
EXTENDS RootLoop, TraceLib
VARIABLES tid, l
tvars == <<vars, tid, l>>
ASSUME InitRegs
Ev == Traces[tid].ev
E == Ev[l]
C == Traces[tid].cfg
TInit == /\ tid \in 1..NT /\ l = 1
         /\ kind = C.kind /\ maxiter = C.maxiter
         /\ i = 0 /\ n = 0 /\ x = 0 /\ tested = 0 /\ best = 0
         /\ converged = FALSE /\ warned = FALSE /\ raised = FALSE /\ ret = 0 /\ early = FALSE
         /\ IF C.kind = "opt" THEN pc = "loop" /\ res = <<"below">> ELSE pc = "start" /\ res = <<>>
IsEvent(a) == l <= Len(Ev) /\ E.a = a /\ l' = l + 1 /\ UNCHANGED tid
TStart == /\ IsEvent("init")
          /\ IF kind = "nonlin" THEN NlStart(E.res0) ELSE AaStart(E.res0, E.res1)
\* one stop test: the tested iterate is the newest one; the logged verdict is what the classes imply
TTest == /\ IsEvent("test") /\ E.j = n + 1
         /\ IF kind = "nonlin" THEN NlIter(E.dx, E.res) ELSE AaIter(E.dx, E.res)
         /\ converged' = E.stop
\* one objective evaluation of gd / adam at the newest iterate
TEval == /\ IsEvent("eval") /\ kind = "opt" /\ E.j = n
         /\ Res(n) = (IF E.fle THEN "below" ELSE "above")
         /\ \E s \in BOOLEAN, r \in {"below", "above"} : OptIter(s, r, E.improves)
\* the call returns
Verdicts == /\ E.shape_ok
            /\ ~E.warned => (E.res # "above" /\ E.fle /\ E.near_ref)    \* the property, on the returned tensor itself
TRet == /\ IsEvent("ret")
        /\ IF pc = "done" THEN early /\ UNCHANGED vars                   \* start-up shortcut already returned
           ELSE CASE kind = "nonlin" -> NlFinish [] kind = "anderson" -> AaFinish [] kind = "opt" -> OptFinish
        /\ warned' = E.warned
        /\ (~E.warned \/ kind = "opt") => ret' = E.j                      \* which iterate came back
        /\ Verdicts
TNext == TStart \/ TTest \/ TEval \/ TRet
TSpec == TInit /\ [][TNext]_tvars
Prog == Progress(tid, l)
=============================================================================
