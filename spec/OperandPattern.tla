---------------------------- MODULE OperandPattern ----------------------------
(***************************************************************************)
(* Which operands of solve / symeig receive a gradient.  solve(A, B, E, M) *)
(* takes an operator A (its parameter tensor may or may not require grad), *)
(* a right-hand side B, optionally shifts E and optionally a metric M      *)
(* (ignored when E is absent); symeig(A, M) an operator and optionally a   *)
(* metric.  Operand kinds: "none" (absent), "tg" (tensor requiring grad),  *)
(* "tn" (tensor not requiring grad).  Differentiating never raises         *)
(* whatever the pattern, an operand gets a gradient iff it requires grad   *)
(* and influences the result, and the gradients are those of the dense     *)
(* reference.  Second-order differentiation keeps the same pattern.        *)
(***************************************************************************)
EXTENDS Naturals, TLC
CONSTANTS Fs
Present == {"tg", "tn"}
Optional == {"none", "tg", "tn"}
VARIABLES f, kA, kB, kE, kM, pred
vars == <<f, kA, kB, kE, kM, pred>>
Influences(ff, operand, e, m) ==
   CASE operand = "M" -> IF ff = "solve" THEN e # "none" /\ m # "none" ELSE m # "none"     \* solve ignores M without E
     [] operand = "E" -> e # "none"
     [] OTHER -> TRUE
Grad(ff, operand, k, e, m) == IF k = "tg" /\ Influences(ff, operand, e, m) THEN "nonzero" ELSE "none_or_zero"
Init == /\ f \in Fs /\ kA \in Present /\ kM \in Optional
        /\ IF f = "solve" THEN kB \in Present /\ kE \in Optional ELSE kB = "none" /\ kE = "none"
        /\ pred = [raises |-> FALSE,
                   gA |-> Grad(f, "A", kA, kE, kM), gB |-> Grad(f, "B", kB, kE, kM),
                   gE |-> Grad(f, "E", kE, kE, kM), gM |-> Grad(f, "M", kM, kE, kM)]
Next == UNCHANGED vars
Spec == Init /\ [][Next]_vars
NeverRaises == ~pred.raises
NoGradWithoutRequest == /\ (kA # "tg" => pred.gA = "none_or_zero") /\ (kB # "tg" => pred.gB = "none_or_zero")
                        /\ (kE # "tg" => pred.gE = "none_or_zero") /\ (kM # "tg" => pred.gM = "none_or_zero")
IgnoredMetricGetsNothing == (f = "solve" /\ kE = "none") => pred.gM = "none_or_zero"
=============================================================================
