----------------------------- MODULE BufferReuse -----------------------------
(***************************************************************************)
(* Long-lived objects and caller-owned buffers.                            *)
(* A caller keeps one object alive (an interpolator or a quadrature rule   *)
(* on a fixed grid, a LinearOperator, or just the same argument tensors    *)
(* handed to a functional again and again) and refreshes the CONTENT of    *)
(* its pre-allocated tensors in place between the uses (time stepping, a   *)
(* parameter updated under no_grad).  A tensor's identity says nothing     *)
(* about its content: every use must compute from what the buffers hold    *)
(* at that moment.  Whatever the object remembers between uses must        *)
(* therefore be keyed by content (or not be kept at all).                  *)
(*                                                                         *)
(* State: the content version of each buffer, and what a memo inside the   *)
(* object (if it has one) was computed from.  Deviation switch             *)
(* MemoByContent (TRUE = intended): FALSE keys the memo by the buffer's    *)
(* identity, so a refreshed buffer hits the stale entry.                   *)
(***************************************************************************)
EXTENDS Naturals, Sequences, TLC
CONSTANTS NBuf, MaxLen, MemoByContent
VARIABLES ver,      \* ver[b] : content version of buffer b
          memo,     \* [set, v] : versions the remembered intermediate was computed from (set = FALSE before the first use)
          hist,     \* the actions so far
          last      \* [isuse, used] : the versions the last result was computed from (isuse = FALSE if the last action was not a use)
vars == <<ver, memo, hist, last>>
Zero == [b \in 1..NBuf |-> 0]
Init == /\ ver = Zero /\ memo = [set |-> FALSE, v |-> Zero] /\ hist = <<>> /\ last = [isuse |-> FALSE, used |-> Zero]
Refresh(b) == /\ Len(hist) < MaxLen /\ ver' = [ver EXCEPT ![b] = @ + 1]
              /\ hist' = Append(hist, [a |-> "refresh", b |-> b]) /\ last' = [isuse |-> FALSE, used |-> Zero] /\ UNCHANGED memo
Use == /\ Len(hist) < MaxLen
       /\ LET hit == memo.set /\ (IF MemoByContent THEN memo.v = ver ELSE TRUE)     \* by identity: the same objects always hit
              from == IF hit THEN memo.v ELSE ver IN
          /\ last' = [isuse |-> TRUE, used |-> from] /\ memo' = [set |-> TRUE, v |-> from]
       /\ hist' = Append(hist, [a |-> "use", b |-> 0]) /\ UNCHANGED ver
Next == Use \/ \E b \in 1..NBuf : Refresh(b)
Spec == Init /\ [][Next]_vars
\* every result is computed from the current content of every buffer
ResultFromCurrentContent == last.isuse => last.used = ver
=============================================================================
