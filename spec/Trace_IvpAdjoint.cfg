CONSTANTS
  MaxNT = 0
  Reseed = TRUE
  AddCotangent = TRUE
  UseBckOptions = TRUE
  InheritFwd = TRUE
SPECIFICATION TSpec
CONSTRAINT Prog
POSTCONDITION Post
CHECK_DEADLOCK FALSE
