------------------------------ MODULE McChain ------------------------------
(***************************************************************************)
(* The sampling protocol behind xitorch.integrate.mcquad.                  *)
(* A chain starts at x0 (position 0).  Every proposal / custom step moves  *)
(* the position by one (for "mh" the position counts proposals, whether    *)
(* accepted or not).  A burn-in phase of nburn steps is followed by a      *)
(* collect phase that records exactly nsamples positions; the expectation  *)
(* is the equally weighted mean of f over the recorded positions, and the  *)
(* backward pass evaluates f and log p on exactly these positions.         *)
(*   "mh"        step-then-record (records the state after each proposal)  *)
(*   "mhcustom"  record-then-step (records the state, then steps)          *)
(*   "dummy1d"   no chain: nsamples fixed quadrature nodes                 *)
(*                                                                         *)
(* Deviation switches (intended value first):                              *)
(*   CollectFrom   "burned" | "x0"        where the collect phase starts   *)
(*   CollectCount  "nsamples" | "nburn"   how many positions it records    *)
(*   BurnSteps     "n" | "n-1"            steps taken by the burn-in       *)
(*   BwdOnSamples  TRUE | FALSE           backward re-uses the samples     *)
(***************************************************************************)
EXTENDS Naturals, Sequences, TLC
CONSTANTS Samplers, MaxN, CollectFrom, CollectCount, BurnSteps, BwdOnSamples
VARIABLES sampler, nsamples, nburn, phase, pos, steps, collected, logpEvals, fEvals, bwdPoints
vars == <<sampler, nsamples, nburn, phase, pos, steps, collected, logpEvals, fEvals, bwdPoints>>

Init == /\ sampler \in Samplers /\ nsamples \in 1..MaxN /\ nburn \in 0..MaxN
        /\ phase = "burn" /\ pos = 0 /\ steps = 0 /\ collected = <<>>
        /\ logpEvals = 0 /\ fEvals = <<>> /\ bwdPoints = <<>>
BurnTarget == IF BurnSteps = "n" THEN nburn ELSE IF nburn = 0 THEN 0 ELSE nburn - 1
Target == IF CollectCount = "nsamples" THEN nsamples ELSE nburn

\* one proposal / custom step during burn-in
BurnStep == /\ sampler # "dummy1d" /\ phase = "burn" /\ steps < BurnTarget
            /\ pos' = pos + 1 /\ steps' = steps + 1 /\ logpEvals' = logpEvals + (IF sampler = "mh" THEN 1 ELSE 0)
            /\ UNCHANGED <<sampler, nsamples, nburn, phase, collected, fEvals, bwdPoints>>
\* burn-in over: the collect phase starts (where? - CollectFrom); record-then-step records its start at once
StartCollect ==
   /\ sampler # "dummy1d" /\ phase = "burn" /\ steps = BurnTarget
   /\ LET start == IF CollectFrom = "burned" THEN pos ELSE 0 IN
      /\ pos' = start /\ phase' = "collect" /\ steps' = 0
      /\ collected' = IF sampler = "mhcustom" /\ Target > 0 THEN <<start>> ELSE <<>>
   /\ logpEvals' = logpEvals + 2          \* log p at the start of each phase (dtype probe / initial log p)
   /\ UNCHANGED <<sampler, nsamples, nburn, fEvals, bwdPoints>>
CollectStep ==
   /\ phase = "collect" /\ Len(collected) < Target
   /\ pos' = pos + 1 /\ steps' = steps + 1
   /\ collected' = Append(collected, pos + 1)
   /\ logpEvals' = logpEvals + (IF sampler = "mh" THEN 1 ELSE 0)
   /\ UNCHANGED <<sampler, nsamples, nburn, phase, fEvals, bwdPoints>>
Quadrature == /\ sampler = "dummy1d" /\ phase = "burn"
              /\ collected' = [k \in 1..nsamples |-> k] /\ phase' = "collect" /\ logpEvals' = nsamples
              /\ UNCHANGED <<sampler, nsamples, nburn, pos, steps, fEvals, bwdPoints>>
\* the integrand is evaluated on the recorded positions, in order
Integrate == /\ phase = "collect" /\ Len(collected) >= Target
             /\ fEvals' = collected /\ phase' = "done"
             /\ UNCHANGED <<sampler, nsamples, nburn, pos, steps, collected, logpEvals, bwdPoints>>
\* backward: f and log p evaluated per sample
Backward == /\ phase = "done"
            /\ bwdPoints' = IF BwdOnSamples THEN collected ELSE [k \in 1..Len(collected) |-> pos + k]
            /\ phase' = "bwd"
            /\ UNCHANGED <<sampler, nsamples, nburn, pos, steps, collected, logpEvals, fEvals>>
Next == BurnStep \/ StartCollect \/ CollectStep \/ Quadrature \/ Integrate \/ Backward
Spec == Init /\ [][Next]_vars

Finished == phase \in {"done", "bwd"}
CountOK == Finished => Len(collected) = nsamples /\ fEvals = collected
\* weakest reading of "after nburnout burn-in steps": the first recorded state has seen at least nburn steps
AfterBurnIn == (Finished /\ sampler # "dummy1d") => collected[1] >= nburn
\* the collect phase continues the burned-in chain: consecutive positions
Continuous == (Finished /\ sampler # "dummy1d") => \A k \in 1..(Len(collected) - 1) : collected[k + 1] = collected[k] + 1
BackwardOnSamples == phase = "bwd" => bwdPoints = collected
=============================================================================
