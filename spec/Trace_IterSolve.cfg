CONSTANTS
  Methods = {}
  MaxIter = 1000000
  Unswap <- AllTrue
  ReturnPassed = TRUE
  WarnIffNot = TRUE
SPECIFICATION TSpec
CONSTRAINT Prog
POSTCONDITION Post
CHECK_DEADLOCK FALSE
