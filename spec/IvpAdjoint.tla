----------------------------- MODULE IvpAdjoint -----------------------------
(***************************************************************************)
(* The backward pass of xitorch.integrate.solve_ivp (adjoint method) as a  *)
(* segment loop.  The forward pass stored y at the nt requested times.     *)
(* The backward pass walks through the nt - 1 segments newest first; for   *)
(* segment k (from time index k down to k - 1) it integrates the augmented *)
(* system (y, dL/dy, dL/dt, dL/dparams) backward in time with the BACKWARD *)
(* options, starting from the stored forward value y[k] (re-seeding: the   *)
(* integrated y of the previous segment is discarded) and from the running *)
(* cotangent, to which the incoming cotangent of output k - 1 is added     *)
(* after the segment.  If ts requires grad, dL/dt[k] = <f(t_k, y_k),       *)
(* cotangent_k> is recorded before segment k and subtracted from the       *)
(* running time-gradient, whose final value is dL/dt[1].                   *)
(*                                                                         *)
(* Deviation switches (TRUE = intended):                                   *)
(*   Reseed        y is re-seeded from the stored forward value            *)
(*   AddCotangent  the cotangent of output k-1 is added after segment k    *)
(*   UseBckOptions the segment is integrated with the backward options     *)
(*   InheritFwd    options the caller did not give in bck_options are the  *)
(*                 forward ones (method, rtol, atol, ... key by key)       *)
(***************************************************************************)
EXTENDS Naturals, Sequences, FiniteSets, TLC
CONSTANTS MaxNT, Reseed, AddCotangent, UseBckOptions, InheritFwd
\* effective backward configuration: key-wise override of the forward options by bck_options
OptKeys == {"method", "rtol", "atol"}
Effective(fwd, bck) == [key \in OptKeys |-> IF bck[key] # "unset" THEN bck[key] ELSE IF InheritFwd THEN fwd[key] ELSE "unset"]
VARIABLES fwdO, bckO,         \* forward options and caller's bck_options: key -> "f" / "b" (a value given there) | "unset"
          nt, tsReq, k,        \* k: time index the next segment starts from (nt down to 2); 1 = loop finished
          ySrc,                 \* where the y part of the augmented state came from: "stored" | "integrated"
          cot,                  \* indices of the outputs whose cotangent is contained in the running dL/dy
          gradTs,               \* indices of ts whose gradient has been recorded
          segs,                 \* sequence of [from, to, opts, ySrc] of the segments integrated so far
          done
vars == <<fwdO, bckO, nt, tsReq, k, ySrc, cot, gradTs, segs, done>>
Init == /\ nt \in 1..MaxNT /\ tsReq \in BOOLEAN
        /\ fwdO \in [OptKeys -> {"f", "unset"}] /\ fwdO["method"] = "f"
        /\ bckO \in [OptKeys -> {"b", "unset"}]
        /\ k = nt /\ ySrc = "stored" /\ cot = {nt} /\ gradTs = {} /\ segs = <<>> /\ done = FALSE
Segment ==
   /\ ~done /\ k >= 2
   /\ segs' = Append(segs, [from |-> k, to |-> k - 1, opts |-> IF UseBckOptions THEN "bck" ELSE "fwd", ySrc |-> ySrc,
                             eff |-> IF UseBckOptions THEN Effective(fwdO, bckO) ELSE fwdO])
   /\ gradTs' = IF tsReq THEN gradTs \cup {k} ELSE gradTs
   /\ ySrc' = IF Reseed THEN "stored" ELSE "integrated"
   /\ cot' = IF AddCotangent THEN cot \cup {k - 1} ELSE cot
   /\ k' = k - 1
   /\ UNCHANGED <<fwdO, bckO, nt, tsReq, done>>
Finish ==
   /\ ~done /\ k = 1
   /\ gradTs' = IF tsReq THEN gradTs \cup {1} ELSE gradTs
   /\ done' = TRUE
   /\ UNCHANGED <<fwdO, bckO, nt, tsReq, k, ySrc, cot, segs>>
Next == Segment \/ Finish
Spec == Init /\ [][Next]_vars
\* at the end every output's cotangent has been propagated, newest first, one segment per interval
AllCotangents == done => cot = 1..nt
SegmentsNewestFirst == \A i \in 1..Len(segs) : segs[i].from = nt - i + 1 /\ segs[i].to = nt - i
OneSegmentPerInterval == done => Len(segs) = nt - 1
AlwaysReseeded == \A i \in 1..Len(segs) : segs[i].ySrc = "stored"
BackwardOptions == \A i \in 1..Len(segs) : segs[i].opts = "bck"
\* every option is the caller's backward value if given, else the forward value if given, else the solver default
OptionInheritance == \A i \in 1..Len(segs) : \A key \in OptKeys :
    segs[i].eff[key] = (IF bckO[key] = "b" THEN "b" ELSE IF fwdO[key] = "f" THEN "f" ELSE "unset")
TimeGradients == done => gradTs = (IF tsReq THEN 1..nt ELSE {})
=============================================================================
