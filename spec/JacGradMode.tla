---------------------------- MODULE JacGradMode ----------------------------
(***************************************************************************)
(* Gradient recording and the operators of xitorch.grad.jac / hess.        *)
(* PyTorch's gradient recording is a mode of the calling thread that the   *)
(* caller switches (torch.no_grad(), torch.enable_grad(), the forward of a *)
(* custom autograd function).  An operator lives across such switches: it  *)
(* is built in one mode and its products are taken later, each in the mode *)
(* of its own caller, on the graph cached at construction or - after a     *)
(* temporary substitution of its parameters (JacCache.tla) - on a freshly  *)
(* evaluated one.  A product carries a graph (can be differentiated        *)
(* further) exactly when recording is on at the moment it is TAKEN; the    *)
(* mode at construction and the modes of earlier products have no say.     *)
(*                                                                         *)
(* Deviation switch ModeAtProduct (TRUE = intended): FALSE freezes the     *)
(* mode at construction.                                                   *)
(***************************************************************************)
EXTENDS Naturals, Sequences, TLC
CONSTANTS MaxProducts, ModeAtProduct
Products == {"mv", "rmv", "mm", "rmm", "fm", "Hmv"}
VARIABLES built,     \* recording on when the operator was built
          sub,       \* a substitution of the operator's parameters is open (the function is re-evaluated)
          nProd,
          last       \* [p, rec, graph, sub] : the last product, the mode it was taken in, whether its result carries a graph
vars == <<built, sub, nProd, last>>
None == [p |-> "none", rec |-> FALSE, graph |-> FALSE, sub |-> FALSE]
Init == /\ built \in BOOLEAN /\ sub = FALSE /\ nProd = 0 /\ last = None
Toggle == /\ sub' = ~sub /\ last' = None /\ UNCHANGED <<built, nProd>>
Product(p, rec) ==
   /\ nProd < MaxProducts /\ nProd' = nProd + 1
   /\ last' = [p |-> p, rec |-> rec, graph |-> IF ModeAtProduct THEN rec ELSE (rec /\ built), sub |-> sub]
   /\ UNCHANGED <<built, sub>>
Next == Toggle \/ (\E p \in Products, rec \in BOOLEAN : Product(p, rec))
Spec == Init /\ [][Next]_vars
GraphIffRecording == last.p # "none" => (last.graph <=> last.rec)
=============================================================================
