----------------------------- MODULE SolveShape -----------------------------
(* Output-shape table of solve(A, B, E, M): the batch shape is the broadcast of the batch shapes of A, B and,  *)
(* when shifts are given, E and (when M is given with E) M; M without E is ignored.                            *)
EXTENDS Bcast
VARIABLES e, m, hasE, hasM, sout
svars == <<a, b, out, e, m, hasE, hasM, sout>>
Used == <<a, b>> \o (IF hasE THEN <<e>> ELSE <<>>) \o (IF hasE /\ hasM THEN <<m>> ELSE <<>>)
RECURSIVE CompatAll(_), BcAll(_)
CompatAll(s) == IF Len(s) <= 1 THEN TRUE ELSE Compatible(s[1], BcAll(Tail(s))) /\ CompatAll(Tail(s))
BcAll(s) == IF Len(s) = 1 THEN s[1] ELSE Bc(s[1], BcAll(Tail(s)))
SInit == /\ Init /\ e \in Shapes /\ m \in Shapes /\ hasE \in BOOLEAN /\ hasM \in BOOLEAN
         /\ sout = IF CompatAll(Used) THEN [ok |-> TRUE, shape |-> BcAll(Used)] ELSE [ok |-> FALSE, shape |-> <<>>]
SNext == UNCHANGED svars
SSpec == SInit /\ [][SNext]_svars
Assoc == CompatAll(Used) => BcAll(Used) = BcAll(<<BcAll(Used)>> \o Used)
=============================================================================
