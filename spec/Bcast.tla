------------------------------- MODULE Bcast -------------------------------
(* NumPy/torch broadcasting of batch shapes, written from the rule (right-aligned, equal or 1), not from    *)
(* xitorch/_utils/bcast.py, and the shape table of LinearOperator products: an operator with batch shape A   *)
(* applied to an operand with batch shape B gives batch shape Bcast(A, B) or is rejected.                     *)
EXTENDS Naturals, Sequences, TLC
CONSTANTS Dims, MaxRank
Shapes == UNION {[1..r -> Dims] : r \in 0..MaxRank}
Max(a, b) == IF a > b THEN a ELSE b
Pad(s, n) == [i \in 1..n |-> IF i <= n - Len(s) THEN 1 ELSE s[i - (n - Len(s))]]
Compatible(a, b) == LET n == Max(Len(a), Len(b)) pa == Pad(a, n) pb == Pad(b, n)
                    IN \A i \in 1..n : pa[i] = pb[i] \/ pa[i] = 1 \/ pb[i] = 1
Bc(a, b) == LET n == Max(Len(a), Len(b)) pa == Pad(a, n) pb == Pad(b, n)
            IN [i \in 1..n |-> Max(pa[i], pb[i])]
VARIABLES a, b, out
vars == <<a, b, out>>
Init == /\ a \in Shapes /\ b \in Shapes
        /\ out = IF Compatible(a, b) THEN [ok |-> TRUE, shape |-> Bc(a, b)] ELSE [ok |-> FALSE, shape |-> <<>>]
Next == UNCHANGED vars
Spec == Init /\ [][Next]_vars
\* sanity of the rule itself: commutative, idempotent, neutral element
Laws == /\ Compatible(a, b) = Compatible(b, a)
        /\ Compatible(a, b) => Bc(a, b) = Bc(b, a)
        /\ Bc(a, a) = a /\ Bc(a, <<>>) = a
        /\ out.ok => \A i \in 1..Len(out.shape) : out.shape[i] \in Dims
=============================================================================
