CONSTANTS
  MaxNA = 0
  MaxIter = 100000
  KeepBest = TRUE
SPECIFICATION TSpec
CONSTRAINT Prog
POSTCONDITION Post
CHECK_DEADLOCK FALSE
