----------------------------- MODULE QuadHistory -----------------------------
(***************************************************************************)
(* quad keeps no state between calls: the rule applied by a call is the    *)
(* n-point Gauss-Legendre rule in the precision of THAT call, whatever was *)
(* computed before in the same process.  The model allows the              *)
(* implementation to memoise nodes and weights (a natural optimisation)    *)
(* and states what the memo may be keyed by.                               *)
(*                                                                         *)
(* Deviation switch KeyedByPrecision (TRUE = intended): a memoised rule is *)
(* only reused by calls of the same precision.                             *)
(***************************************************************************)
EXTENDS Naturals, Sequences, TLC
CONSTANTS MaxLen, KeyedByPrecision
Dtypes == {"f32", "f64"}
Ns == {"na", "nb"}
Calls == [dtype : Dtypes, n : Ns]
VARIABLES hist,      \* calls made so far, each with the precision of the rule it was served
          memo       \* n -> precision of the first rule computed for it
vars == <<hist, memo>>
Init == hist = <<>> /\ memo = [k \in Ns |-> "none"]
Served(c) == IF KeyedByPrecision \/ memo[c.n] = "none" THEN c.dtype ELSE memo[c.n]
Call(c) == /\ Len(hist) < MaxLen
           /\ hist' = Append(hist, [call |-> c, rule |-> Served(c)])
           /\ memo' = IF memo[c.n] = "none" THEN [memo EXCEPT ![c.n] = c.dtype] ELSE memo
Next == \E c \in Calls : Call(c)
Spec == Init /\ [][Next]_vars
\* every call is served a rule of its own precision
RuleInCallPrecision == \A i \in 1..Len(hist) : hist[i].rule = hist[i].call.dtype
=============================================================================
