---------------------------- MODULE ResultHistory ----------------------------
(***************************************************************************)
(* Values returned by earlier calls, and the tensors the caller passed in, *)
(* are the caller's: a later call (of the same or another functional)      *)
(* never changes them.  The model carries the one mechanism by which that  *)
(* could happen - a result that is a view of a buffer the library keeps    *)
(* and overwrites (work arrays, cached iterates, step buffers) - behind    *)
(* the deviation switch OwnStorage (TRUE = intended: every result owns its *)
(* storage or shares it only with the caller's inputs).                    *)
(***************************************************************************)
EXTENDS Naturals, Sequences, TLC
CONSTANTS Fs, MaxLen, OwnStorage
VARIABLES hist,     \* sequence of [f, version]: result of call i as the caller sees it now (version = number of the call that last wrote it)
          buffer    \* [Fs -> index of the call whose result lives in the library's buffer, 0 = none]
vars == <<hist, buffer>>
Init == hist = <<>> /\ buffer = [f \in Fs |-> 0]
Call(f) ==
   /\ Len(hist) < MaxLen
   /\ LET k == Len(hist) + 1
          prev == buffer[f]
          \* a result living in the library's buffer is overwritten by the next call of that functional
          h1 == IF ~OwnStorage /\ prev > 0 THEN [hist EXCEPT ![prev].version = k] ELSE hist
      IN /\ hist' = Append(h1, [f |-> f, version |-> k])
         /\ buffer' = IF OwnStorage THEN buffer ELSE [buffer EXCEPT ![f] = k]
Next == \E f \in Fs : Call(f)
Spec == Init /\ [][Next]_vars
EarlierResultsUntouched == \A i \in 1..Len(hist) : hist[i].version = i
=============================================================================
