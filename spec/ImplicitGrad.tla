---------------------------- MODULE ImplicitGrad ----------------------------
(***************************************************************************)
(* Exact instances of the implicit-gradient rules used by xitorch,         *)
(* computed over Q (Rat.tla) in two independent ways that must agree:      *)
(*                                                                         *)
(* kind "solve":  X = K^-1 b with K = A - e*M (2x2 integer A, symmetric    *)
(*   positive definite M, scalar shift e, vector b) and the loss L = g.X.  *)
(*   (1) adjoint rule, as the backward pass of solve computes it:          *)
(*       v = K^-T g ; dL/db = v ; dL/dA = -v X^T ; dL/dM = e v X^T ;       *)
(*       dL/de = v.(M X)                                                   *)
(*   (2) forward sensitivities: dX = K^-1 (db - dA X + de M X + e dM X),   *)
(*       one unit perturbation at a time, dL = g.dX.                       *)
(*                                                                         *)
(* kind "root":   y solves f(y; p, q, r) = p*y^2 + q*y - r = 0 at a chosen *)
(*   integer root y0 (r := p*y0^2 + q*y0).                                 *)
(*   (1) implicit function theorem dy/dtheta = -(df/dy)^-1 df/dtheta and   *)
(*       its total derivative for the second order,                        *)
(*   (2) the explicit root y(r) = (-q + sqrt(q^2 + 4 p r)) / (2p) is not   *)
(*       rational in general, so the cross-check is the differentiated     *)
(*       identity f(y(theta), theta) = 0 to second order.                  *)
(* The same instances are replayed on the real solve / rootfinder /        *)
(* equilibrium / minimize, whose gradients must equal these rationals.     *)
(***************************************************************************)
EXTENDS Rat, Sequences, TLC
CONSTANTS AEntries, MSet, ESet, BSet, GSet, RootP, RootQ, RootY
\* ---- 2x2 rational matrices <<a, b, c, d>> row major, vectors <<x, y>>
Det(m) == RSub(RMul(m[1], m[4]), RMul(m[2], m[3]))
Inv2(m) == LET d == Det(m) IN <<RDiv(m[4], d), RDiv(RNeg(m[2]), d), RDiv(RNeg(m[3]), d), RDiv(m[1], d)>>
Tr2(m) == <<m[1], m[3], m[2], m[4]>>
MV2(m, x) == <<RAdd(RMul(m[1], x[1]), RMul(m[2], x[2])), RAdd(RMul(m[3], x[1]), RMul(m[4], x[2]))>>
Dot2(x, y) == RAdd(RMul(x[1], y[1]), RMul(x[2], y[2]))
MSub(m, n, s) == [i \in 1..4 |-> RSub(m[i], RMul(s, n[i]))]
Outer(x, y) == <<RMul(x[1], y[1]), RMul(x[1], y[2]), RMul(x[2], y[1]), RMul(x[2], y[2])>>
Q4(m) == [i \in 1..4 |-> R(m[i])]
Q2(x) == [i \in 1..2 |-> R(x[i])]
Unit4(k) == [i \in 1..4 |-> IF i = k THEN R(1) ELSE R(0)]
Unit2(k) == [i \in 1..2 |-> IF i = k THEN R(1) ELSE R(0)]
SolveCase(A, M, e, b, g) ==
   LET K == MSub(Q4(A), Q4(M), R(e))
       Ki == Inv2(K)
       X == MV2(Ki, Q2(b))
       v == MV2(Tr2(Ki), Q2(g))
       MX == MV2(Q4(M), X)
       vx == Outer(v, X)
   IN [X |-> X,
       gb |-> v,
       gA |-> [i \in 1..4 |-> RNeg(vx[i])],
       gM |-> [i \in 1..4 |-> RMul(R(e), vx[i])],
       ge |-> Dot2(v, MX),
       \* forward sensitivities, one unit perturbation at a time
       fb |-> [k \in 1..2 |-> Dot2(Q2(g), MV2(Ki, Unit2(k)))],
       fA |-> [k \in 1..4 |-> Dot2(Q2(g), MV2(Ki, [j \in 1..2 |-> RNeg(MV2(Unit4(k), X)[j])]))],
       fM |-> [k \in 1..4 |-> Dot2(Q2(g), MV2(Ki, [j \in 1..2 |-> RMul(R(e), MV2(Unit4(k), X)[j])]))],
       fe |-> Dot2(Q2(g), MV2(Ki, MX))]
RootCase(p, q, y0) ==
   LET fy == R(2 * p * y0 + q)              \* df/dy at the root
       fyy == R(2 * p)
       \* first order: dy/dr = 1/fy ; dy/dp = -y0^2/fy ; dy/dq = -y0/fy
       yr == RDiv(R(1), fy)
       yp == RDiv(R(-(y0 * y0)), fy)
       yq == RDiv(R(-y0), fy)
       \* second order d2y/dr2 from differentiating f(y(r), r) = 0 twice: fyy*yr^2 + fy*yrr = 0
       yrr == RNeg(RDiv(RMul(fyy, RMul(yr, yr)), fy))
       \* d2y/dq dr: d/dq (1/fy) with dfy/dq = 1 + fyy*yq
       yqr == RNeg(RDiv(RAdd(R(1), RMul(fyy, yq)), RMul(fy, fy)))
   IN [r |-> p * y0 * y0 + q * y0, yr |-> yr, yp |-> yp, yq |-> yq, yrr |-> yrr, yqr |-> yqr,
       \* cross-check: total derivative of the identity p*y^2 + q*y - r = 0 in r, p, q and once more in r
       chk1 |-> RSub(RMul(fy, yr), R(1)),
       chk2 |-> RAdd(RMul(fy, yp), R(y0 * y0)),
       chk3 |-> RAdd(RMul(fy, yq), R(y0)),
       chk4 |-> RAdd(RMul(fyy, RMul(yr, yr)), RMul(fy, yrr))]
VARIABLES kind, inst, pred
vars == <<kind, inst, pred>>
SolveInsts == {[A |-> <<a, b, c, d>>, M |-> m, e |-> e, b |-> bb, g |-> gg] : a \in AEntries, b \in AEntries, c \in AEntries, d \in AEntries,
                  m \in MSet, e \in ESet, bb \in BSet, gg \in GSet}
Regular(i) == Det(MSub(Q4(i.A), Q4(i.M), R(i.e)))[1] # 0
RootInsts == {[p |-> p, q |-> q, y0 |-> y] : p \in RootP, q \in RootQ, y \in RootY}
RegularRoot(i) == 2 * i.p * i.y0 + i.q # 0
Init == \/ /\ kind = "solve" /\ inst \in SolveInsts /\ Regular(inst) /\ pred = SolveCase(inst.A, inst.M, inst.e, inst.b, inst.g)
        \/ /\ kind = "root" /\ inst \in RootInsts /\ RegularRoot(inst) /\ pred = RootCase(inst.p, inst.q, inst.y0)
Next == UNCHANGED vars
Spec == Init /\ [][Next]_vars
AdjointEqualsSensitivity == kind = "solve" => /\ pred.gb = pred.fb /\ pred.gA = pred.fA /\ pred.gM = pred.fM /\ pred.ge = pred.fe
IdentityDifferentiated == kind = "root" => /\ pred.chk1 = R(0) /\ pred.chk2 = R(0) /\ pred.chk3 = R(0) /\ pred.chk4 = R(0)
=============================================================================
