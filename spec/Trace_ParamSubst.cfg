CONSTANTS
  NS = 0
  Slots0 = 0
  Kind = "edit"
  ParamIds = {}
  Views = {}
  Cands = {}
  MaxDepth = 200
  MaxLists = 80
  MaxEvals = 0
  PushAlways = TRUE
  UseFinally = TRUE
  DbgFinally = TRUE
  DisFinally = TRUE
  LinFinally = TRUE
  JacOwnList = TRUE
  ExposeAll = TRUE
SPECIFICATION TSpec
CONSTRAINT Prog
POSTCONDITION Post
CHECK_DEADLOCK FALSE
