--------------------------- MODULE Trace_IterSolve ---------------------------
(* Executions of xitorch.linalg.solve recorded through the krylov.* hooks and API-boundary observation       *)
(* (warnings, returned tensor), checked against IterSolve.tla; the ret event carries the numeric verdicts.    *)
EXTENDS IterSolve, TraceLib
VARIABLES tid, l
tvars == <<vars, tid, l>>
ASSUME InitRegs
Ev == Traces[tid].ev
E == Ev[l]
C == Traces[tid].cfg
TInit == /\ tid \in 1..NT /\ l = 1
         /\ method = C.method /\ hasE = C.hasE /\ zeroB = C.zeroB
         /\ pc = "start" /\ layout = "plain" /\ k = 0 /\ hit = <<>> /\ best = 0
         /\ converged = FALSE /\ warned = FALSE /\ ret = 0 /\ retLayout = "none"
IsEvent(a) == l <= Len(Ev) /\ E.a = a /\ l' = l + 1 /\ UNCHANGED tid
\* one Krylov iteration (the first one also performs the set-up)
TIter == /\ IsEvent("iter") /\ E.k = k + 1 /\ E.k <= C.max_niter
         /\ IF pc = "start" THEN method \in Iterative /\ ~zeroB /\ layout' = (IF hasE THEN "swapped" ELSE "plain")
                                 /\ k' = 1 /\ hit' = <<E.hit>> /\ best' = (IF E.improved THEN 1 ELSE 0)
                                 /\ (IF E.hit THEN converged' = TRUE /\ pc' = "finish" ELSE converged' = FALSE /\ pc' = "loop")
                                 /\ UNCHANGED <<method, hasE, zeroB, warned, ret, retLayout>>
            ELSE Iter(E.hit, E.improved)
\* the loop is over: which iterate is handed back, in which layout, with or without a warning
TFinish == /\ IsEvent("kret")
           /\ IF pc = "start" THEN method \in Iterative /\ ~zeroB /\ C.max_niter = 0 ELSE pc \in {"loop", "finish"}
           /\ (pc = "loop" => (k = C.max_niter \/ (method = "gmres" /\ k < C.max_niter)))
           /\ ret' = (IF converged /\ ReturnPassed THEN k ELSE best) /\ ret' = E.ret
           /\ retLayout' = (IF E.col_swapped /\ ~E.unswapped THEN "swapped" ELSE "plain")
           /\ E.col_swapped = hasE
           /\ warned' = ~converged /\ E.converged = converged
           /\ pc' = "done"
           /\ UNCHANGED <<method, hasE, zeroB, layout, k, hit, best, converged>>
Verdicts == \A j \in 1..Len(E.verdicts) : E.verdicts[j][2]
\* the call returns to the user
TRet == /\ IsEvent("ret")
        /\ IF pc = "start" THEN Direct ELSE pc = "done" /\ UNCHANGED vars
        /\ E.warned = warned'
        /\ retLayout' = "plain"
        /\ Verdicts
TNext == TIter \/ TFinish \/ TRet
TSpec == TInit /\ [][TNext]_tvars
Prog == Progress(tid, l)
AllTrue == [m \in {"cg", "bicgstab", "gmres", "exactsolve", "custom_exactsolve", "broyden1"} |-> TRUE]
=============================================================================
