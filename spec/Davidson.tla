------------------------------ MODULE Davidson ------------------------------
(***************************************************************************)
(* DavidsonCore (the subspace loop and its invariants; see there) plus the *)
(* invariant that needs a recursive operator: the operator is applied      *)
(* exactly once to every vector of the search space.  (Kept apart because  *)
(* the proof system does not read RECURSIVE definitions; the unbounded     *)
(* proofs in proofs/Davidson_proofs.tla are about DavidsonCore.)           *)
(***************************************************************************)
EXTENDS DavidsonCore
RECURSIVE SumSeq(_, _)
SumSeq(s, i) == IF i = 0 THEN 0 ELSE s[i] + SumSeq(s, i - 1)
AppliedOncePerVector == SumSeq(applied, Len(applied)) = nguess
=============================================================================
