CONSTANTS
  MaxAlias = 3
  MaxKids = 3
  Depth = 1
  Kinds = {"L", "D", "O"}
  PutOrder = "reversed"
  UseInverse = TRUE
  OwnCache = TRUE
SPECIFICATION Spec
INVARIANT TypeOK
INVARIANT ListingOK
INVARIANT RoundTripOK
INVARIANT ValidAccepted
INVARIANT InvalidRejected
CHECK_DEADLOCK FALSE
