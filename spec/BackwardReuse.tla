---------------------------- MODULE BackwardReuse ----------------------------
(***************************************************************************)
(* One result of a functional, differentiated SEVERAL times by its caller  *)
(* (`retain_graph=True`): with different cotangents (grad_outputs), with   *)
(* and without recording the backward pass for further differentiation,    *)
(* and - for recorded passes - once more through the recorded gradient.    *)
(* This is what a training loop with several loss terms, a Jacobian built  *)
(* row by row, or a Hessian-vector product does.                           *)
(*                                                                         *)
(* The autograd node of a functional keeps state between its backward      *)
(* passes (the context object, saved tensors, operators built from them,   *)
(* option dictionaries).  Every pass must be a function of ITS cotangent   *)
(* and of the forward pass alone:                                          *)
(*   - the gradient of pass i is the vector-Jacobian product with the      *)
(*     cotangent handed to pass i (nothing memoised from an earlier pass), *)
(*   - the cotangent tensors, the inputs and the result belong to the      *)
(*     caller and are bit-wise unchanged afterwards,                       *)
(*   - a pass that was recorded can be differentiated again later, after   *)
(*     other passes ran in between, and yields the second derivative that  *)
(*     belongs to its own cotangent.                                       *)
(*                                                                         *)
(* Deviation switches (intended value first):                              *)
(*   OwnCotangent  TRUE / FALSE : a quantity computed from the cotangent   *)
(*       (the solution of the adjoint system, the pulled-back state) is    *)
(*       kept on the node by the first pass and reused by later ones;      *)
(*   CotangentCopied TRUE / FALSE : the pass scales / accumulates in place *)
(*       on the tensor it was handed;                                      *)
(*   ShortcutByGraph TRUE / FALSE : whether a pass may skip work for a     *)
(*       vanishing cotangent is decided by the cotangent being a constant  *)
(*       (TRUE) or by its VALUE being zero (FALSE).  A cotangent that is   *)
(*       zero in value but a differentiable function of the result - the   *)
(*       residual of a least-squares loss at a perfect fit - still has a   *)
(*       derivative: the second derivative of that loss is the Gauss-      *)
(*       Newton matrix J^T J, not zero.                                    *)
(***************************************************************************)
EXTENDS Naturals, Sequences, FiniteSets, TLC
CONSTANTS NCot,            \* distinct cotangent tensors the caller owns
          MaxPasses,       \* first-order passes through the one result
          OwnCotangent, CotangentCopied, ShortcutByGraph
VARIABLES passes,     \* Seq([cot, rec]) : first-order passes so far (rec = recorded for further differentiation)
          usedCot,    \* usedCot[i] : the cotangent whose vector-Jacobian product pass i delivered
          memo,       \* 0, or the cotangent whose derived quantity sits on the node
          written,    \* cotangent tensors the library wrote to
          second,     \* passes (indices) differentiated once more
          secondOf,   \* secondOf[i] : cotangent the second derivative of pass i was taken for
          gn,         \* "none" / "kept" / "dropped" : the Gauss-Newton term of a recorded pass with a vanishing, result-dependent cotangent
          hist
vars == <<passes, usedCot, memo, written, second, secondOf, gn, hist>>

Init == /\ passes = <<>> /\ usedCot = <<>> /\ memo = 0 /\ written = {} /\ second = {} /\ secondOf = <<>> /\ gn = "none" /\ hist = <<>>

\* a first-order pass with cotangent c, recorded or not
Pass(c, rec) ==
    /\ Len(passes) < MaxPasses
    /\ passes' = Append(passes, [cot |-> c, rec |-> rec])
    /\ LET eff == IF OwnCotangent \/ memo = 0 THEN c ELSE memo
       IN /\ usedCot' = Append(usedCot, eff)
          /\ memo' = IF OwnCotangent THEN 0 ELSE eff
    /\ written' = IF CotangentCopied THEN written ELSE written \cup {c}
    /\ secondOf' = Append(secondOf, 0)
    /\ hist' = Append(hist, [a |-> "pass", c |-> c, rec |-> rec, i |-> 0])
    /\ UNCHANGED <<second, gn>>

\* the recorded gradient of pass i is differentiated (possibly after other passes ran)
Second(i) ==
    /\ i \in 1..Len(passes) /\ passes[i].rec /\ i \notin second
    /\ second' = second \cup {i}
    /\ secondOf' = [secondOf EXCEPT ![i] = usedCot[i]]
    /\ hist' = Append(hist, [a |-> "second", c |-> 0, rec |-> FALSE, i |-> i])
    /\ UNCHANGED <<passes, usedCot, memo, written, gn>>

\* a recorded pass whose cotangent is (result - constant) with the constant equal to the result, differentiated once more: the caller's
\* Hessian of a least-squares loss at a perfect fit (also what torch.autograd.functional.jvp / hvp do)
GaussNewton ==
    /\ gn = "none" /\ Len(hist) < MaxPasses + 2
    /\ gn' = IF ShortcutByGraph THEN "kept" ELSE "dropped"
    /\ hist' = Append(hist, [a |-> "gn", c |-> 0, rec |-> TRUE, i |-> 0])
    /\ UNCHANGED <<passes, usedCot, memo, written, second, secondOf>>

Next == GaussNewton \/ (\E c \in 1..NCot, rec \in BOOLEAN : Pass(c, rec)) \/ (\E i \in 1..MaxPasses : Second(i))
Spec == Init /\ [][Next]_vars

EachPassOwnCotangent == \A i \in 1..Len(passes) : usedCot[i] = passes[i].cot
CotangentsUntouched  == written = {}
SecondBelongsToItsPass == \A i \in second : secondOf[i] = passes[i].cot
GaussNewtonTermKept == gn # "dropped"
=============================================================================
