----------------------------- MODULE IterSolve -----------------------------
(***************************************************************************)
(* xitorch.linalg.solve as a pipeline:                                     *)
(*   choose method -> (direct | zero right-hand side shortcut |            *)
(*                     set-up -> Krylov iterations -> finish) -> return    *)
(* For the iterative methods (cg, bicgstab, gmres) the right-hand side is  *)
(* brought into a column-major layout ("swapped": one leading axis per     *)
(* column) when shifts E are present, the loop keeps the best iterate      *)
(* seen, stops when every column passes its own tolerance, warns otherwise *)
(* and must hand the result back in the caller's layout.                   *)
(*                                                                         *)
(* Iterates are numbered 0 (zero initial guess), 1, 2, ...; per iterate    *)
(* TLC chooses hit[k] (every column below its stopping threshold) and      *)
(* imp[k] (strictly smaller maximal residual norm than all before).        *)
(* With several columns / batch elements the two are independent: an       *)
(* iterate can pass all per-column thresholds without having the smallest  *)
(* maximal norm.                                                           *)
(*                                                                         *)
(* Deviation switches (TRUE = intended):                                   *)
(*   Unswap[m]      method m restores the caller's layout before returning *)
(*   ReturnPassed   on convergence the iterate that passed is returned     *)
(*                  (FALSE: always the iterate with the smallest maximal   *)
(*                  residual norm)                                         *)
(*   WarnIffNot     ConvergenceWarning exactly when no iterate passed      *)
(***************************************************************************)
EXTENDS Naturals, Sequences, TLC
CONSTANTS Methods, MaxIter, Unswap, ReturnPassed, WarnIffNot
Iterative == {"cg", "bicgstab", "gmres"}
VARIABLES method, hasE, zeroB, pc, layout, k, hit, best, converged, warned, ret, retLayout
vars == <<method, hasE, zeroB, pc, layout, k, hit, best, converged, warned, ret, retLayout>>
Init == /\ method \in Methods /\ hasE \in BOOLEAN /\ zeroB \in BOOLEAN
        /\ pc = "start" /\ layout = "plain" /\ k = 0 /\ hit = <<>> /\ best = 0
        /\ converged = FALSE /\ warned = FALSE /\ ret = 0 /\ retLayout = "none"
\* direct methods and the all-zero right-hand side return at once, in the caller's layout
\* (broyden1 runs the quasi-Newton loop of RootLoop.tla and may end with its warning)
Direct == /\ pc = "start" /\ (method \notin Iterative \/ zeroB)
          /\ pc' = "done" /\ retLayout' = "plain" /\ ret' = 0
          /\ \E w \in BOOLEAN : (w => (method = "broyden1" /\ ~zeroB)) /\ warned' = w /\ converged' = ~w
          /\ UNCHANGED <<method, hasE, zeroB, layout, k, hit, best>>
Setup == /\ pc = "start" /\ method \in Iterative /\ ~zeroB
         /\ layout' = IF hasE THEN "swapped" ELSE "plain"
         /\ pc' = "loop"
         /\ UNCHANGED <<method, hasE, zeroB, k, hit, best, converged, warned, ret, retLayout>>
Iter(h, im) ==
   /\ pc = "loop" /\ k < MaxIter
   /\ k' = k + 1 /\ hit' = Append(hit, h)
   /\ best' = IF im THEN k + 1 ELSE best
   /\ IF h THEN converged' = TRUE /\ pc' = "finish" ELSE UNCHANGED <<converged, pc>>
   /\ UNCHANGED <<method, hasE, zeroB, layout, warned, ret, retLayout>>
Exhaust == /\ pc = "loop" /\ k = MaxIter /\ pc' = "finish"
           /\ UNCHANGED <<method, hasE, zeroB, layout, k, hit, best, converged, warned, ret, retLayout>>
Finish == /\ pc = "finish"
          /\ ret' = IF converged /\ ReturnPassed THEN k ELSE best
          /\ warned' = IF WarnIffNot THEN ~converged ELSE FALSE
          /\ retLayout' = IF layout = "swapped" /\ ~Unswap[method] THEN "swapped" ELSE "plain"
          /\ pc' = "done"
          /\ UNCHANGED <<method, hasE, zeroB, layout, k, hit, best, converged>>
Next == Direct \/ Setup \/ (\E h, im \in BOOLEAN : Iter(h, im)) \/ Exhaust \/ Finish
Spec == Init /\ [][Next]_vars
Done == pc = "done"
RetPlain == Done => retLayout = "plain"
WarnedIffNotConverged == Done => (warned <=> ~converged)
SilentPassed == (Done /\ ~warned /\ method \in Iterative /\ ~zeroB) => (ret > 0 /\ hit[ret])
Bounded == k <= MaxIter
=============================================================================
