---------------------------- MODULE Trace_Packer ----------------------------
(* Recorded executions of the real xitorch.Packer checked against Packer.tla. *)
EXTENDS Packer, TraceLib
VARIABLES tid, l
tvars == <<vars, tid, l>>
ASSUME InitRegs
Ev == Traces[tid].ev
E == Ev[l]
TInit == /\ tid \in 1..NT /\ l = 1 /\ Init0(Traces[tid].cfg.tree)
IsEvent(a) == l <= Len(Ev) /\ E.a = a /\ l' = l + 1 /\ UNCHANGED tid
\* every call, whatever its outcome, must leave the original structure and the Packer as they were
Untouched == E.orig_same /\ E.packer_same
TGetList == /\ IsEvent("GetList") /\ GetList(E.u) /\ last'.listed = E.listed /\ Untouched
TGetTensor == /\ IsEvent("GetTensor") /\ GetTensor(E.u) /\ last'.listed = E.listed
              /\ last'.none = E.none /\ Untouched
Outcome == /\ last'.kind = E.kind
           /\ E.kind = "built" => (last'.result = E.result /\ E.copied)
           /\ Untouched
TCList == IsEvent("CList") /\ ConstructList(E.u, E.sk) /\ Outcome
TCTensor == IsEvent("CTensor") /\ ConstructTensor(E.u, E.sk) /\ Outcome
TNext == TGetList \/ TGetTensor \/ TCList \/ TCTensor
TSpec == TInit /\ [][TNext]_tvars
Prog == Progress(tid, l)
=============================================================================
