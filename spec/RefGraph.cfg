SPECIFICATION Spec
CONSTRAINT Record
INVARIANT Monotone
POSTCONDITION Post
CHECK_DEADLOCK FALSE
