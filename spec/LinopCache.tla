----------------------------- MODULE LinopCache -----------------------------
(***************************************************************************)
(* The per-class capability cache of xitorch.LinearOperator.__new__:       *)
(* on the first instantiation of a class the flags "which optional private *)
(* methods does this class define" are computed and stored as class        *)
(* attributes; later instantiations and every product consult them.        *)
(* Class attributes are looked up through the inheritance chain, so WHERE   *)
(* the "already checked" marker is looked up matters.                       *)
(*                                                                         *)
(* Classes form a chain/tree below "Base" (= LinearOperator itself, which   *)
(* cannot be instantiated: its construction raises, but only after having  *)
(* written its own marker).                                                *)
(*                                                                         *)
(* Deviation switch: CacheScope = "own" (intended: a class consults only   *)
(* its own marker) | "inherited" (marker found through the parents).       *)
(***************************************************************************)
EXTENDS Naturals, Sequences, FiniteSets, TLC
CONSTANTS Classes,      \* set of class names (strings), not containing "Base"
          Parent,       \* [Classes -> Classes \cup {"Base"}]
          Defines,      \* [Classes -> SUBSET Methods] methods defined in the class body itself
          CacheScope,   \* "own" | "inherited"
          RaiseEveryTime,  \* TRUE (intended): a class without _mv is rejected at every instantiation; FALSE: only when its flags are computed
          MaxSteps
Methods == {"mv", "mm", "rmv", "rmm", "fm", "gpn"}
All == Classes \cup {"Base"}

VARIABLES own,    \* [All -> [set |-> BOOLEAN, chk |-> BOOLEAN, flags |-> SUBSET Methods]]  attributes stored on the class object itself
          last,   \* outcome of the last instantiation
          steps
vars == <<own, last, steps>>

RECURSIVE Chain(_)
Chain(c) == IF c = "Base" THEN <<"Base">> ELSE <<c>> \o Chain(Parent[c])
\* what the class really provides: methods resolved through the inheritance chain that are not the base's stubs
RECURSIVE TruthFrom(_)
TruthFrom(c) == IF c = "Base" THEN {} ELSE Defines[c] \cup TruthFrom(Parent[c])
Truth(c) == TruthFrom(c)
\* ordinary attribute lookup through the chain
Lookup(c, o) == LET ch == Chain(c) i == CHOOSE i \in 1..Len(ch) : o[ch[i]].set /\ \A j \in 1..(i - 1) : ~o[ch[j]].set IN o[ch[i]]
BaseDefault == [set |-> TRUE, chk |-> FALSE, flags |-> {}]     \* class attributes in the body of LinearOperator
Unset == [set |-> FALSE, chk |-> FALSE, flags |-> {}]

Init == /\ own = [c \in All |-> IF c = "Base" THEN BaseDefault ELSE Unset]
        /\ last = [cls |-> "none", ok |-> TRUE, flags |-> {}]
        /\ steps = 0

Checked(c) == IF CacheScope = "own" THEN own[c].set /\ own[c].chk ELSE Lookup(c, own).chk

Instantiate(c) ==
   /\ steps < MaxSteps /\ steps' = steps + 1
   /\ IF Checked(c)
      THEN /\ UNCHANGED own
           /\ last' = [cls |-> c, ok |-> (~RaiseEveryTime \/ "mv" \in Lookup(c, own).flags), flags |-> Lookup(c, own).flags]
      ELSE /\ own' = [own EXCEPT ![c] = [set |-> TRUE, chk |-> TRUE, flags |-> Truth(c)]]
           /\ last' = [cls |-> c, ok |-> "mv" \in Truth(c), flags |-> Truth(c)]
Next == \E c \in All : Instantiate(c)
Spec == Init /\ [][Next]_vars

\* an instance behaves according to the methods its class defines, whatever was instantiated before
VisibleTruthful == (last.cls # "none" /\ last.ok) => last.flags = Truth(last.cls)
\* instantiation succeeds exactly for classes that provide _mv
Instantiable == last.cls # "none" => (last.ok <=> "mv" \in Truth(last.cls))
=============================================================================
