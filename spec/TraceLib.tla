------------------------------ MODULE TraceLib ------------------------------
(* Batched trace validation: one TLC run (-workers 1) checks every recorded execution in the  *)
(* NDJSON file named by the environment variable TRACE_FILE.  A trace is                      *)
(*   {"tid": n, "cfg": {...}, "ev": [ {"a": "<action>", ...fields...}, ... ]}                  *)
(* The trace specification picks tid in its Init, consumes one event per step, and calls      *)
(* Progress from a CONSTRAINT; registers k (accepted) and NT+k (longest matched prefix) are   *)
(* reported by the POSTCONDITION, one REJECTED line per trace that no behaviour explains.     *)
EXTENDS Naturals, Sequences, TLC, Json, IOUtils
Traces == ndJsonDeserialize(IOEnv.TRACE_FILE)
NT == Len(Traces)
InitRegs == \A k \in 1..NT : TLCSet(k, FALSE) /\ TLCSet(NT + k, 0)
Progress(tid, l) == /\ (l > TLCGet(NT + tid) => TLCSet(NT + tid, l))
                    /\ (l = Len(Traces[tid].ev) + 1 => TLCSet(tid, TRUE))
Post == \A k \in 1..NT :
           TLCGet(k) \/ PrintT(<<"REJECTED", Traces[k].tid, TLCGet(NT + k) - 1, Len(Traces[k].ev)>>)
Has(r, f) == f \in DOMAIN r
=============================================================================
