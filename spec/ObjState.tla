------------------------------ MODULE ObjState ------------------------------
(***************************************************************************)
(* One function object used for several calls of a functional while the    *)
(* caller re-assigns the tensor the object holds between the calls and     *)
(* differentiates the results afterwards (a loop `model.s = s_k;           *)
(* y_k = functional(model.f, ...)` followed by one backward pass).         *)
(*                                                                         *)
(* The forward pass of call i sees the tensor the object holds at that     *)
(* moment.  Its backward pass - which runs later, when the object may hold *)
(* something else - must evaluate EVERY derivative (df/dy as well as       *)
(* df/dtheta) at the tensors of its own forward pass, deliver the gradient *)
(* to exactly that tensor, and leave the object holding what it held when  *)
(* the backward pass started.                                              *)
(*                                                                         *)
(* Deviation switch SavedAtForward (TRUE = intended): FALSE evaluates a    *)
(* part of the backward pass with what the object holds at backward time.  *)
(***************************************************************************)
EXTENDS Naturals, Sequences, TLC
CONSTANTS NTensors, MaxCalls, MaxLen, SavedAtForward
VARIABLES held,     \* index of the tensor the object holds now
          seen,     \* seen[i] : what call i saw in its forward pass
          done,     \* calls already differentiated
          hist, last
vars == <<held, seen, done, hist, last>>
NoBwd == [isbwd |-> FALSE, call |-> 0, at |-> 0, to |-> 0, heldAfter |-> 0, heldBefore |-> 0]
Init == /\ held = 1 /\ seen = <<>> /\ done = {} /\ hist = <<>> /\ last = NoBwd
Assign(k) == /\ Len(hist) < MaxLen /\ k # held /\ held' = k /\ hist' = Append(hist, [a |-> "assign", k |-> k])
             /\ last' = NoBwd /\ UNCHANGED <<seen, done>>
Call == /\ Len(hist) < MaxLen /\ Len(seen) < MaxCalls /\ seen' = Append(seen, held) /\ hist' = Append(hist, [a |-> "call", k |-> 0])
        /\ last' = NoBwd /\ UNCHANGED <<held, done>>
Backward(i) == /\ Len(hist) < MaxLen /\ i \in 1..Len(seen) /\ i \notin done /\ done' = done \cup {i}
               /\ hist' = Append(hist, [a |-> "backward", k |-> i])
               /\ last' = [isbwd |-> TRUE, call |-> i, at |-> IF SavedAtForward THEN seen[i] ELSE held, to |-> seen[i], heldAfter |-> held, heldBefore |-> held]
               /\ UNCHANGED <<held, seen>>
Next == Call \/ (\E k \in 1..NTensors : Assign(k)) \/ (\E i \in 1..MaxCalls : Backward(i))
Spec == Init /\ [][Next]_vars
BackwardAtForwardState == last.isbwd => (last.at = seen[last.call] /\ last.to = seen[last.call])
ObjectKeepsWhatItHeld == last.isbwd => last.heldAfter = last.heldBefore
=============================================================================
