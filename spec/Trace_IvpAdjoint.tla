--------------------------- MODULE Trace_IvpAdjoint ---------------------------
(* Backward passes of solve_ivp observed through a probing callable given as the backward method (it sees the   *)
(* time pair, the augmented state and the options of every segment) checked against IvpAdjoint.tla.             *)
EXTENDS IvpAdjoint, TraceLib
VARIABLES tid, l
tvars == <<vars, tid, l>>
ASSUME InitRegs
Ev == Traces[tid].ev
E == Ev[l]
TInit == /\ tid \in 1..NT /\ l = 1
         /\ fwdO = Traces[tid].cfg.fwd_opts /\ bckO = Traces[tid].cfg.bck_opts
         /\ nt = Traces[tid].cfg.nt /\ tsReq = Traces[tid].cfg.ts_requires_grad
         /\ k = nt /\ ySrc = "stored" /\ cot = {nt} /\ gradTs = {} /\ segs = <<>> /\ done = FALSE
IsEvent(a) == l <= Len(Ev) /\ E.a = a /\ l' = l + 1 /\ UNCHANGED tid
TSeg == /\ IsEvent("seg") /\ Segment
        /\ E.from = k /\ E.to = k - 1                      \* newest first, one interval at a time
        /\ E.y_is_stored                                    \* the y part is the stored forward value at time index k
        /\ E.cotangent_ok                                   \* dL/dy part = incoming cotangents of outputs k..nt propagated so far
        /\ E.opts = "bck"
        /\ \A key \in OptKeys : E.eff[key] = segs'[Len(segs')].eff[key]   \* options seen by the backward integrator, key by key
TRet == /\ IsEvent("ret") /\ Finish
        /\ E.ts_grad_present = tsReq
        /\ "eff" \in DOMAIN E => \A key \in OptKeys : E.eff[key] = Effective(fwdO, bckO)[key]   \* built-in backward: configuration seen at its step attempts
        /\ \A j \in 1..Len(E.verdicts) : E.verdicts[j][2]
TNext == TSeg \/ TRet
TSpec == TInit /\ [][TNext]_tvars
Prog == Progress(tid, l)
=============================================================================
