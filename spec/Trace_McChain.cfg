CONSTANTS
  Samplers = {}
  MaxN = 0
  CollectFrom = "burned"
  CollectCount = "nsamples"
  BurnSteps = "n"
  BwdOnSamples = TRUE
SPECIFICATION TSpec
CONSTRAINT Prog
POSTCONDITION Post
CHECK_DEADLOCK FALSE
