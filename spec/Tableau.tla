------------------------------ MODULE Tableau ------------------------------
(***************************************************************************)
(* Order conditions of an explicit Runge-Kutta tableau (A, b, c), decided  *)
(* exactly.  The coefficients are rationals <<num, den>> extracted from    *)
(* the imported xitorch modules at run time.  For every rooted tree t with *)
(* at most Order vertices the elementary weight Phi(t) must equal          *)
(* 1 / gamma(t).  TLC has 32-bit integers, so the identity                 *)
(*        Phi(t) * gamma(t) = 1                                            *)
(* is evaluated modulo each of a set of primes < 46341 that do not divide  *)
(* any denominator; it holds over Q iff it holds modulo all of them,       *)
(* because their product exceeds the largest possible numerator (bound in  *)
(* DESIGN.md).  Trees are sequences of sub-trees; <<>> is the single       *)
(* vertex.                                                                 *)
(***************************************************************************)
EXTENDS Naturals, Sequences, FiniteSets, TLC
CONSTANTS A, B, C,        \* A: s x s (strictly lower triangular part used), B: s, C: s ; entries <<num, den>> with num possibly negative as <<sign, |num|, den>>
          Order,          \* declared order of (A, B)
          Bhat, OrderHat, \* embedded weights and their order (OrderHat = 0: none)
          Primes
S == Len(B)
\* ---- arithmetic mod p ; entries are <<sgn, num, den>> with sgn in {0, 1} (1 = negative)
RECURSIVE Pow(_, _, _)
Pow(x, e, q) == IF e = 0 THEN 1 ELSE LET h == Pow(x, e \div 2, q) hh == (h * h) % q IN IF e % 2 = 1 THEN (hh * x) % q ELSE hh
Inv(x, q) == Pow(x % q, q - 2, q)
Val(r, q) == LET v == ((r[2] % q) * Inv(r[3], q)) % q IN IF r[1] = 1 THEN (q - v) % q ELSE v
Tau == <<>>
T1 == {Tau}
T2 == {<<Tau>>}
T3 == {<<Tau, Tau>>, <<<<Tau>>>>}
T4 == {<<Tau, Tau, Tau>>, <<Tau, <<Tau>>>>, <<<<Tau, Tau>>>>, <<<<<<Tau>>>>>>}
T5 == {<<Tau, Tau, Tau, Tau>>, <<Tau, Tau, <<Tau>>>>, <<Tau, <<Tau, Tau>>>>, <<Tau, <<<<Tau>>>>>>, <<<<Tau>>, <<Tau>>>>,
       <<<<Tau, Tau, Tau>>>>, <<<<Tau, <<Tau>>>>>>, <<<<<<Tau, Tau>>>>>>, <<<<<<<<Tau>>>>>>>>}
T6sample == {<<Tau, Tau, Tau, Tau, Tau>>, <<<<<<<<<<Tau>>>>>>>>>>}
TreesUpTo(n) == (IF n >= 1 THEN T1 ELSE {}) \cup (IF n >= 2 THEN T2 ELSE {}) \cup (IF n >= 3 THEN T3 ELSE {})
                \cup (IF n >= 4 THEN T4 ELSE {}) \cup (IF n >= 5 THEN T5 ELSE {}) \cup (IF n >= 6 THEN T6sample ELSE {})
RECURSIVE Size(_), SizeSum(_), Gamma(_), GammaProd(_)
SizeSum(s) == IF s = <<>> THEN 0 ELSE Size(Head(s)) + SizeSum(Tail(s))
Size(tr) == 1 + SizeSum(tr)
GammaProd(s) == IF s = <<>> THEN 1 ELSE Gamma(Head(s)) * GammaProd(Tail(s))
Gamma(tr) == Size(tr) * GammaProd(tr)
\* Phi_i(t) mod p : product over the children u of sum_j a_ij Phi_j(u)
RECURSIVE PhiI(_, _, _), SumA(_, _, _, _), ProdCh(_, _, _)
SumA(i, u, q, j) == IF j = 0 THEN 0 ELSE (SumA(i, u, q, j - 1) + Val(A[i][j], q) * PhiI(j, u, q)) % q
ProdCh(i, ch, q) == IF ch = <<>> THEN 1 ELSE (SumA(i, Head(ch), q, i - 1) * ProdCh(i, Tail(ch), q)) % q
PhiI(i, tr, q) == ProdCh(i, tr, q)
RECURSIVE SumB(_, _, _, _)
SumB(w, tr, q, i) == IF i = 0 THEN 0 ELSE (SumB(w, tr, q, i - 1) + Val(w[i], q) * PhiI(i, tr, q)) % q
Holds(w, tr, q) == (SumB(w, tr, q, S) * (Gamma(tr) % q)) % q = 1

VARIABLES t, p
vars == <<t, p>>
Init == t \in TreesUpTo(6) /\ p \in Primes
Next == UNCHANGED vars
Spec == Init /\ [][Next]_vars
RECURSIVE IsPrimeFrom(_, _)
IsPrimeFrom(n, d) == IF d * d > n THEN TRUE ELSE IF n % d = 0 THEN FALSE ELSE IsPrimeFrom(n, d + 1)
PrimesOK == \A q \in Primes : q < 46341 /\ q > 100 /\ IsPrimeFrom(q, 2)
             /\ \A i \in 1..S : Val(B[i], q) = Val(B[i], q)          \* denominators invertible (Inv would be 0 otherwise)
\* the main scheme has the declared order
OrderConditions == Size(t) <= Order => Holds(B, t, p)
\* the embedded weights have their (lower) order
EmbeddedConditions == (OrderHat > 0 /\ Size(t) <= OrderHat) => Holds(Bhat, t, p)
\* c_i = sum_j a_ij
RECURSIVE RowSum(_, _, _)
RowSum(i, q, j) == IF j = 0 THEN 0 ELSE (RowSum(i, q, j - 1) + Val(A[i][j], q)) % q
Consistent == \A i \in 1..S : RowSum(i, p, i - 1) = Val(C[i], p)
=============================================================================
