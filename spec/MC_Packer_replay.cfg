CONSTANTS
  MaxAlias = 2
  MaxKids = 2
  Depth = 1
  Kinds = {"L", "D", "O"}
  PutOrder = "same"
  UseInverse = TRUE
  OwnCache = TRUE
SPECIFICATION Spec
INVARIANT TypeOK
INVARIANT ListingOK
INVARIANT RoundTripOK
INVARIANT ValidAccepted
INVARIANT InvalidRejected
CHECK_DEADLOCK FALSE
