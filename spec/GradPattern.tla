----------------------------- MODULE GradPattern -----------------------------
(***************************************************************************)
(* Which of the extra parameters of a functional receive a gradient.       *)
(* Every functional takes `params`, a sequence whose entries may be        *)
(*   "tg"  a tensor that requires grad and influences the function,        *)
(*   "tu"  a tensor that requires grad but does not influence it,          *)
(*   "tn"  a tensor that does not require grad,                            *)
(*   "num" a python number / other non-tensor.                             *)
(* The implicit backward passes split tensors from non-tensors, clone the  *)
(* differentiable ones and must hand autograd exactly one entry per input: *)
(* differentiating never raises, "tg" entries get the (non-zero) gradient, *)
(* "tu" entries zero or none, everything else none.  The position of the   *)
(* entries must not matter.                                                *)
(* Neither must their shapes: in layout "shapes" the three positions hold  *)
(* tensors of shapes (), (2,) and (1,2), and a functional with two         *)
(* parameter lists (mcquad: fparams for the integrand, pparams for the     *)
(* density) gets as second list separate tensors whose kinds and shapes    *)
(* are the first list's rotated by one position, so that no entry of one   *)
(* list can stand in for the entry of the other at the same index.  Every  *)
(* gradient has the shape of its own parameter.  In layout "scalars" all   *)
(* entries are 0-dimensional and both lists are the same objects.          *)
(***************************************************************************)
EXTENDS Naturals, Sequences, TLC
CONSTANTS Functionals, Len3
Kinds == {"tg", "tu", "tn", "num"}
Layouts == {"scalars", "shapes"}
TwoLists == {"mcquad"}
Rot(s) == [i \in 1..Len3 |-> s[(i % Len3) + 1]]
VARIABLES f, ks, layout, pred
vars == <<f, ks, layout, pred>>
Expect(k) == CASE k = "tg" -> "nonzero" [] k = "tu" -> "zero_or_none" [] OTHER -> "none"
Init == /\ f \in Functionals /\ ks \in [1..Len3 -> Kinds] /\ layout \in Layouts
        /\ pred = [raises |-> FALSE, grads |-> [i \in 1..Len3 |-> Expect(ks[i])],
                   grads2 |-> IF f \in TwoLists /\ layout = "shapes" THEN [i \in 1..Len3 |-> Expect(Rot(ks)[i])] ELSE <<>>]
Next == UNCHANGED vars
Spec == Init /\ [][Next]_vars
NeverRaises == ~pred.raises
OnlyDifferentiableGetGradients == /\ \A i \in 1..Len3 : (pred.grads[i] = "nonzero") <=> (ks[i] = "tg")
                                  /\ \A i \in DOMAIN pred.grads2 : (pred.grads2[i] = "nonzero") <=> (Rot(ks)[i] = "tg")
=============================================================================
