----------------------------- MODULE GradPattern -----------------------------
(***************************************************************************)
(* Which of the extra parameters of a functional receive a gradient.       *)
(* Every functional takes `params`, a sequence whose entries may be        *)
(*   "tg"  a tensor that requires grad and influences the function,        *)
(*   "tu"  a tensor that requires grad but does not influence it,          *)
(*   "tn"  a tensor that does not require grad,                            *)
(*   "num" a python number / other non-tensor.                             *)
(* The implicit backward passes split tensors from non-tensors, clone the  *)
(* differentiable ones and must hand autograd exactly one entry per input: *)
(* differentiating never raises, "tg" entries get the (non-zero) gradient, *)
(* "tu" entries zero or none, everything else none.  The position of the   *)
(* entries must not matter.                                                *)
(***************************************************************************)
EXTENDS Naturals, Sequences, TLC
CONSTANTS Functionals, Len3
Kinds == {"tg", "tu", "tn", "num"}
VARIABLES f, ks, pred
vars == <<f, ks, pred>>
Expect(k) == CASE k = "tg" -> "nonzero" [] k = "tu" -> "zero_or_none" [] OTHER -> "none"
Init == /\ f \in Functionals /\ ks \in [1..Len3 -> Kinds]
        /\ pred = [raises |-> FALSE, grads |-> [i \in 1..Len3 |-> Expect(ks[i])]]
Next == UNCHANGED vars
Spec == Init /\ [][Next]_vars
NeverRaises == ~pred.raises
OnlyDifferentiableGetGradients == \A i \in 1..Len3 : (pred.grads[i] = "nonzero") <=> (ks[i] = "tg")
=============================================================================
