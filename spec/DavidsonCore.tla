---------------------------- MODULE DavidsonCore ----------------------------
(***************************************************************************)
(* The subspace iteration of xitorch's Davidson eigensolver.  The search   *)
(* space starts with nguess orthonormal vectors (option nguess, at least    *)
(* neig and by default neig); every iteration solves    *)
(* the projected problem, keeps the best Ritz pairs seen (smallest         *)
(* residual), stops if the residual is below min_eps or the space has      *)
(* reached the full dimension na (the Ritz pairs are then exact), and      *)
(* otherwise appends the neig residual vectors, truncated so that the      *)
(* space never exceeds na.  The operator is applied only to new vectors.   *)
(*                                                                         *)
(* Deviation switch KeepBest (TRUE intended): the pairs handed back are    *)
(* the best seen, not the last computed.                                   *)
(***************************************************************************)
EXTENDS Naturals, Sequences, TLC
CONSTANTS MaxNA, MaxIter, KeepBest
VARIABLES na, neig, nguess, it, applied,   \* applied: sequence of column counts the operator was applied to
          residOk,   \* residual class of the current Ritz pairs: below min_eps?
          best, cur, \* iteration index of the best / the current Ritz pairs
          pc, ret
vars == <<na, neig, nguess, it, applied, residOk, best, cur, pc, ret>>
Min(a, b) == IF a < b THEN a ELSE b
Init == /\ na \in 1..MaxNA /\ neig \in 1..MaxNA /\ neig <= na
        /\ nguess \in neig..na /\ it = 0 /\ applied = <<nguess>> /\ residOk = FALSE /\ best = 0 /\ cur = 0 /\ pc = "loop" /\ ret = 0
\* one iteration: Ritz step, then stop or expand
Iterate(ok, improved) ==
   /\ pc = "loop" /\ it < MaxIter
   /\ it' = it + 1 /\ cur' = it + 1 /\ residOk' = ok
   /\ (nguess = na => ok)                      \* full space: the Ritz pairs are exact
   /\ best' = IF improved \/ best = 0 THEN it + 1 ELSE best
   /\ IF ok \/ nguess = na
      THEN pc' = "done" /\ UNCHANGED <<nguess, applied>>
      ELSE LET nadd == Min(neig, na - nguess) IN
           /\ nguess' = nguess + nadd /\ applied' = Append(applied, nadd) /\ pc' = "loop"
   /\ UNCHANGED <<na, neig, ret>>
Exhaust == /\ pc = "loop" /\ it = MaxIter /\ pc' = "done"
           /\ UNCHANGED <<na, neig, nguess, it, applied, residOk, best, cur, ret>>
Return == /\ pc = "done" /\ ret' = (IF KeepBest THEN best ELSE cur) /\ pc' = "ret"
          /\ UNCHANGED <<na, neig, nguess, it, applied, residOk, best, cur>>
Next == (\E ok, im \in BOOLEAN : Iterate(ok, im)) \/ Exhaust \/ Return
Spec == Init /\ [][Next]_vars
Bounded == nguess <= na
ReturnsBest == pc = "ret" => ret = best
\* with a sufficient budget the loop ends because the residual is small or the space is full
Terminates == (pc \in {"done", "ret"} /\ it < MaxIter) => (residOk \/ nguess = na)
=============================================================================
