--------------------------- MODULE Trace_Davidson ---------------------------
(* Davidson runs observed through a counting operator (the column count of every application of A) checked against  *)
(* Davidson.tla; the ret event carries the numeric verdicts of symeig's result.                                       *)
EXTENDS Davidson, TraceLib
VARIABLES tid, l
tvars == <<vars, tid, l>>
ASSUME InitRegs
Ev == Traces[tid].ev
E == Ev[l]
C == Traces[tid].cfg
TInit == /\ tid \in 1..NT /\ l = 1
         /\ na = C.na /\ neig = C.neig /\ nguess = C.nguess /\ it = 0 /\ applied = <<C.nguess>>
         /\ residOk = FALSE /\ best = 0 /\ cur = 0 /\ pc = "loop" /\ ret = 0
IsEvent(a) == l <= Len(Ev) /\ E.a = a /\ l' = l + 1 /\ UNCHANGED tid
TFirst == IsEvent("apply") /\ l = 1 /\ E.ncols = nguess /\ UNCHANGED vars
\* every further application of the operator is one expansion of the search space
TExpand == /\ IsEvent("apply") /\ l > 1
           /\ \E im \in BOOLEAN : Iterate(FALSE, im)
           /\ pc' = "loop" /\ E.ncols = applied'[Len(applied')]
TRet == /\ IsEvent("ret")
        /\ \E ok, im \in BOOLEAN : Iterate(ok, im) /\ pc' = "done"      \* the last Ritz step ends the loop
        /\ \A j \in 1..Len(E.verdicts) : E.verdicts[j][2]
TNext == TFirst \/ TExpand \/ TRet
TSpec == TInit /\ [][TNext]_tvars
Prog == Progress(tid, l)
=============================================================================
