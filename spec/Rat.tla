-------------------------------- MODULE Rat --------------------------------
(* Exact rational arithmetic on normalised pairs <<num, den>> (den > 0, gcd 1) with cross-cancelling so that     *)
(* intermediate products stay within TLC's 32-bit integers for the small instances used by the specifications. *)
EXTENDS Integers
Abs(a) == IF a < 0 THEN -a ELSE a
RECURSIVE GcdP(_, _)
GcdP(a, b) == IF b = 0 THEN a ELSE GcdP(b, a % b)
Gcd(a, b) == GcdP(Abs(a), Abs(b))
Norm(n, d) == LET g == Gcd(n, d) s == IF d < 0 THEN -1 ELSE 1 IN IF n = 0 THEN <<0, 1>> ELSE <<s * (n \div g), s * (d \div g)>>
R(n) == <<n, 1>>
RAdd(x, y) == LET g == Gcd(x[2], y[2]) IN Norm(x[1] * (y[2] \div g) + y[1] * (x[2] \div g), (x[2] \div g) * y[2])
RNeg(x) == <<-x[1], x[2]>>
RSub(x, y) == RAdd(x, RNeg(y))
RMul(x, y) == IF x[1] = 0 \/ y[1] = 0 THEN <<0, 1>>
              ELSE LET g1 == Gcd(x[1], y[2]) g2 == Gcd(y[1], x[2]) IN Norm((x[1] \div g1) * (y[1] \div g2), (x[2] \div g2) * (y[2] \div g1))
RInv(x) == Norm(x[2], x[1])
RDiv(x, y) == RMul(x, RInv(y))
RLe(x, y) == x[1] * y[2] <= y[1] * x[2]
RLt(x, y) == x[1] * y[2] < y[1] * x[2]
RAbs(x) == IF x[1] < 0 THEN RNeg(x) ELSE x
\* floor towards minus infinity (TLC's \div on Integers floors)
RFloor(x) == x[1] \div x[2]
=============================================================================
