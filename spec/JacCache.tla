------------------------------ MODULE JacCache ------------------------------
(***************************************************************************)
(* The Jacobian / Hessian operator returned by xitorch.grad.jac / hess as  *)
(* a state machine.  The operator is created at a point (y, explicit       *)
(* parameters th, object-held parameters ob) and caches the autograd graph *)
(* built there, keyed by the IDENTITY of those tensors.  Its parameters    *)
(* can be substituted temporarily (LinearOperator.uselinopparams - this is *)
(* what solve's backward pass does).  Every product must be taken at the   *)
(* tensors currently substituted; the function is re-evaluated exactly     *)
(* when they are not the cached ones.                                      *)
(*                                                                         *)
(* Deviation switches (TRUE = intended):                                   *)
(*   KeyHasObj   the cache key includes the object-held parameters         *)
(*   KeyHasY     the cache key includes the point y                        *)
(***************************************************************************)
EXTENDS Naturals, Sequences, TLC
CONSTANTS Ids, MaxDepth, MaxProducts, KeyHasObj, KeyHasY
Products == {"mv", "rmv", "mm", "rmm", "fm", "Hmv"}
Pt == [y : Ids, th : Ids, ob : Ids]
VARIABLES cur,      \* the tensors currently installed in the operator
          frames,   \* saved parameter sets of the open uselinopparams blocks
          nEval,    \* evaluations of the user's function since creation
          nProd,
          last      \* [p, at, reeval] : the last product, where it was evaluated, whether it re-evaluated
vars == <<cur, frames, nEval, nProd, last>>
Orig == [y |-> 0, th |-> 0, ob |-> 0]
Key(p) == <<IF KeyHasY THEN p.y ELSE 0, p.th, IF KeyHasObj THEN p.ob ELSE 0>>
Init == /\ cur = Orig /\ frames = <<>> /\ nEval = 0 /\ nProd = 0
        /\ last = [p |-> "none", at |-> Orig, reeval |-> FALSE]
Substitute(q) == /\ Len(frames) < MaxDepth /\ frames' = Append(frames, cur) /\ cur' = q
                 /\ last' = [last EXCEPT !.p = "none"] /\ UNCHANGED <<nEval, nProd>>
Restore == /\ frames # <<>> /\ cur' = frames[Len(frames)] /\ frames' = SubSeq(frames, 1, Len(frames) - 1)
           /\ last' = [last EXCEPT !.p = "none"] /\ UNCHANGED <<nEval, nProd>>
Product(p) ==
   /\ nProd < MaxProducts /\ nProd' = nProd + 1
   /\ LET hit == Key(cur) = Key(Orig) IN
      /\ nEval' = IF hit THEN nEval ELSE nEval + 1
      /\ last' = [p |-> p, at |-> IF hit THEN Orig ELSE cur, reeval |-> ~hit]
   /\ UNCHANGED <<cur, frames>>
Next == (\E q \in Pt : Substitute(q)) \/ Restore \/ (\E p \in Products : Product(p))
Spec == Init /\ [][Next]_vars
\* every product is taken at the tensors currently installed
AtCurrent == last.p # "none" => last.at = cur
\* the function is evaluated again iff something it depends on was replaced
ReevalIffChanged == last.p # "none" => (last.reeval <=> cur # Orig)
Unwound == frames = <<>> => cur = Orig
=============================================================================
