------------------------------ MODULE LayoutInv ------------------------------
(***************************************************************************)
(* Memory layout of the tensors a caller hands to a functional.            *)
(* A PyTorch tensor is a view (offset, strides) of a storage; the same     *)
(* values can arrive contiguous, as every second element of a larger       *)
(* buffer ("strided"), as an inner slice of a larger buffer ("offset":     *)
(* storage offset not zero), or as the transpose of a transposed copy      *)
(* ("transposed": column-major; 1-D tensors have no such form and arrive   *)
(* strided instead).  The library reshapes, flattens and writes into       *)
(* scratch copies of its inputs; whether it does so with operations that   *)
(* tolerate any layout (reshape, clone) or only contiguous ones (view,     *)
(* in-place writes through a flattened alias) is invisible to tests that   *)
(* always pass freshly created tensors.                                    *)
(*                                                                         *)
(* For every functional and every assignment of layouts to its tensor      *)
(* arguments the call must succeed and return the same values and the      *)
(* same first- and second-order gradients w.r.t. the underlying leaves as  *)
(* with contiguous arguments, and must leave the arguments untouched.      *)
(*                                                                         *)
(* Deviation switch AnyLayout (TRUE = intended): FALSE models a            *)
(* functional that flattens with `view` - it raises for every argument     *)
(* that is not contiguous.                                                 *)
(***************************************************************************)
EXTENDS Naturals, Sequences, FiniteSets, TLC
CONSTANTS Calls,        \* set of records [f |-> name, args |-> sequence of tensor-argument names]
          AnyLayout
Layouts == {"contiguous", "strided", "offset", "transposed"}
VARIABLES c, lay, pred
vars == <<c, lay, pred>>
Predict == [raises |-> ~AnyLayout /\ \E i \in DOMAIN lay : lay[i] # "contiguous", same |-> TRUE, inputsUntouched |-> TRUE]
Init == /\ c \in Calls /\ lay \in [1..Len(c.args) -> Layouts] /\ pred = Predict
Next == UNCHANGED vars
Spec == Init /\ [][Next]_vars
LayoutIndependent == ~pred.raises /\ pred.same /\ pred.inputsUntouched
=============================================================================
