------------------------------ MODULE FixedRK ------------------------------
(***************************************************************************)
(* One explicit Runge-Kutta step per requested interval, computed exactly  *)
(* over Q for the scalar affine ODE  y' = lam*y + mu*t.  Rationals are     *)
(* normalised <<num, den>> pairs (den > 0) with cross-cancelling           *)
(* arithmetic so that intermediate values stay within 32 bits.  The        *)
(* specification predicts, for a grid ts, the trajectory and the exact     *)
(* sequence of (t, y) arguments at which the right-hand side is evaluated: *)
(* per interval exactly s evaluations, stage j at t_i + c_j*h.             *)
(***************************************************************************)
EXTENDS Integers, Sequences, TLC
CONSTANTS A, B, C, Cases      \* tableau entries <<num, den>>; Cases: set of [lam, mu, y0, ts] with rational entries
Abs(a) == IF a < 0 THEN -a ELSE a
RECURSIVE GcdP(_, _)
GcdP(a, b) == IF b = 0 THEN a ELSE GcdP(b, a % b)
Gcd(a, b) == GcdP(Abs(a), Abs(b))
Norm(n, d) == LET g == Gcd(n, d) s == IF d < 0 THEN -1 ELSE 1 IN IF n = 0 THEN <<0, 1>> ELSE <<s * (n \div g), s * (d \div g)>>
RAdd(x, y) == LET g == Gcd(x[2], y[2]) IN Norm(x[1] * (y[2] \div g) + y[1] * (x[2] \div g), (x[2] \div g) * y[2])
RNeg(x) == <<-x[1], x[2]>>
RSub(x, y) == RAdd(x, RNeg(y))
RMul(x, y) == IF x[1] = 0 \/ y[1] = 0 THEN <<0, 1>>
              ELSE LET g1 == Gcd(x[1], y[2]) g2 == Gcd(y[1], x[2]) IN Norm((x[1] \div g1) * (y[1] \div g2), (x[2] \div g2) * (y[2] \div g1))
Z == <<0, 1>>
S == Len(B)
RECURSIVE Acc(_, _, _), Stages(_, _, _, _, _, _), Comb(_, _)
Acc(row, ks, m) == IF m = 0 THEN Z ELSE RAdd(Acc(row, ks, m - 1), RMul(row[m], ks[m]))
\* stage values k_1..k_s and the (t, y) arguments of the evaluations
Stages(lam, mu, t0, y, h, acc) ==
   LET j == Len(acc) + 1 IN
   IF j > S THEN acc
   ELSE LET ks == [m \in 1..Len(acc) |-> acc[m].k]
            tj == RAdd(t0, RMul(C[j], h))
            yj == RAdd(y, RMul(h, Acc(A[j], ks, j - 1)))
            kj == RAdd(RMul(lam, yj), RMul(mu, tj))
        IN Stages(lam, mu, t0, y, h, Append(acc, [k |-> kj, t |-> tj, y |-> yj]))
Comb(st, m) == IF m = 0 THEN Z ELSE RAdd(Comb(st, m - 1), RMul(B[m], st[m].k))
StepRes(lam, mu, t0, t1, y) ==
   LET h == RSub(t1, t0) st == Stages(lam, mu, t0, y, h, <<>>) IN
   [y |-> RAdd(y, RMul(h, Comb(st, S))), evals |-> [m \in 1..S |-> <<st[m].t, st[m].y>>]]
RECURSIVE Traj(_, _, _)
Traj(c, i, acc) ==     \* acc: [ys, evals]
   IF i >= Len(c.ts) THEN acc
   ELSE LET r == StepRes(c.lam, c.mu, c.ts[i], c.ts[i + 1], acc.ys[Len(acc.ys)]) IN
        Traj(c, i + 1, [ys |-> Append(acc.ys, r.y), evals |-> acc.evals \o r.evals])
Predict(c) == Traj(c, 1, [ys |-> <<c.y0>>, evals |-> <<>>])
VARIABLES case, pred
vars == <<case, pred>>
Init == case \in Cases /\ pred = Predict(case)
Next == UNCHANGED vars
Spec == Init /\ [][Next]_vars
\* structure of the scheme: first value is y0, one value per requested time, s evaluations per interval, first stage at the interval start
Shape == /\ pred.ys[1] = case.y0 /\ Len(pred.ys) = Len(case.ts)
         /\ Len(pred.evals) = S * (Len(case.ts) - 1)
         /\ \A i \in 1..(Len(case.ts) - 1) : pred.evals[(i - 1) * S + 1] = <<case.ts[i], pred.ys[i]>>
\* a single time point needs no step
Trivial == Len(case.ts) = 1 => pred.ys = <<case.y0>>
=============================================================================
