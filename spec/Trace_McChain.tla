---------------------------- MODULE Trace_McChain ----------------------------
(* Recorded executions of xitorch.integrate.mcquad checked against McChain.tla.  The events are the calls the   *)
(* library makes to the caller's log_pfcn, custom_step and integrand (wrappers at the API boundary, no hook).    *)
(* With the deterministic custom step x -> x + 1 the chain position is the value of x; for "mh" positions are   *)
(* not observable (field at = -1) and only the number and order of calls is bound.                              *)
EXTENDS McChain, TraceLib
VARIABLES tid, l
tvars == <<vars, tid, l>>
ASSUME InitRegs
Ev == Traces[tid].ev
E == Ev[l]
C == Traces[tid].cfg
TInit == /\ tid \in 1..NT /\ l = 1
         /\ sampler = C.sampler /\ nsamples = C.nsamples /\ nburn = C.nburn
         /\ phase = "burn" /\ pos = 0 /\ steps = 0 /\ collected = <<>>
         /\ logpEvals = 0 /\ fEvals = <<>> /\ bwdPoints = <<>>
IsEvent(a) == l <= Len(Ev) /\ E.a = a /\ l' = l + 1 /\ UNCHANGED tid
Known(p) == p >= 0
\* first evaluation of log p at the starting point x0
TBegin == IsEvent("begin") /\ phase = "burn" /\ steps = 0 /\ pos = 0 /\ (Known(E.at) => E.at = 0) /\ UNCHANGED vars
\* mh: every further log p call is a proposal (burn-in or collect) or the start of the collect phase
TLogp == /\ IsEvent("logp") /\ sampler # "dummy1d"
         /\ IF sampler = "mh" THEN BurnStep \/ StartCollect \/ CollectStep
            ELSE StartCollect /\ (Known(E.at) => E.at = pos')             \* mhcustom: log p only at the start of a phase
TStep == /\ IsEvent("step") /\ sampler = "mhcustom" /\ (Known(E.from) => E.from = pos)
         /\ BurnStep \/ CollectStep
TQuad == IsEvent("quad") /\ Quadrature /\ E.n = nsamples
TIntegrate == /\ IsEvent("integrate") /\ Integrate /\ E.n = Len(fEvals')
              /\ (sampler = "mhcustom" => E.at = fEvals')
TBackward == /\ IsEvent("backward") /\ Backward
             /\ (sampler = "mhcustom" => E.at = bwdPoints')
             /\ E.nf = Len(bwdPoints') /\ E.nlogp = Len(bwdPoints')
\* the returned value: numeric verdicts computed by the harness on the observed sample points
TRet == /\ IsEvent("ret") /\ Finished
        /\ CountOK /\ AfterBurnIn /\ Continuous
        /\ \A k \in 1..Len(E.verdicts) : E.verdicts[k][2]
        /\ UNCHANGED vars
TNext == TBegin \/ TLogp \/ TStep \/ TQuad \/ TIntegrate \/ TBackward \/ TRet
TSpec == TInit /\ [][TNext]_tvars
Prog == Progress(tid, l)
=============================================================================
