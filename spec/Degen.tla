-------------------------------- MODULE Degen --------------------------------
(***************************************************************************)
(* The implicit backward pass of symeig for eigenvector cotangents, as a   *)
(* dataflow over DIRECTIONS.  neig returned eigenpairs; eigenvalues i, j   *)
(* are "degenerate" when closer than a threshold (relation Deg, reflexive  *)
(* and symmetric; blocks = its classes in the gap patterns explored).      *)
(* For column i the backward pass                                          *)
(*   1. projects the cotangent b_i against the eigenvectors of block(i)    *)
(*      (the right-hand side must be orthogonal to the kernel),            *)
(*   2. solves the SINGULAR shifted system (A - lambda_i M) g_i = -b_i;    *)
(*      any solution is g_i + arbitrary components along every v_j with j  *)
(*      in block(i): these components are GARBAGE chosen by the solver,    *)
(*   3. orthogonalises g_i again,                                          *)
(*   4. contracts g_i with the derivative of the operator.                 *)
(* The result is well defined only if all garbage has been removed before  *)
(* step 4.  TLC lets the solver choose any garbage set.                    *)
(*                                                                         *)
(* Deviation switches (TRUE = intended):                                   *)
(*   FirstOrthoUsesBlock   step 1 removes the whole block (else only v_i)  *)
(*   SecondOrthoUsesBlock  step 3 removes the whole block (else only v_i)  *)
(***************************************************************************)
EXTENDS Naturals, FiniteSets, TLC
CONSTANTS MaxNeig, FirstOrthoUsesBlock, SecondOrthoUsesBlock
VARIABLES neig, gaps,      \* gaps[i] = TRUE iff eigenvalues i and i+1 coincide (within the threshold)
          col, pc, rhsKernel, garbage, used
vars == <<neig, gaps, col, pc, rhsKernel, garbage, used>>
RECURSIVE SameBlock(_, _, _)
SameBlock(g, i, j) == IF i = j THEN TRUE ELSE IF i > j THEN SameBlock(g, j, i) ELSE g[i] /\ SameBlock(g, i + 1, j)
Block(i) == {j \in 1..neig : SameBlock(gaps, i, j)}
Init == /\ neig \in 1..MaxNeig /\ gaps \in [1..(neig - 1) -> BOOLEAN]
        /\ col \in 1..neig /\ pc = "ortho1" /\ rhsKernel = {} /\ garbage = {} /\ used = {}
\* step 1: what remains of the cotangent inside the kernel of the shifted operator
Ortho1 == /\ pc = "ortho1"
          /\ rhsKernel' = IF FirstOrthoUsesBlock THEN {} ELSE Block(col) \ {col}
          /\ pc' = "solve" /\ UNCHANGED <<neig, gaps, col, garbage, used>>
\* step 2: the solver returns a particular solution plus any kernel component
Solve(gset) == /\ pc = "solve" /\ gset \subseteq Block(col)
               /\ garbage' = gset
               /\ pc' = "ortho2" /\ UNCHANGED <<neig, gaps, col, rhsKernel, used>>
Ortho2 == /\ pc = "ortho2"
          /\ garbage' = garbage \ (IF SecondOrthoUsesBlock THEN Block(col) ELSE {col})
          /\ pc' = "contract" /\ UNCHANGED <<neig, gaps, col, rhsKernel, used>>
Contract == /\ pc = "contract" /\ used' = garbage /\ pc' = "done"
            /\ UNCHANGED <<neig, gaps, col, rhsKernel, garbage>>
Next == Ortho1 \/ (\E s \in SUBSET (1..neig) : Solve(s)) \/ Ortho2 \/ Contract
Spec == Init /\ [][Next]_vars
\* the singular system is consistent
Solvable == pc = "solve" => rhsKernel = {}
\* nothing the solver chose freely reaches the gradient
NoGarbageUsed == pc = "done" => used = {}
=============================================================================
