---------------------------- MODULE SolveDefault ----------------------------
(***************************************************************************)
(* Which algorithm xitorch.linalg.solve / the implicit backward passes use *)
(* when the caller names none (documentation of solve: "method=None"):     *)
(*   dense-wrapped A (and M)            -> exactsolve                      *)
(*   matrix-free, at most 5 unknowns    -> exactsolve                      *)
(*   matrix-free, larger, Hermitian A,M -> cg                              *)
(*   matrix-free, larger, otherwise     -> bicgstab                        *)
(* The backward pass of solve calls solve again on the adjoint operator    *)
(* with the backward options; without a method there the same table        *)
(* applies to A^H (dense stays dense, Hermitian stays Hermitian).          *)
(***************************************************************************)
EXTENDS Naturals, TLC
CONSTANTS Sizes
VARIABLES dense, n, hermA, hasM, hermM, pred
vars == <<dense, n, hermA, hasM, hermM, pred>>
Choose == IF dense THEN "exactsolve"
          ELSE IF n <= 5 THEN "exactsolve"
          ELSE IF hermA /\ (~hasM \/ hermM) THEN "cg" ELSE "bicgstab"
Init == /\ dense \in BOOLEAN /\ n \in Sizes /\ hermA \in BOOLEAN /\ hasM \in BOOLEAN /\ hermM \in BOOLEAN
        /\ (~hasM => ~hermM) /\ (hasM => hermM)          \* solve requires M to be Hermitian
        /\ pred = [fwd |-> Choose, bwd |-> Choose]
Next == UNCHANGED vars
Spec == Init /\ [][Next]_vars
\* an iterative default is only chosen for matrix-free operators with more than 5 unknowns
IterativeOnlyWhenLarge == pred.fwd # "exactsolve" => (~dense /\ n > 5)
CgOnlyHermitian == pred.fwd = "cg" => hermA
=============================================================================
