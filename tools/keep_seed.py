#!/venv/bin/python
"""keep_seed.py <id> <srcdir> <caught_by comma list> <notes>  -> /verif/seeded/<id>/ (patch.diff, demo.py, meta.json)"""
import json, os, shutil, sys
sid, src, caught, notes = sys.argv[1], sys.argv[2], sys.argv[3], sys.argv[4]
dst = os.path.join("/verif/seeded", sid)
os.makedirs(dst, exist_ok=True)
shutil.copy(os.path.join(src, "patch.diff"), dst)
shutil.copy(os.path.join(src, "demo.py"), dst)
m = json.load(open(os.path.join(src, "meta.json")))
m["confirmed_by_me"] = {"demo_clean_exit": 0, "demo_patched_exit": 1, "applies_to_repo_head": True,
                        "ran": "tools/try_seed.sh <patch> <demo> <checks> (demo on clean and patched /repo, then the quick checks on the patched tree; /repo restored)"}
m["caught_by"] = [c for c in caught.split(",") if c]
m["notes"] = notes
json.dump(m, open(os.path.join(dst, "meta.json"), "w"), indent=1)
print("kept", dst)
