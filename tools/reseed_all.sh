#!/bin/sh
# Re-applies every kept seeded change to /repo in turn and runs the quick checks that are recorded as catching it
# (seeded/<id>/meta.json "caught_by"); every one of them must report a violation (rc=1).  /repo is restored after each.
# usage: tools/reseed_all.sh [id-prefix]   (run alone: it modifies /repo's working tree while it runs)
cd /verif || exit 2
git -C /repo diff --quiet || { echo "repo dirty"; exit 2; }
mkdir -p out/reseed
bad=0
for d in seeded/${1}*/; do
  id=$(basename "$d")
  checks=$(/venv/bin/python -c "import json,sys; print(' '.join(json.load(open('$d/meta.json')).get('caught_by', [])))")
  git -C /repo apply "/verif/$d/patch.diff" 2>/dev/null || { echo "$id: PATCH DOES NOT APPLY"; bad=1; continue; }
  for c in $checks; do
    ./check $c --tier quick > out/reseed/${id}_$c.log 2>&1; rc=$?
    if [ $rc -eq 1 ]; then echo "$id: $c catches it ($(grep -c '^VIOLATION' out/reseed/${id}_$c.log) keys)"; else echo "$id: $c MISSES it (rc=$rc)"; bad=1; fi
  done
  git -C /repo checkout -- .
done
git -C /repo status --short | grep -v '^??' | wc -l
exit $bad
