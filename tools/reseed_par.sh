#!/bin/sh
# Parallel version of reseed_all.sh: every kept seeded change is applied to its own scratch worktree of /repo under /tmp/rs and the
# quick checks recorded as catching it are run against that copy (VERIF_REPO); evidence / replay files of these runs go to the scratch
# directory.  /repo itself is not touched.  usage: tools/reseed_par.sh [id-prefix] [jobs]
cd /verif || exit 2
J=${2:-6}
mkdir -p out/reseed /tmp/rs
ls -d seeded/${1}*/ | xargs -n1 basename | xargs -P $J -I{} sh -c '
  id={}; wt=/tmp/rs/$id
  checks=$(/venv/bin/python -c "import json; print(\" \".join(json.load(open(\"seeded/$id/meta.json\")).get(\"caught_by\", [])))")
  git -C /repo worktree add --detach -f $wt HEAD >/dev/null 2>&1 || { echo "$id: WORKTREE FAILED"; exit 0; }
  if git -C $wt apply /verif/seeded/$id/patch.diff 2>/dev/null; then
    for c in $checks; do
      VERIF_REPO=$wt VERIF_EVIDENCE_DIR=$wt.out VERIF_REPLAY_DIR=$wt.out ./check $c --tier quick > out/reseed/${id}_$c.log 2>&1; rc=$?
      if [ $rc -eq 1 ]; then echo "$id: $c catches it ($(grep -c "^VIOLATION" out/reseed/${id}_$c.log) keys)"; else echo "$id: $c MISSES it (rc=$rc)"; fi
    done
  else echo "$id: PATCH DOES NOT APPLY"; fi
  git -C /repo worktree remove --force $wt >/dev/null 2>&1; rm -rf $wt $wt.out
' | tee out/reseed/summary.txt
git -C /repo worktree prune
echo "caught: $(grep -c "catches it" out/reseed/summary.txt)  missed: $(grep -c "MISSES\|DOES NOT APPLY\|FAILED" out/reseed/summary.txt)"
grep -q "MISSES\|DOES NOT APPLY\|FAILED" out/reseed/summary.txt && exit 1
exit 0
