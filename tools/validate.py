#!/opt/veriftools/pyvenv/bin/python
"""Validates MANIFEST.json and every evidence file against the schemas in /root/.vp (jsonschema from the tooling venv)."""
import glob, json, sys
import jsonschema
ok = True
m = json.load(open('/verif/MANIFEST.json'))
try:
    jsonschema.validate(m, json.load(open('/root/.vp/MANIFEST.schema.json')))
    print("MANIFEST ok:", len(m["checks"]), "checks,", len(m.get("not_applicable", [])), "not applicable")
except Exception as e:
    ok = False
    print("MANIFEST INVALID:", str(e)[:300])
es = json.load(open('/root/.vp/EVIDENCE.schema.json'))
for c in m["checks"]:
    try:
        ev = json.load(open('/verif/' + c["evidence_file"]))
        jsonschema.validate(ev, es)
        cov = ev["coverage"]
        print("%s %s seed=%s states=%s traces=%s cases=%s distinct=%s viol=%s wall=%.0fs" % (ev["property_id"], ev["tier"], ev["seed"], cov.get("states"), cov.get("traces_validated_against_impl"),
                                                                                            cov.get("evaluations"), cov.get("distinct_nontrivial"), ev.get("violations"), ev["wall_s"]))
    except Exception as e:
        ok = False
        print(c["property_id"], "EVIDENCE INVALID:", str(e)[:300])
sys.exit(0 if ok else 1)
