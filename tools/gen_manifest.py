#!/venv/bin/python
"""Regenerates MANIFEST.json from the table below (single source of truth for what is claimed)."""
import json
import os
HERE = os.path.dirname(os.path.dirname(os.path.abspath(__file__)))
ALL = ["C%02d" % i for i in range(1, 21)]

CLAIMED = {
 "C12": dict(
   technique="TLA+ case-table model QuadCfg.tla (transform choice and evaluation counts for every form of the limits) enumerated by TLC and executed row by row on the real quad with a counting integrand; the quadrature rule itself extracted with indicator-valued integrands and checked through Legendre orthogonality",
   text="TLC enumerates limit kinds {number, tensor, tensor requiring grad} x {finite, infinite} for both limits x n given/default and predicts the change of variables and the number of integrand evaluations (one probe + n nodes); every row is executed and compared (counts, nodes inside the interval, value against the closed form). For n in 1..12, 50, 100 (200, 300 thorough) x 6 intervals (both orientations, tiny to large) x limits as numbers/tensors the result of an indicator-valued integrand IS the weight vector and the call log the node vector: exactly n nodes, symmetric, inside, and sum_i w_i P_k(x_i) = 2 delta_k0 for all k <= 2n-1 (exactness to degree 2n-1 in a well-conditioned form). Polynomials of degree 2n-1: exact, sign change on swapped limits, additivity over adjacent intervals, linearity; tuple-valued integrands component-wise; infinite limits: nodes are tan of the Gauss nodes on (atan xl, atan xu) and Gaussian integrals are reproduced to 1e-9.",
   design_ref="5.9, 6 (C12)",
   note="Trusted: TLC/SANY, numpy's Legendre recurrence in the harness, closed-form error-function integrals. The exactness degree for n >= 2 is a numeric verdict (irrational nodes), not a TLC computation."),
 "C13": dict(
   technique="TLA+ case-table model QuadCfg.tla (backward part: evaluation counts with the provenance of n, gradient pattern, no error for any form of the limits or unused tensors) enumerated by TLC (288 rows) and executed row by row on the real quad; gradient values compared with the same Gauss rule applied to the closed-form derivative and with the Leibniz rule, first and second order",
   text="For every combination of limit kinds, infinite limits, n given/default, bck_options given/absent and presence of an unused tensor TLC predicts: the backward pass never raises, evaluates the integrand (tensor limits + probe + n_bck) times with n_bck from bck_options when given and from the forward options otherwise, limits get a gradient iff they require one; three deviations (options not forwarded, limit kind forgotten, unused tensors rejected) are caught. Each row is executed with a counting integrand: no exception, count as predicted, d/da equal to the n_bck-point rule applied to the closed-form derivative (1e-9), Leibniz terms +f(xu), -f(xl) (1e-12), zero/None for the unused tensor. An EditableModule method with a used and an unused held tensor is integrated for several (n, bck n, limits) with first- and second-order checks.",
   design_ref="5.9, 6 (C13)",
   note="Trusted: TLC/SANY; plain-torch Gauss rule (numpy nodes) as reference. The count of limit evaluations is modelled as the code does it (one per tensor limit, whether or not it requires grad)."),
 "C08": dict(
   technique="TLA+ model IvpAdjoint.tla of the adjoint segment loop checked exhaustively by TLC; backward passes observed through a probing callable supplied as the backward method (time pair, augmented state, options of every segment) validated by TLC against Trace_IvpAdjoint.tla, with gradients of first and second order compared with autograd through closed-form solutions in the final event",
   text="TLC checks for nt <= 4 and both ts.requires_grad settings: one segment per interval, newest first, y re-seeded from the stored forward value at every segment, every output's cotangent added exactly once, segments integrated with the backward options, time gradients recorded for every index iff ts requires grad; three deviations are caught. Real backward passes (two ODE families x 4 grids incl. decreasing and ragged x requires-grad subsets x cotangents on one/all outputs x explicit/object-held parameter) run with a probing backward method must match the model segment by segment: interval indices, y part bit-equal to the stored forward value, dL/dy part equal to the propagated cotangents (matrix-exponential reference), backward option present. ~60 further runs with the built-in backward for all five forward methods check values and gradients w.r.t. y0, parameter, every requested time (incl. ts[0]) and second order against autograd through the closed forms, zero/absent gradient for an unused parameter.",
   design_ref="5.8, 6 (C08)",
   note="Trusted: TLC/SANY; torch.matrix_exp / logistic closed form as references; tolerances per forward method listed in the evidence (continuous adjoint: agreement is limited by integrator accuracy)."),
 "C07": dict(
   technique="TLA+ models Tableau.tla (all rooted-tree order conditions, decided exactly by modular arithmetic on the tableaux extracted from the imported code), FixedRK.tla (exact rational trajectories and evaluation sequences) and AdaptiveRK.tla (step controller) checked by TLC; TLC's rational predictions replayed on the real fixed-step methods; ark.try hook traces of rk23/rk45 validated by TLC against Trace_AdaptiveRK.tla with numeric verdicts",
   text="TLC decides, for the coefficient tables actually present in the code (converted to rationals at run time), every order condition up to the declared order (17 trees to order 5) for rk4, rk38, euler, RK23 (3 with embedded 2) and RK45 (5 with embedded 4, FSAL extension), row-sum consistency and the error-estimator order; a weight perturbed by 1/1000 is caught. For y' = lam*y + mu*t on rational grids (both directions, single time point) TLC computes the exact trajectory and the exact (t, y) argument of every stage; the real solve_ivp must reproduce the values to a few ulps, y(ts[0]) = y0 bit-exactly and call the right-hand side at exactly the predicted arguments - one step of s stages per interval. The controller model is exhaustive for 3 targets / 6 trials; every trial step of 80 (quick) real adaptive runs (4 ODE families with closed-form solutions x 5 grids x tolerances) must match it (targets in order, landing on the requested time, rejection shrinks, no growth after a rejection, factor bounds) and the final event carries: first value = y0, global error within the stated bound, bit-identical prefix independence, tuple state = concatenated state; plus observed convergence orders and decreasing grids for the fixed-step methods.",
   design_ref="5.8, 6 (C07)",
   note="Trusted: TLC/SANY, Fraction.limit_denominator(1e7) round-trip of the coefficients, closed-form solutions of the families, error bound 3*N_accepted*(atol+rtol*max|y|)*exp(L*T). Landing on a requested time is required up to the rounding error of t0 + (t1 - t0)."),
 "C19": dict(
   technique="TLA+ model RefGraph.tla of reference-counting reclamation, run by TLC on the ownership graph recorded from the real objects of each call for every order of dropping the caller's handles; the same histories measured on the real objects with the cyclic collector disabled; model and measurement must agree",
   text="For every functional (rootfinder, equilibrium, minimize, solve_ivp, quad, mcquad, jac, hess, solve, symeig, svd, Interp1D, SQuad) x method x function kind x history {forward only, +backward, +graph-recording backward and second backward} the objects reachable from the returned handles are recorded as a graph (interpreter-reported strong references plus tensor -> grad_fn, restricted to objects created by the call); TLC explores all drop orders with pure reference counting and reports any call-allocated tensor that stays live, naming its holders; the same history is executed with gc disabled and the number of live torch.Tensor objects compared before / after one call and after three more calls. A leak the measurement shows is a violation (explained by the model's offending edge); a leak only the model shows is treated as a failure of the extractor, never reported as a violation.",
   design_ref="5.13, 6 (C19)",
   note="Trusted: TLC/SANY, gc.get_referents as edge oracle (C++-only references invisible: the measurement is the ground truth), one warm-up call. Quick: first two method option sets, kinds pure/edit/nn for the default method."),
 "C18": dict(
   technique="TLA+ case-table model Dispatch.tla of method selection for the ten functionals, enumerated exhaustively by TLC with the predicted outcome per row; every row executed on the real functional; caller-supplied callables probed (arguments, options, gradient mode) and their first/second-order gradients compared with a built-in method",
   text="TLC enumerates every (functional, class of the method argument {None, exact name, mixed-case name, unknown string, callable, non-callable}, built-in name) row (118 rows) and checks case-insensitivity, rejection of unknown names / non-callables, acceptance of callables and that defaults are built-ins; the deviation 'name compared before lower-casing' is caught. Each row is executed: the real functional must accept/reject exactly as predicted. For each functional a closed-form (graph-free) or wrapping callable is supplied: it must receive the documented positional arguments and the caller's extra forward option, never the backward options, run with gradient recording disabled (implicit-gradient functionals), and the value and the first- and second-order gradients must equal those of a built-in method reaching the same solution; a callable given only in bck_options must be used, with its options, in the backward pass.",
   design_ref="5.4, 6 (C18)",
   note="Trusted: TLC/SANY; the method tables in Dispatch.tla are transcribed from the documentation. scipy_gmres resolves but cannot run with the installed SciPy (keyword `tol` removed) - not counted. Interp1D/SQuad callables are classes through which autograd differentiates directly, so gradient recording stays on there."),
 "C01": dict(
   technique="TLA+ models IterSolve.tla (solve pipeline and Krylov loop skeleton) and SolveShape.tla/Bcast.tla (output-shape table) checked exhaustively by TLC; executions recorded through the krylov.* hooks and the API boundary validated by TLC against Trace_IterSolve.tla with numeric verdicts in the final event; the whole shape table replayed on the real solve",
   text="TLC checks for every method x {E absent, present} x zero/non-zero right-hand side and every choice of per-iterate (passed, improved) flags within the budget: the result is handed back in the caller's layout, a warning is raised iff no iterate passed every column's threshold, a silent return hands back an iterate that passed, the budget is respected; three deviation switches (layout not restored by gmres, best-by-maximum instead of the iterate that passed, lost warning) are caught. ~1300 (quick) real executions over 6 methods x {no E, E, E+M, M only} x {SPD, indefinite Hermitian, non-Hermitian with prescribed singular values} x {dense, mv-only, mv+rmv, sums, Jacobian operators} x {float64, complex128} x batch patterns x zero RHS x tight budgets must be behaviours of the model (hook events bind k, hit, improved, which iterate is returned, layout flags) and carry the verdicts: shape = broadcast, dtype kept, true residual of AX - MXE = B within the stated bound, agreement with an independent dense column-by-column solution, silence where the property demands it. The complete broadcast table of (A, B, E, M) batch shapes (TLC-enumerated) is replayed on exactsolve, cg and bicgstab incl. the zero-RHS shortcut.",
   design_ref="5.5, 6 (C01)",
   note="Trusted: TLC/SANY, hooks krylov.iter/best/ret, torch.linalg.solve as dense reference, the residual bound stated in the evidence (derived from the prescribed singular values, slack 10). broyden1's own loop is covered by C03's RootLoop model. Counting-operator budgets are not asserted."),
 "C16": dict(
   technique="TLA+ model McChain.tla of the burn-in/collect protocol of the three samplers and of the backward pass, checked exhaustively by TLC; call sequences of real mcquad runs recorded at the API boundary (log_pfcn, custom_step, integrand wrappers; deterministic step makes chain positions observable) validated by TLC against Trace_McChain.tla with numeric verdicts in the final event",
   text="TLC explores all (sampler, nsamples <= 4, nburnout <= 4) and checks: exactly nsamples recorded positions, first one after >= nburnout steps, consecutive positions continuing the burned-in chain, integrand evaluated on exactly the recorded positions, backward on the same positions; four deviation switches (restart from x0, wrong count, short burn-in, resampling in backward) are caught. ~110 (quick) real runs over samplers x (nsamples, nburnout) x explicit/object-held parameters x tuple outputs must be behaviours of the model with positions bound, and their final event must carry: value = weighted mean on the observed points, weights sum to one, dummy1d nodes/weights as documented, first- and second-order gradients equal to those of the self-normalised surrogate (score-function estimator) on the same points, zero/absent gradient for unused tensors without error, backward evaluated on the forward samples; plus constant integrand, linearity, mh statistics at 6 sigma.",
   design_ref="5.11, 6 (C16)",
   note="Trusted: TLC/SANY; plain-torch surrogate estimator as gradient reference; knowledge that mcquad probes the integrand once before sampling. For mh only counts/order are bound (positions are random)."),
 "C03": dict(
   technique="TLA+ model RootLoop.tla of the three iteration loops (quasi-Newton, Anderson, gd/adam) checked exhaustively by TLC; executions of every method on contractive problem families recorded through API-boundary observers (custom_terminator, function wrapper, warnings) and validated by TLC against Trace_RootLoop.tla, with the returned tensor re-inserted into the user's function",
   text="TLC explores every choice of residual/step classes per iterate for maxiter <= 4 in all three loops incl. the start-up shortcuts and checks: a silent return meets the tolerance, it is the very iterate that passed the test, an exact root never raises, warned iff not converged, the minimizer's fallback is no worse than the start; four deviation switches reproduce the defects that were in the code. ~740 (quick) real executions (7 methods x 6 families incl. exact-root starts, exact landings, constant maps, complex unknowns x tolerance settings x line search x tight budgets) must each be a behaviour of the model: every stop test is on the newest iterate with the verdict its classes imply, and the final event binds which iterate came back and the verdicts computed from the returned tensor itself (residual class, f <= f(y0), distance to the reference solution within the contraction bound, shape/dtype).",
   design_ref="5.6, 6 (C03)",
   note="Trusted: TLC/SANY; xitorch's TerminationCondition is used inside the recording terminator (its verdict is cross-checked against the logged classes by the trace spec); reference solutions by plain fixed-point iteration / Newton in the harness. Silence is demanded for newton, broyden1/2, linearmixing(alpha=-1), anderson_acc, gd(step 0.3) on the families; adam only if silent."),
 "C11": dict(
   technique="TLA+ models LinopExpr.tla (expression trees with literal product dispatch and exact integer denotation), LinopCache.tla (per-class capability cache over all instantiation histories) and Bcast.tla (batch-shape table) enumerated exhaustively by TLC; every enumerated tree, history and shape pair executed on the real classes and compared with TLC's predicted values, leaf call logs, flags and shapes",
   text="TLC enumerates all 3176 operator expressions of depth <= 2 over six leaf kinds (mv only, +rmv, +mm, all products, Hermitian-flagged, dense) built with .H, scalar *, +, -, matmul and checks that the literal dispatch of mv/rmv/mm/rmm/fullmatrix equals the expression's integer denotation; all instantiation orders of three class hierarchies for the capability cache; the complete batch-shape table for rank <= 2. The real code is then run on the same trees with the same integer matrices (results must equal TLC's vectors exactly and the leaves' primitive-call log must equal the predicted dispatch path), on random complex128/float32/batched matrices against the dense denotation, on every instantiation history with freshly created classes, and on every shape pair (accept with the broadcast shape or reject).",
   design_ref="5.2, 6 (C11)",
   note="Trusted: TLC/SANY, counting leaves and dense denotation in harness/props/c11.py. Quick replays a seeded subset (1200) of the trees, thorough all; depth 3 is not enumerated. Jacobian-operator leaves are covered by C17."),
 "C17": dict(
   technique="TLA+ model JacCache.tla (identity-keyed cache under temporary parameter substitution) checked by TLC; its state graph replayed on real jac/hess operators with distinct-valued tensors per identity, products compared with dense autograd Jacobians at the point the specification names and re-evaluation with the specification's counter; case table against torch.autograd.functional",
   text="TLC explores every sequence of parameter substitutions (point, explicit parameter, object-held parameter; nesting <= 2) and products and checks that each product is taken at the currently installed tensors and that the function is re-evaluated exactly when they differ from the cached ones; both cache-key deviations are caught. Every product edge (quick: seeded subset) is executed on real jac and hess operators of an EditableModule method: the value must equal the dense Jacobian/Hessian at the substituted values and the function's call counter must move as predicted. A table over 7 representations x {jac, hess} x 8 products incl. .H and batched operands checks values and first/second derivatives w.r.t. point and leaves, all index selections, and rejection of non-differentiable arguments.",
   design_ref="5.12, 6 (C17)",
   note="Trusted: TLC/SANY, torch.autograd.functional as dense reference. Each product in the table uses a fresh operator (an operator's cached graph is freed by a backward pass without retain_graph, as in plain torch)."),
 "C09": dict(
   technique="TLA+ model ParamSubst.tla (unique maps, substitution through views) checked by TLC over all alias partitions; hook-recorded substitution protocol of every functional on every representation validated by TLC against Trace_ParamSubst.tla, final event carrying the numeric verdicts value/grad1/grad2 equal to the pure-function form",
   text="Design level: for every aliasing partition of the object's named tensors TLC checks that expanding the unique list restores the full list, that a substitution installs exactly the requested tensors and that every evaluation sees them. Implementation level: each of the 8 functionals is run on 7 representations of one function family (nn.Module with nested sub-module, EditableModule with derived/list-/dict-held aliased tensors, nn.Module inside EditableModule, mixed explicit/object/non-tensor parameters, single and multiple siblings, tied nn parameters) with default and iterative backward solvers; TLC accepts the recorded protocol only if each view starts from the unique list of what the object holds, each substitution installs Expand(requested) and the final event's verdicts (value, first- and second-order gradients equal to the pure-function form) are all true.",
   design_ref="5.1, 6 (C09)",
   note="Trusted: TLC/SANY, hooks, numeric comparison in harness/props/c09.py (1e-9 + 1e-7 relative: identical arithmetic), the function family of harness/vlib/problems.py. Scripted functions are not covered."),
 "C10": dict(
   technique="TLA+ model of the substitution protocols (ParamSubst.tla) checked exhaustively by TLC for every nesting and crash index within bounds; TLC state graph and simulated behaviours replayed on the real PureFunction/_Jac/debug objects; hook-recorded executions of every functional with a crash injected at evaluation k validated by TLC against Trace_ParamSubst.tla",
   text="TLC explores every interleaving of substitutions, Jacobian-operator parameter substitution, debug and state-change blocks, user-function evaluations and an exception raised at any evaluation index (5 aliasing patterns, nesting depth <= 3-4) and checks Quiescent (object, Parameter registration order, stacks, flags exactly as before whenever no block is open), LIFO and that an evaluation sees the requested tensors; each deviation switch (missing finally, push after check, shared list) is shown to violate them. The binding is two-way: every edge of the graph is executed on real objects with the full projected state compared, and ~2000 (quick) recorded runs of all eight functionals x 6 representations x forward/backward/double-backward x crash index are accepted by TLC step by step. Tests only sample the no-failure path.",
   design_ref="5.1, 6 (C10)",
   note="Trusted: TLC/SANY, hooks pf.*/lo.*/em.probe (add-only, guarded), the independent object traversal of harness/vlib/substrace.py, the bounds. disable_state_change/debug blocks are observed at the end of a call only. Quick samples crash indices (first/last three, thirds); thorough takes every index."),
 "C20": dict(
   technique="TLA+ model (Packer.tla) checked exhaustively by TLC; TLC state graph and simulated behaviours replayed on the real Packer; recorded executions validated by TLC against Trace_Packer.tla",
   text="TLC enumerates every structure within the stated bounds (container kinds, nesting, aliasing patterns) and every order of method calls; the invariants ListingOK / RoundTripOK / ValidAccepted / InvalidRejected hold in all states; each edge of that graph is executed on the real Packer and its outcome compared field by field, and recorded executions on larger random structures are accepted by the trace specification. Unit tests sample a handful of structures; this covers all of them up to the bound and all call histories.",
   design_ref="5.3, 6 (C20)",
   note="Trusted: TLC/SANY, the projection functions of harness/props/c20.py (independent traversal, identity comparison), bounds of MC_Packer*.cfg. Containers shared between two positions are outside the model."),
}
HOOK_COMMITS = ["b53e553", "860e24d", "586f68a", "d76150b", "bff9807", "d903ec8"]


def main():
    checks = []
    for pid in ALL:
        if pid not in CLAIMED:
            continue
        c = CLAIMED[pid]
        checks.append({
            "property_id": pid,
            "quick_cmd": "./check %s --tier quick" % pid,
            "thorough_cmd": "./check %s --tier thorough" % pid,
            "evidence_file": "evidence/%s.json" % pid,
            "replay_cmd_template": "./check %s --replay {path}" % pid,
            "engine": "tlc+conformance",
            "level_claimed": {"category": "model_checking", "text": c["text"], "design_ref": "DESIGN.md section " + c["design_ref"]},
            "level_note": c["note"],
            "technique": c["technique"],
        })
    man = {
        "version": 1,
        "setup_cmd": "./setup.sh",
        "hooks": {
            "guard": "XITORCH_VERIF",
            "enable": "environment variable XITORCH_VERIF=1 (set by ./check); xitorch is imported from /repo's working tree via PYTHONPATH, nothing is built",
            "baseline_off_cmd": "cd /repo && env -u XITORCH_VERIF /venv/bin/python -m pytest -ra -q -p no:cacheprovider --timeout=900 --continue-on-collection-errors",
            "source_commits": HOOK_COMMITS,
            "add_only": True,
        },
        "engines": [{
            "name": "tlc+conformance",
            "path": "check",
            "serves_properties": sorted(CLAIMED),
            "kind_free_text": "explicit TLA+ specifications in spec/ model-checked by TLC; bound to the implementation by replaying TLC behaviours on the real code and by validating recorded executions against trace specifications (harness/)",
        }],
        "checks": checks,
        "not_applicable": [{"property_id": p, "reason": "check not built yet in this round (planned, see DESIGN.md section 6)"}
                           for p in ALL if p not in CLAIMED],
        "notes": "All checks: ./check Cxx --tier quick|thorough; exit 0 held / 1 violation / 2 machinery failure. Known findings: known_findings.json.",
    }
    with open(os.path.join(HERE, "MANIFEST.json"), "w") as f:
        json.dump(man, f, indent=1)
    print("claimed:", sorted(CLAIMED))


if __name__ == "__main__":
    main()
