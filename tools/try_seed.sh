#!/bin/sh
# usage: tools/try_seed.sh <patch.diff> <demo.py> C09 C10 ...   -> demo on clean/patched tree, then the named quick checks on the patched tree; /repo is restored
P=$1; D=$2; shift 2
cd /repo || exit 2
git diff --quiet || { echo "repo dirty"; exit 2; }
echo "== demo on clean tree"; PYTHONPATH=/repo /venv/bin/python $D > /tmp/seed_demo_clean.log 2>&1; echo "exit $?"
git apply $P || { echo "patch does not apply"; exit 2; }
echo "== demo on patched tree"; PYTHONPATH=/repo /venv/bin/python $D > /tmp/seed_demo_patched.log 2>&1; echo "exit $?"
cd /verif
for c in "$@"; do
  ./check $c --tier quick > /tmp/seed_$c.log 2>&1; rc=$?
  echo "== $c rc=$rc $(grep -c '^VIOLATION' /tmp/seed_$c.log) violation lines"; grep "key=" /tmp/seed_$c.log | head -3 | cut -c1-260
done
git -C /repo checkout -- .
git -C /repo status --short | wc -l
