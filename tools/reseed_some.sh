#!/bin/sh
# tools/reseed_par.sh for an explicit list of seed ids (file), J jobs
cd /verif || exit 2
mkdir -p out/reseed /tmp/rs
cat $1 | xargs -P ${2:-7} -I{} sh -c '
  id={}; wt=/tmp/rs/$id
  checks=$(/venv/bin/python -c "import json; print(\" \".join(json.load(open(\"seeded/$id/meta.json\")).get(\"caught_by\", [])))")
  git -C /repo worktree add --detach -f $wt HEAD >/dev/null 2>&1 || { echo "$id: WORKTREE FAILED"; exit 0; }
  if git -C $wt apply /verif/seeded/$id/patch.diff 2>/dev/null; then
    for c in $checks; do
      VERIF_REPO=$wt VERIF_EVIDENCE_DIR=$wt.out VERIF_REPLAY_DIR=$wt.out ./check $c --tier quick > out/reseed/${id}_$c.log 2>&1; rc=$?
      if [ $rc -eq 1 ]; then echo "$id: $c catches it ($(grep -c "^VIOLATION" out/reseed/${id}_$c.log) keys)"; else echo "$id: $c MISSES it (rc=$rc)"; fi
    done
  else echo "$id: PATCH DOES NOT APPLY"; fi
  git -C /repo worktree remove --force $wt >/dev/null 2>&1; rm -rf $wt $wt.out
' | tee out/reseed/summary_targeted.txt
git -C /repo worktree prune
