#!/bin/sh
# usage: tools/run_all.sh [tier] [seed] [jobs]  -> runs every check, prints one line per check and the number of failures
T=${1:-quick}; S=${2:-0}; J=${3:-5}
cd /verif || exit 2
mkdir -p out/sweep
seq -f "C%02g" 1 20 | xargs -P $J -I{} sh -c "VERIF_SEED=$S ./check {} --tier $T > out/sweep/{}_${T}_$S.log 2>&1; echo \"{} rc=\$? \$(grep -c '^VIOLATION' out/sweep/{}_${T}_$S.log) viol \$(grep -c '^KNOWN-FINDING' out/sweep/{}_${T}_$S.log) known :: \$(tail -1 out/sweep/{}_${T}_$S.log | cut -c1-150)\""
