#!/bin/sh
# Confirms a candidate seeded change written by a sub-agent, on a scratch worktree of its own (never /repo):
#   tools/triage.sh <wid> [--tests] C09 C10 ...
# expects /tmp/sa/<wid>/patch.diff and /tmp/sa/<wid>/demo.py; prints demo exit codes on the clean and the changed tree, optionally
# runs the repository's test suite on the changed tree and compares with BASELINE.json's stable_pass list, then runs the named quick
# checks against the changed tree (VERIF_REPO).  The scratch worktree is removed at the end.
W=$1; shift
TESTS=0; [ "$1" = "--tests" ] && { TESTS=1; shift; }
cd /verif || exit 2
wt=/tmp/rs/$W
mkdir -p /tmp/rs out/triage
git -C /repo worktree remove --force $wt >/dev/null 2>&1; rm -rf $wt $wt.out
git -C /repo worktree add --detach -f $wt HEAD >/dev/null 2>&1 || { echo "$W: WORKTREE FAILED"; exit 2; }
git -C $wt apply /tmp/sa/$W/patch.diff || { echo "$W: PATCH DOES NOT APPLY"; git -C /repo worktree remove --force $wt; exit 2; }
PYTHONPATH=/repo OMP_NUM_THREADS=2 timeout 600 /venv/bin/python /tmp/sa/$W/demo.py > out/triage/${W}_demo_clean.log 2>&1; echo "$W: demo clean exit $?"
PYTHONPATH=$wt OMP_NUM_THREADS=2 timeout 600 /venv/bin/python /tmp/sa/$W/demo.py > out/triage/${W}_demo_patched.log 2>&1; echo "$W: demo patched exit $?"
if [ $TESTS = 1 ]; then
  (cd $wt && env -u XITORCH_VERIF OMP_NUM_THREADS=2 MKL_NUM_THREADS=2 /venv/bin/python -m pytest -ra -q -p no:cacheprovider --timeout=900 --continue-on-collection-errors --junitxml=/verif/out/triage/${W}_tests.xml > /verif/out/triage/${W}_tests.log 2>&1)
  /venv/bin/python - out/triage/${W}_tests.xml $W <<'PY'
import json, sys
import xml.etree.ElementTree as ET
b = json.load(open('/root/.vp/BASELINE.json'))
passed = set()
for tc in ET.parse(sys.argv[1]).getroot().iter('testcase'):
    if not any(ch.tag in ('failure', 'error', 'skipped') for ch in tc):
        passed.add("%s::%s" % (tc.get('classname'), tc.get('name')))
missing = [t for t in b['stable_pass'] if t not in passed]
print("%s: tests %s %d/%d of the baseline pass" % (sys.argv[2], "OK" if not missing else "BROKEN", len(b['stable_pass']) - len(missing), len(b['stable_pass'])))
for t in missing[:10]:
    print("   missing:", t)
PY
fi
for c in "$@"; do
  VERIF_REPO=$wt VERIF_EVIDENCE_DIR=$wt.out VERIF_REPLAY_DIR=$wt.out ./check $c --tier quick > out/triage/${W}_$c.log 2>&1; rc=$?
  echo "$W: $c rc=$rc $(grep -c '^VIOLATION' out/triage/${W}_$c.log) violation lines"; grep "key=" out/triage/${W}_$c.log | head -3 | cut -c1-300
done
git -C /repo worktree remove --force $wt >/dev/null 2>&1; rm -rf $wt $wt.out
