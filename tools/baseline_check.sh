#!/bin/sh
# Runs the repository's test suite with the hook guard OFF and compares with BASELINE.json's stable_pass list.
# usage: tools/baseline_check.sh [logfile]   -> prints "BASELINE OK n/448" or the missing tests
OUT=${1:-/tmp/baseline_check}
cd /repo && env -u XITORCH_VERIF OMP_NUM_THREADS=2 MKL_NUM_THREADS=2 /venv/bin/python -m pytest -ra -q -p no:cacheprovider --timeout=900 --continue-on-collection-errors --junitxml=$OUT.xml > $OUT.log 2>&1
/venv/bin/python - "$OUT.xml" <<'PY'
import json, sys
import xml.etree.ElementTree as ET
b = json.load(open('/root/.vp/BASELINE.json'))
passed = set()
for tc in ET.parse(sys.argv[1]).getroot().iter('testcase'):
    if not any(ch.tag in ('failure', 'error', 'skipped') for ch in tc):
        passed.add("%s::%s" % (tc.get('classname'), tc.get('name')))
missing = [t for t in b['stable_pass'] if t not in passed]
print("BASELINE %s %d/%d passed-in-baseline; total passed now %d" % ("OK" if not missing else "BROKEN", len(b['stable_pass']) - len(missing), len(b['stable_pass']), len(passed)))
for t in missing[:40]:
    print("  missing:", t)
PY
