#!/venv/bin/python
"""Exact-string replacement in a /repo source file that keeps the file's line endings (the sources use CRLF).
usage: repo_edit.py FILE <<< JSON list of [old, new] pairs (written with \n; converted to the file's convention)"""
import json
import sys


def edit(path, pairs):
    raw = open(path, newline="").read()
    crlf = "\r\n" in raw
    for old, new in pairs:
        if crlf:
            old = old.replace("\r\n", "\n").replace("\n", "\r\n")
            new = new.replace("\r\n", "\n").replace("\n", "\r\n")
        if raw.count(old) != 1:
            raise SystemExit("pattern occurs %d times in %s: %r" % (raw.count(old), path, old[:80]))
        raw = raw.replace(old, new)
    with open(path, "w", newline="") as f:
        f.write(raw)


if __name__ == "__main__":
    edit(sys.argv[1], json.load(sys.stdin))
