#!/bin/sh
# usage: tools/try_seed_wt.sh <patch.diff> <demo.py> C09 C10 ...
# like try_seed.sh, but on a scratch worktree of /repo under /tmp/rs (VERIF_REPO): /repo and /verif/evidence are not touched, so it can
# run next to other checks.
P=$1; D=$2; shift 2
id=$(basename $(dirname $P))_$$
wt=/tmp/rs/$id
mkdir -p /tmp/rs
git -C /repo worktree add --detach -f $wt HEAD >/dev/null 2>&1 || { echo "worktree failed"; exit 2; }
echo "== demo on clean tree"; PYTHONPATH=$wt /venv/bin/python $D > /tmp/seed_demo_clean_$$.log 2>&1; echo "exit $?"
if git -C $wt apply $P; then
  echo "== demo on patched tree"; PYTHONPATH=$wt /venv/bin/python $D > /tmp/seed_demo_patched_$$.log 2>&1; echo "exit $?"
  cd /verif
  for c in "$@"; do
    VERIF_REPO=$wt VERIF_EVIDENCE_DIR=$wt.out VERIF_REPLAY_DIR=$wt.out ./check $c --tier quick > /tmp/seed_${c}_$$.log 2>&1; rc=$?
    echo "== $c rc=$rc $(grep -c '^VIOLATION' /tmp/seed_${c}_$$.log) violation lines"; grep "key=" /tmp/seed_${c}_$$.log | head -3 | cut -c1-260
  done
else echo "patch does not apply"; fi
git -C /repo worktree remove --force $wt >/dev/null 2>&1; rm -rf $wt $wt.out /tmp/seed_*_$$.log
