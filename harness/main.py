import argparse
import importlib
import json
import os
import sys
import traceback

from vlib.ctx import Ctx, Machinery


def main():
    ap = argparse.ArgumentParser()
    ap.add_argument("prop")
    ap.add_argument("--tier", default=os.environ.get("VERIF_TIER", "quick"), choices=["quick", "thorough"])
    ap.add_argument("--replay", default=None)
    a = ap.parse_args()
    seed = int(os.environ.get("VERIF_SEED", "0"))
    prop = a.prop.upper()
    mod = importlib.import_module("props.%s" % prop.lower())
    if a.replay:
        data = json.load(open(a.replay))
        rc = mod.replay(data)
        sys.exit(rc)
    ctx = Ctx(prop, a.tier, seed)
    try:
        if a.tier == "thorough":
            # as many passes with consecutive seeds as fit into the budget (every pass uses the thorough bounds of the module)
            import time
            budget = float(os.environ.get("VERIF_THOROUGH_BUDGET", "900"))
            maxp = int(os.environ.get("VERIF_THOROUGH_PASSES", "6"))
            ctx.defer = True
            k = 0
            while True:
                ctx.seed = seed + k
                t1 = time.time()
                mod.run(ctx)
                k += 1
                if k >= maxp or (time.time() - ctx.t0) + (time.time() - t1) > budget:
                    break
            ctx.defer = False
            ctx.seed = seed
            ctx.notes.update(passes=k, seeds=list(range(seed, seed + k)))
            rc = ctx.finish(*ctx._deferred)
        else:
            rc = mod.run(ctx)
    except Machinery as e:
        print("MACHINERY-FAILURE %s: %s" % (prop, e))
        sys.exit(2)
    except Exception:
        traceback.print_exc()
        print("MACHINERY-FAILURE %s: unexpected exception" % prop)
        sys.exit(2)
    sys.exit(rc)


if __name__ == "__main__":
    main()
