import argparse
import importlib
import json
import os
import sys
import traceback

from vlib.ctx import Ctx, Machinery


def main():
    ap = argparse.ArgumentParser()
    ap.add_argument("prop")
    ap.add_argument("--tier", default=os.environ.get("VERIF_TIER", "quick"), choices=["quick", "thorough"])
    ap.add_argument("--replay", default=None)
    a = ap.parse_args()
    seed = int(os.environ.get("VERIF_SEED", "0"))
    prop = a.prop.upper()
    mod = importlib.import_module("props.%s" % prop.lower())
    if a.replay:
        data = json.load(open(a.replay))
        rc = mod.replay(data)
        sys.exit(rc)
    ctx = Ctx(prop, a.tier, seed)
    try:
        if a.tier == "thorough":
            # as many passes with consecutive seeds as fit into the budget (every pass uses the thorough bounds of the module)
            import time
            budget = float(os.environ.get("VERIF_THOROUGH_BUDGET", "900"))
            maxp = int(os.environ.get("VERIF_THOROUGH_PASSES", "6"))
            ctx.defer = True
            k = 0
            while True:
                ctx.seed = seed + k
                t1 = time.time()
                mod.run(ctx)
                k += 1
                if k >= maxp or (time.time() - ctx.t0) + (time.time() - t1) > budget:
                    break
            ctx.defer = False
            ctx.seed = seed
            ctx.notes.update(passes=k, seeds=list(range(seed, seed + k)))
            rc = ctx.finish(*ctx._deferred)
        else:
            rc = mod.run(ctx)
    except Machinery as e:
        print("MACHINERY-FAILURE %s: %s" % (prop, e))
        sys.exit(2)
    except Exception as e:
        traceback.print_exc()
        if ctx.evaluations > 0:
            # The model-checking phase is over and implementation cases were already being executed: the code that observes the
            # implementation (written against the behaviour of the unchanged tree, where it never fails - see the seed sweeps in
            # DESIGN 8.1) could not make sense of what it saw.  That is a change of observable behaviour, reported as such.
            ctx.defer = False
            ctx.violation("observation-failed/%s" % type(e).__name__,
                          "the observation of the implementation's behaviour failed after %d cases: %s: %s (traceback above)"
                          % (ctx.evaluations, type(e).__name__, str(e)[:300]), {"exception": type(e).__name__})
            sys.exit(ctx.finish(getattr(ctx, "_deferred", ("(aborted)",))[0]))
        print("MACHINERY-FAILURE %s: unexpected exception" % prop)
        sys.exit(2)
    sys.exit(rc)


if __name__ == "__main__":
    main()
