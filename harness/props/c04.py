"""C04 - implicit gradients of rootfinder / equilibrium / minimize are exact.

Spec: ImplicitGrad.tla (kind "root"): rational instances f(y; p, q, r) = p y^2 + q y - r with an integer root, for which
TLC computes dy/dr, dy/dp, dy/dq, d2y/dr2, d2y/dq dr over Q by the implicit function theorem and cross-checks them with
the differentiated identity.  The instances are replayed on the real rootfinder / equilibrium / minimize for forward x
backward method pairs; a table (function families x parameter placement x methods x sizes) is compared with Newton
steps unrolled in plain torch from the detached solution; the inner backward solve is probed.
"""
import json
import math
import random
import warnings
from fractions import Fraction

import torch
import xitorch
import xitorch.optimize
from torch.autograd.functional import jacobian as tjac

from vlib import tlc as tlcmod
from vlib.ctx import Machinery
from vlib.problems import Repr, base_tensors, MATH
from props.c02 import tlc_instances, fr

DT = torch.float64
FWD = {"newton": {}, "broyden1": {}, "broyden2": {}, "linearmixing": {}}
TIGHTF = {"f_tol": 1e-13, "x_tol": 1e-13, "maxiter": 500}


def exact_replay(ctx, insts, thorough):
    n = 0
    for st in insts:
        inst, pred = st["inst"], st["pred"]
        p0, q0, y0i = int(inst["p"]), int(inst["q"]), int(inst["y0"])
        r0 = int(pred["r"])
        fy = 2 * p0 * y0i + q0
        combos = [("rootfinder", "newton", None), ("rootfinder", "broyden1", "bicgstab"), ("equilibrium", "broyden1", None), ("rootfinder", "broyden2", None)]
        if fy > 0:
            combos.append(("minimize", "broyden1", None))
        if thorough:
            combos += [("rootfinder", "linearmixing", None), ("equilibrium", "newton", "bicgstab")]
        for functional, fm, bm in combos:
            n += 1
            p = torch.tensor(float(p0), dtype=DT, requires_grad=True)
            q = torch.tensor(float(q0), dtype=DT, requires_grad=True)
            r = torch.tensor(float(r0), dtype=DT, requires_grad=True)
            start = torch.tensor([y0i + 0.2], dtype=DT)
            ctx.case(key=("exact", p0, q0, y0i, functional, fm, bm),
                     sample={"f": "p*y^2 + q*y - r", "p": p0, "q": q0, "r": r0, "root": y0i, "functional": functional, "fwd": fm, "bwd": bm,
                             "spec": {k: str(fr(pred[k])) for k in ("yr", "yp", "yq", "yrr", "yqr")}} if n % 25 == 1 else None)
            why = None
            try:
                kw = dict(TIGHTF)
                if fm == "linearmixing":
                    kw["alpha"] = -1.0 / fy
                if bm is not None:
                    kw["bck_options"] = {"method": bm, "rtol": 1e-13, "atol": 1e-15}
                with warnings.catch_warnings():
                    warnings.simplefilter("ignore")
                    if functional == "rootfinder":
                        y = xitorch.optimize.rootfinder(lambda y_, p_, q_, r_: p_ * y_ ** 2 + q_ * y_ - r_, start, params=(p, q, r), method=fm, **kw)
                    elif functional == "equilibrium":
                        a = 0.5 / fy
                        y = xitorch.optimize.equilibrium(lambda y_, p_, q_, r_: y_ - a * (p_ * y_ ** 2 + q_ * y_ - r_), start, params=(p, q, r), method=fm, **kw)
                    else:
                        y = xitorch.optimize.minimize(lambda y_, p_, q_, r_: (p_ * y_ ** 3 / 3 + q_ * y_ ** 2 / 2 - r_ * y_).sum(), start, params=(p, q, r), method=fm, **kw)
                if abs(float(y) - y0i) > 1e-9:
                    continue      # converged to the other root / not converged: forward behaviour is C03's business
                g1 = torch.autograd.grad(y.sum(), [p, q, r], create_graph=True)
                exp1 = [float(fr(pred[k])) for k in ("yp", "yq", "yr")]
                for nm, a_, b_ in zip(("dy/dp", "dy/dq", "dy/dr"), g1, exp1):
                    if abs(float(a_) - b_) > 1e-8 * max(1.0, abs(b_)):
                        why = "%s = %r, implicit function theorem gives exactly %s" % (nm, float(a_), Fraction(b_).limit_denominator(10 ** 6))
                        break
                if why is None:
                    h = torch.autograd.grad(g1[2], [q, r], allow_unused=True)
                    for nm, a_, k in zip(("d2y/dq dr", "d2y/dr2"), h, ("yqr", "yrr")):
                        b_ = float(fr(pred[k]))
                        av = 0.0 if a_ is None else float(a_)
                        if abs(av - b_) > 1e-7 * max(1.0, abs(b_)):
                            why = "%s = %r, exact %s" % (nm, av, fr(pred[k]))
                            break
            except Exception as e:
                why = "raised %s: %s" % (type(e).__name__, str(e)[:140])
            if why:
                ctx.violation("rootgrad/exact/%s/%s/%s" % (functional, fm, bm), "%s of p y^2 + q y - r (p=%d q=%d r=%d, root %d), forward %s, backward %s: %s"
                              % (functional, p0, q0, r0, y0i, fm, bm or "default", why), {"p": p0, "q": q0, "y0": y0i, "functional": functional})
    return n


def newton_reference(fmath, ystar, leaves_fn, steps=3):
    """y* (detached) improved by `steps` Newton steps written in plain torch: carries the exact first and second derivatives"""
    y = ystar.detach()
    for _ in range(steps):
        f = fmath(y)
        J = tjac(fmath, y, create_graph=True)
        y = y - torch.linalg.solve(J, f)
    return y


def table(ctx, thorough):
    n = 0
    kinds = ["pure", "nn", "edit", "mixed"] + (["editnn", "sib", "msib", "msib3"] if thorough else ["msib3"])
    for size in ((3, 7) if True else (3,)):
        W, c = base_tensors(ctx.seed, n=size)
        for functional, mname in (("rootfinder", "root"), ("equilibrium", "equil"), ("minimize", "obj")):
            for fm in (["newton", "broyden1", "broyden2"] + (["linearmixing"] if thorough else [])) if functional != "equilibrium" else ["anderson_acc", "broyden1"]:
                for bm in (None, "bicgstab", "cg") if (thorough or fm in ("broyden1", "anderson_acc")) else (None,):
                    if bm == "cg" and functional != "minimize":
                        continue      # the Jacobian is symmetric only for minimize (Hessian)
                    for kind in kinds:
                        n += 1
                        ctx.case(key=("table", size, functional, fm, bm, kind))
                        R = Repr(kind, W, c)
                        why = None
                        try:
                            kw = {"f_tol": 1e-12, "x_tol": 1e-12, "maxiter": 2000, "method": fm}
                            if fm == "linearmixing":
                                kw["alpha"] = -1.0
                            if bm is not None:
                                kw["bck_options"] = {"method": bm, "rtol": 1e-13, "atol": 1e-15, "max_niter": 200}
                            y0a = torch.zeros(size, dtype=DT)
                            y0b = torch.full((size,), 0.3, dtype=DT).requires_grad_()
                            with warnings.catch_warnings():
                                warnings.simplefilter("ignore")
                                fn = getattr(xitorch.optimize, functional)
                                y = fn(R.fn(mname), y0a, params=R.params, **kw)
                                yb = fn(R.fn(mname), y0b, params=R.params, **kw)
                            Wl, cl = R.leaves
                            if functional == "minimize":
                                fm_ = lambda yy: torch.autograd.grad(MATH["obj"](yy, Wl, cl, R.s), yy, create_graph=True)[0] if yy.requires_grad else None
                                fmath = lambda yy: (yy - cl) + R.s * (Wl.T @ torch.tanh(Wl @ yy))
                            elif functional == "rootfinder":
                                fmath = lambda yy: MATH["root"](yy, Wl, cl, R.s)
                            else:
                                fmath = lambda yy: yy - MATH["equil"](yy, Wl, cl, R.s)
                            yref = newton_reference(fmath, y, None)
                            wv = torch.cos(torch.arange(size, dtype=DT) * 1.3 + 0.4)
                            g1 = torch.autograd.grad((y * wv).sum(), R.leaves, create_graph=True, allow_unused=True)
                            r1 = torch.autograd.grad((yref * wv).sum(), R.leaves, create_graph=True, allow_unused=True)
                            gb = torch.autograd.grad((yb * wv).sum(), R.leaves + [y0b], allow_unused=True, retain_graph=True)
                            # default backward solver for > 5 unknowns is iterative with rtol 1e-6: the result may differ by that tolerance
                            t1 = 1e-8 if (bm is not None or size <= 5) else 2e-5
                            if float((y - yref).abs().max()) > 1e-9:
                                why = "returned point is not the solution (|y - y_newton| = %.2e)" % float((y - yref).abs().max())
                            for nm, a, b in zip(("W", "c"), g1, r1):
                                if why:
                                    break
                                if a is None or not torch.allclose(a, b, atol=t1, rtol=10 * t1):
                                    why = "first-order gradient w.r.t. %s differs from the implicit-function value by %s" % (nm, "None" if a is None else "%.2e" % float((a - b).abs().max()))
                            if why is None and (gb[2] is not None and float(gb[2].abs().max()) != 0.0):
                                why = "the initial guess received a non-zero gradient"
                            if why is None and not all(torch.allclose(a, b, atol=t1, rtol=10 * t1) for a, b in zip(gb[:2], r1)):
                                why = "gradient depends on the initial guess"
                            if why is None:
                                s1 = sum((a ** 2).sum() for a in g1)
                                s2 = sum((b ** 2).sum() for b in r1)
                                h1 = torch.autograd.grad(s1, R.leaves, allow_unused=True, retain_graph=True)
                                h2 = torch.autograd.grad(s2, R.leaves, allow_unused=True, retain_graph=True)
                                for nm, a, b in zip(("W", "c"), h1, h2):
                                    a = torch.zeros_like(b) if a is None else a
                                    if not torch.allclose(a, b, atol=100 * t1 * (1 + float(b.abs().max())), rtol=100 * t1):
                                        why = "second-order gradient w.r.t. %s differs from the implicit-function value by %.2e (rel %.2e)" % (
                                            nm, float((a - b).abs().max()), float((a - b).abs().max() / (b.abs().max() + 1e-30)))
                                        break
                        except Exception as e:
                            why = "raised %s: %s" % (type(e).__name__, str(e)[:140])
                        if why:
                            ctx.violation("rootgrad/table/%s/%s/%s/%s" % (functional, kind, "dense-bwd" if bm is None and size <= 5 else "iterative-bwd", "order2" if "second" in why else "order1"),
                                          "%s(%s, backward %s) on the %s representation, %d unknowns: %s" % (functional, fm, bm or "default", kind, size, why),
                                          {"functional": functional, "fm": fm, "bm": bm, "kind": kind, "size": size})
    return n


def probe(ctx):
    n = 0
    W, c = base_tensors(ctx.seed, n=4)
    for functional, mname in (("rootfinder", "root"), ("equilibrium", "equil"), ("minimize", "obj")):
        n += 1
        ctx.case(key=("probe", functional))
        R = Repr("edit", W, c)
        seen = []

        def pm(A_, B_, E_, M_, **kw):
            seen.append((A_.fullmatrix().detach().clone(), sorted(kw), E_, M_))
            return torch.linalg.solve(A_.fullmatrix(), B_)
        with warnings.catch_warnings():
            warnings.simplefilter("ignore")
            y = getattr(xitorch.optimize, functional)(R.fn(mname), torch.zeros(4, dtype=DT), params=R.params, f_tol=1e-12, x_tol=1e-12, fwdflag=3,
                                                       bck_options={"method": pm, "bcktag": 1})
            g = torch.autograd.grad(y.sum(), R.leaves + [torch.zeros(0, requires_grad=True)][:0], allow_unused=True)
        Wl, cl = R.leaves
        if functional == "minimize":
            fmath = lambda yy: (yy - cl) + R.s * (Wl.T @ torch.tanh(Wl @ yy))
        elif functional == "rootfinder":
            fmath = lambda yy: MATH["root"](yy, Wl, cl, R.s)
        else:
            fmath = lambda yy: yy - MATH["equil"](yy, Wl, cl, R.s)
        J = tjac(fmath, y.detach())
        why = None
        if len(seen) != 1:
            why = "backward method called %d times" % len(seen)
        elif not torch.allclose(seen[0][0], J.T, atol=1e-9):
            why = "the backward solve does not use the transposed Jacobian at the returned point"
        elif "bcktag" not in seen[0][1]:
            why = "backward options not delivered (saw %s)" % seen[0][1]
        elif "fwdflag" in seen[0][1] or "f_tol" in seen[0][1]:
            why = "forward options leaked into the backward solve (saw %s)" % seen[0][1]
        if why:
            ctx.violation("rootgrad/probe/%s" % functional, "%s backward probe: %s" % (functional, why), {"functional": functional})
    return n


def run(ctx):
    thorough = ctx.tier == "thorough"
    insts = tlc_instances(ctx, "root")
    ne = exact_replay(ctx, insts, thorough)
    nt = table(ctx, thorough)
    npb = probe(ctx)
    from vlib import gradpattern
    ngp = gradpattern.replay(ctx, ["rootfinder", "equilibrium", "minimize"], "rootgrad")
    from vlib import objstate
    ngp += objstate.replay(ctx, ["rootfinder", "equilibrium", "minimize"], "rootgrad")
    from vlib import bwdreuse
    ngp += bwdreuse.replay(ctx, ["rootfinder", "equilibrium", "minimize"], "rootgrad", sample=(120 if ctx.tier == "thorough" else 20))
    from vlib import bckhistory
    ngp += bckhistory.replay(ctx, ["rootfinder", "equilibrium", "minimize"], "rootgrad", 3 if ctx.tier == "thorough" else 2)
    ctx.replayed = ne + ngp
    ctx.notes.update(exact_instances=len(insts), exact_cases=ne, table_cases=nt, probe_cases=npb)
    ctx.assumptions += [
        "exact part: scalar quadratic with an integer root; the forward solve starts 0.2 away from that root; runs that end at the other root are skipped (forward behaviour is C03's)",
        "table: reference = 3 Newton steps unrolled in plain torch from the detached solution (exact first and second derivatives at a quadratically convergent fixed point); 3 unknowns (dense backward solve) and 7 unknowns (iterative default), backward bicgstab / cg (cg only for minimize: symmetric Hessian)",
        "TLC, SANY"]
    return ctx.finish(rule="case = (p, q, root, functional, forward method, backward method) exact | (size, functional, forward, backward, parameter placement) table with order 1, 2, independence of the initial guess | backward probe")


def replay(data):
    print(data["what"])
    return 1
