"""C13 - quad gradients in parameters and limits match the forward rule's accuracy.

Spec: QuadCfg.tla (backward part: evaluation counts with the provenance of n, gradient pattern, "never an error" for
every form of the limits and for unused tensors).  Every TLC-enumerated configuration is executed and differentiated
on the real quad with a counting integrand; gradient values are compared with the same Gauss rule applied to the
closed-form parameter derivative and with the Leibniz rule, to first and second order.
"""
import math
import warnings

import numpy as np
import torch
import xitorch
import xitorch.integrate
from xitorch import EditableModule

from vlib import tlc as tlcmod
from vlib.ctx import Machinery
from props.c12 import enumerate_cfgs, make_limit, make_param, Counting, NF, NB, ND, LO, HI, QC_BASE, QC_INVS

DT = torch.float64


def gauss(fun, lo, hi, n):
    """plain-torch n-point Gauss-Legendre on [lo, hi] (tan substitution for infinite limits), differentiable in everything"""
    tg, wg = np.polynomial.legendre.leggauss(n)
    tg = torch.tensor(tg, dtype=DT)
    wg = torch.tensor(wg, dtype=DT)
    lo_t = torch.as_tensor(lo, dtype=DT)
    hi_t = torch.as_tensor(hi, dtype=DT)
    if bool(torch.isinf(lo_t)) or bool(torch.isinf(hi_t)):
        tl, tu = torch.atan(lo_t), torch.atan(hi_t)
        t = tg * 0.5 * (tu - tl) + 0.5 * (tu + tl)
        x = torch.tan(t)
        w = wg * 0.5 * (tu - tl) / torch.cos(t) ** 2
    else:
        x = tg * 0.5 * (hi_t - lo_t) + 0.5 * (hi_t + lo_t)
        w = wg * 0.5 * (hi_t - lo_t)
    return sum(w[i] * fun(x[i]) for i in range(n))


class Holder(EditableModule):
    def __init__(self, a, junk):
        self.a = a
        self.junk = junk

    def f(self, x, b):
        xx = torch.as_tensor(x, dtype=DT)
        return torch.exp(-self.a * xx ** 2) * b + torch.sin(self.a * b * xx)

    def getparamnames(self, methodname, prefix=""):
        if methodname == "f":
            return [prefix + "a", prefix + "junk"]
        raise KeyError(methodname)


def run(ctx):
    thorough = ctx.tier == "thorough"
    states = enumerate_cfgs(ctx, "bwd")
    for sw in ("BckForwarded", "KindRemembered", "AllowUnused", "EmptyParamsOk"):
        c = dict(QC_BASE)
        c[sw] = False
        t, cf = tlcmod.gen_mc(ctx.work, "QuadCfg", "MC_QC_dev_" + sw, c, invariants=QC_INVS)
        ctx.expect_violation(t, cf, label="deviation " + sw, workers=4, timeout=300)
    n = 0
    with warnings.catch_warnings():
        warnings.simplefilter("ignore")
        for st in states:
            n += 1
            key = tuple(st[k] for k in ("xlKind", "xuKind", "xlInf", "xuInf", "nGiven", "bckGiven", "hasUnused", "aKind"))
            pred = st["pred"]
            ctx.case(key=key, sample={"cfg": dict(zip(("xlKind", "xuKind", "xlInf", "xuInf", "nGiven", "bckGiven", "hasUnused", "aKind"), key)), "spec": pred} if n % 37 == 1 else None)
            cnt = Counting()
            xl = make_limit(st["xlKind"], st["xlInf"], -1, LO)
            xu = make_limit(st["xuKind"], st["xuInf"], +1, HI)
            a = make_param(st["aKind"], 0.8)
            junk = torch.tensor(0.1, dtype=DT, requires_grad=True)
            params = (a, junk) if st["hasUnused"] else (a,)
            kw = {}
            if st["nGiven"]:
                kw["n"] = NF
            if st["bckGiven"]:
                kw["bck_options"] = {"n": NB}
            label = "limits (%s%s, %s%s), n %s, bck_options %s, unused tensor %s, coefficient passed as %s" % (
                st["xlKind"], " inf" if st["xlInf"] else "", st["xuKind"], " inf" if st["xuInf"] else "",
                "given" if st["nGiven"] else "default", "given" if st["bckGiven"] else "absent", st["hasUnused"], st["aKind"])
            hasA = st["aKind"] == "tensor_grad"
            try:
                out = xitorch.integrate.quad(cnt, xl, xu, params=params, **kw)
                nf = len(cnt.xs)
                if bool(out.requires_grad) != bool(pred["needsBwd"]):
                    ctx.violation("quad/bwd/requires-grad", "quad with %s: result %s a graph, specification says %s" % (label, "carries" if out.requires_grad else "does not carry", pred["needsBwd"]),
                                  {"cfg": str(key)})
                    continue
                if not pred["needsBwd"]:
                    continue
                leaves = ([a] if hasA else []) + ([junk] if st["hasUnused"] else []) + [x for x in (xl, xu) if isinstance(x, torch.Tensor) and x.requires_grad]
                g = list(torch.autograd.grad(out.sum(), leaves, allow_unused=True))
                if not hasA:
                    g = [None] + g
            except Exception as e:
                num = st["xlKind"] == "number" or st["xuKind"] == "number"
                kk = "quad/bwd/unused-tensor-raises" if (st["hasUnused"] and "not have been used" in str(e)) else \
                     ("quad/bwd/number-limit-raises" if num else
                      "quad/bwd/no-tensor-parameter-raises" if (st["aKind"] == "number" and not st["hasUnused"]) else "quad/bwd/raise")
                ctx.violation(kk, "differentiating quad with %s raised %s: %s" % (label, type(e).__name__, str(e)[:160]), {"cfg": str(key)})
                continue
            nb = len(cnt.xs) - nf
            why = None
            nbq = NB if st["bckGiven"] else (NF if st["nGiven"] else ND)
            # allowed: the limit term of every tensor limit or only of those requiring grad; the parameter integral (probe + n_bck
            # nodes) whenever a tensor parameter requires grad, optional when none does
            ok_counts = set()
            for lt in range(sum(1 for k_ in (st["xlKind"], st["xuKind"]) if k_.endswith("_grad")), sum(1 for k_ in (st["xlKind"], st["xuKind"]) if k_ != "number") + 1):
                ok_counts.add(lt + 1 + nbq)
                if not (hasA or st["hasUnused"]):
                    ok_counts.add(lt)
            if not (pred["bwdEvalsMin"] <= pred["bwdEvals"] and pred["bwdEvals"] in ok_counts and pred["bwdEvalsMin"] in ok_counts):
                raise Machinery("QuadCfg evaluation counts %s / %s outside the harness's admissible set %s" % (pred["bwdEvalsMin"], pred["bwdEvals"], sorted(ok_counts)))
            if nb not in ok_counts:
                why = ("backward pass evaluated the integrand %d times, specification %s (limit terms + probe + n_bck with n_bck = %s)"
                       % (nb, sorted(ok_counts), nbq))
                kk = "quad/bwd/options-not-forwarded"
            else:
                # values: same rule on the closed-form derivative; Leibniz terms
                nb_ = NB if st["bckGiven"] else (NF if st["nGiven"] else ND)
                lo = -math.inf if st["xlInf"] else LO
                hi = math.inf if st["xuInf"] else HI
                aa = torch.as_tensor(a, dtype=DT).detach()
                dfa = lambda x: (-x ** 2 * torch.exp(-aa * x ** 2) * (aa + aa ** 2) + torch.exp(-aa * x ** 2) * (1 + 2 * aa))
                ref_a = float(gauss(dfa, lo, hi, nb_))
                kk = "quad/bwd/value"
                if hasA and abs(float(g[0]) - ref_a) > 1e-9 * max(1.0, abs(ref_a)):
                    why = "d/da = %r, the same %d-point rule on the derivative of the integrand gives %r" % (float(g[0]), nb_, ref_a)
                fval = lambda x: float((math.exp(-0.8 * x * x) * (0.8 + 0.64)) if not math.isinf(x) else 0.0)
                idx = 1 + (1 if st["hasUnused"] else 0)
                if st["hasUnused"] and not (g[1] is None or float(g[1]) == 0.0):
                    why = "unused tensor received gradient %r" % float(g[1])
                for lk, nm_ in ((st["xlKind"], "xl"), (st["xuKind"], "xu")):
                    gi_ = g[idx] if lk.endswith("_grad") else None
                    if gi_ is not None:
                        idx += 1
                        want = torch.float32 if lk == "tensor32_grad" else DT
                        if gi_.dtype != want:
                            why = "the gradient w.r.t. %s has dtype %s, the limit has %s" % (nm_, gi_.dtype, want)
                idx = 1 + (1 if st["hasUnused"] else 0)
                tl32 = 1e-6
                if st["xlKind"].endswith("_grad"):
                    if abs(float(g[idx]) + fval(lo)) > (tl32 if st["xlKind"] == "tensor32_grad" else 1e-12):
                        why = "d/dxl = %r, Leibniz rule gives %r" % (float(g[idx]), -fval(lo))
                    idx += 1
                if st["xuKind"].endswith("_grad"):
                    if abs(float(g[idx]) - fval(hi)) > (tl32 if st["xuKind"] == "tensor32_grad" else 1e-12):
                        why = "d/dxu = %r, Leibniz rule gives %r" % (float(g[idx]), fval(hi))
            if why:
                ctx.violation(kk, "quad with %s: %s" % (label, why), {"cfg": str(key)})
        # only the limits are differentiable (the integrand has no tensor parameter at all, or numbers only): Leibniz rule to second order
        for pkind in ("none", "number", "tensor-without-grad"):
            for lims in ((-0.3, 1.1), (1.0, -0.5)):
                n += 1
                ctx.case(key=("limits-only", pkind, lims))
                xl = torch.tensor(lims[0], dtype=DT, requires_grad=True)
                xu = torch.tensor(lims[1], dtype=DT, requires_grad=True)
                ps = {"none": (), "number": (1.3,), "tensor-without-grad": (torch.tensor(1.3, dtype=DT),)}[pkind]
                fm = lambda x, c=1.3: torch.sin(c * x) * torch.exp(-0.5 * x)
                fi = lambda x, *c: fm(torch.as_tensor(x, dtype=DT), *c).reshape(1)
                why = None
                try:
                    out = xitorch.integrate.quad(fi, xl, xu, params=ps, n=9)
                    g1 = torch.autograd.grad(out.sum(), [xl, xu], create_graph=True)
                    xr = [xl.detach().clone().requires_grad_(), xu.detach().clone().requires_grad_()]
                    fr = [fm(xr[0]), fm(xr[1])]
                    dfr = [torch.autograd.grad(fr[0], xr[0])[0], torch.autograd.grad(fr[1], xr[1])[0]]
                    if abs(float(g1[0]) + float(fr[0])) > 1e-12 or abs(float(g1[1]) - float(fr[1])) > 1e-12:
                        why = "(d/dxl, d/dxu) = (%r, %r), Leibniz rule gives (%r, %r)" % (float(g1[0]), float(g1[1]), -float(fr[0]), float(fr[1]))
                    else:
                        h = torch.autograd.grad(g1[0] + 2.0 * g1[1], [xl, xu], allow_unused=True)
                        h = [0.0 if x is None else float(x) for x in h]
                        if abs(h[0] + float(dfr[0])) > 1e-11 or abs(h[1] - 2.0 * float(dfr[1])) > 1e-11:
                            why = "second derivatives w.r.t. the limits (%r, %r), Leibniz rule gives (-f'(xl), 2 f'(xu)) = (%r, %r)" % (h[0], h[1], -float(dfr[0]), 2.0 * float(dfr[1]))
                except Exception as e:
                    why = "raised %s: %s" % (type(e).__name__, str(e)[:160])
                if why:
                    ctx.violation("quad/bwd/limits-only", "quad with differentiable limits %s and parameters %s: %s" % (lims, pkind, why), {"pkind": pkind, "lims": list(lims)})
        # function kinds (object-held used and unused parameter), first and second order, several n / bck n
        for nf_, nb_ in ((7, None), (7, 5), (12, 30)) + (((3, 9), (20, None)) if thorough else ()):
            for lims in ((-0.3, 1.1), (1.0, -0.5), (-math.inf, 0.4)):
                n += 1
                ctx.case(key=("kinds", nf_, nb_, lims))
                a = torch.tensor(0.7, dtype=DT, requires_grad=True)
                b = torch.tensor(1.3, dtype=DT, requires_grad=True)
                junk = torch.tensor(0.2, dtype=DT, requires_grad=True)
                xl = torch.tensor(lims[0], dtype=DT, requires_grad=not math.isinf(lims[0]))
                xu = torch.tensor(lims[1], dtype=DT, requires_grad=True)
                H = Holder(a * 1.0, junk * 1.0)
                kw = {"n": nf_}
                if nb_ is not None:
                    kw["bck_options"] = {"n": nb_}
                leaves = [a, b, xu] + ([xl] if xl.requires_grad else [])
                nbe = nb_ if nb_ is not None else nf_
                try:
                    out = xitorch.integrate.quad(H.f, xl, xu, params=(b,), **kw)
                    g1 = torch.autograd.grad(out, leaves + [junk], create_graph=True, allow_unused=True)
                    # reference: forward rule with nf nodes for the value; gradient = rule with n_bck nodes on the derivative + Leibniz
                    fm = lambda x, a_=a, b_=b: torch.exp(-a_ * x ** 2) * b_ + torch.sin(a_ * b_ * x)
                    val = gauss(lambda x: fm(x), xl.detach(), xu.detach(), nf_)
                    ok = abs(float(out) - float(val)) < 1e-11
                    dI = gauss(lambda x: fm(x), xl.detach(), xu.detach(), nbe)         # differentiable in a, b
                    r_ab = torch.autograd.grad(dI, [a, b], create_graph=True)
                    why = None
                    if not ok:
                        why = "value %r differs from the %d-point rule %r" % (float(out), nf_, float(val))
                    for nm, x_, y_ in (("a", g1[0], r_ab[0]), ("b", g1[1], r_ab[1])):
                        if abs(float(x_) - float(y_)) > 1e-9 * max(1.0, abs(float(y_))):
                            why = "d/d%s = %r, the %d-point rule on the derivative gives %r" % (nm, float(x_), nbe, float(y_))
                    if abs(float(g1[2]) - float(fm(xu.detach()))) > 1e-12:
                        why = "d/dxu = %r, Leibniz rule gives %r" % (float(g1[2]), float(fm(xu.detach())))
                    if xl.requires_grad and abs(float(g1[3]) + float(fm(xl.detach()))) > 1e-12:
                        why = "d/dxl = %r, Leibniz rule gives %r" % (float(g1[3]), -float(fm(xl.detach())))
                    if not (g1[-1] is None or float(g1[-1]) == 0.0):
                        why = "unused object-held tensor received a gradient"
                    if why is None:
                        # second order: d/da of (d/db), d/dxu of (d/da), d/dxu of (d/dxu)
                        h = torch.autograd.grad(g1[1], [a, xu], allow_unused=True, retain_graph=True)
                        hr_a = torch.autograd.grad(r_ab[1], [a], retain_graph=True)[0]
                        xu_d = xu.detach().clone().requires_grad_()
                        dfdb_at_xu = torch.autograd.grad(fm(xu_d, a.detach(), b), b)[0] if False else None
                        bb = b.detach().clone().requires_grad_()
                        leib = torch.autograd.grad(fm(xu.detach(), a.detach(), bb), bb)[0]
                        if abs(float(h[0]) - float(hr_a)) > 1e-8 * max(1.0, abs(float(hr_a))):
                            why = "d2/da db = %r, rule on the second derivative gives %r" % (float(h[0]), float(hr_a))
                        elif h[1] is None or abs(float(h[1]) - float(leib)) > 1e-10:
                            why = "d2/dxu db = %r, Leibniz gives df/db(xu) = %r" % (None if h[1] is None else float(h[1]), float(leib))
                except Exception as e:
                    why = "raised %s: %s" % (type(e).__name__, str(e)[:160])
                if why:
                    kk = "quad/bwd/unused-tensor-raises" if "not have been used" in why else ("quad/bwd/options-not-forwarded" if "-point rule on the derivative" in why else "quad/bwd/kinds")
                    ctx.violation(kk, "quad of an EditableModule method, n=%s, bck n=%s, limits %s: %s" % (nf_, nb_, lims, why), {"n": nf_, "nb": nb_, "lims": lims})
    from vlib import gradpattern
    ctx.replayed = len(states) + gradpattern.replay(ctx, ["quad"], "quad")
    from vlib import objstate
    ctx.replayed += objstate.replay(ctx, ["quad"], "quad")
    from vlib import bwdreuse
    ctx.replayed += bwdreuse.replay(ctx, ["quad"], "quad", sample=(120 if ctx.tier == "thorough" else 20))
    from vlib import bckhistory
    ctx.replayed += bckhistory.replay(ctx, ["quad"], "quad", 3)
    ctx.notes.update(cases=n)
    ctx.exhaustive = True
    ctx.assumptions += [
        "integrand exp(-a x^2) (a, a^2) with closed-form derivative; reference gradient = the same Gauss rule (plain torch/numpy, tan substitution for infinite limits) applied to the derivative with n = bck_options.n if given else forward n",
        "backward evaluation count = (1 per limit requiring grad) + 1 probe + n_bck",
        "TLC, SANY"]
    return ctx.finish(rule="case = (limit kinds, infinite flags, n given, bck_options given, unused tensor present) for all 288 rows of the TLC table | (n, bck n, limits) on an EditableModule method with first and second order")


def replay(data):
    print(data["what"])
    return 1
