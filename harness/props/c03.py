"""C03 - rootfinder / equilibrium / minimize return a point meeting the stopping test.

Spec: RootLoop.tla (three loop skeletons).  TLC: exhaustive for maxiter <= 4, all residual/step class choices;
deviation switches give the counterexamples.  Code -> spec: every method x problem family x tolerance setting is
run with API-boundary observers (custom_terminator, user-function wrapper, warnings); the recorded events and the
verdicts obtained by re-inserting the RETURNED tensor into the user's function are validated by TLC against
Trace_RootLoop.tla.
"""
import json
import math
import warnings

import torch
import xitorch
import xitorch.optimize
from xitorch._impls.optimize.root.rootsolver import TerminationCondition

from vlib import tlc as tlcmod
from vlib.ctx import Machinery

DT = torch.float64
INVS = ["TypeOK", "SilentMeetsTol", "SilentReturnsTested", "NoRaiseAtRoot", "OptFallbackNoWorse", "WarnedIffNotConverged"]
NONLIN = ["newton", "broyden1", "broyden2", "linearmixing"]


# ----------------------------------------------------------------------------- problem families
class Problem(object):
    """f_root(y) = 0 has the unique solution ystar; contraction constant kappa < 1 of g = y - f_root"""

    def __init__(self, name, seed, n=3, dtype=DT, lead=()):
        """lead: leading (batch) dimensions of the unknown; the map acts on the last dimension"""
        g = torch.Generator().manual_seed(seed)
        self.name = name
        self.n = n
        self.dtype = dtype
        cplx = dtype.is_complex
        rd = torch.float64

        def rnd(*s):
            t = torch.randn(*s, generator=g, dtype=rd)
            if cplx:
                t = t + 1j * torch.randn(*s, generator=g, dtype=rd)
            return t.to(dtype)
        W = rnd(n, n)
        self.W = W / max(1.0, float(torch.linalg.matrix_norm(W, 2)))
        self.c = rnd(*lead, n) * 0.5
        self.lead = tuple(lead)
        self.kappa = {"tanh-weak": 0.2, "tanh-strong": 0.5, "linear": 0.4, "const": 0.0, "shift": 0.0, "atroot": 0.0, "logdom": 0.0}[name]
        self.y0 = torch.zeros(*lead, n, dtype=dtype)
        if name in ("shift", "atroot"):       # f(y) = y - 1 : every Newton-like first step lands exactly on the root
            self.c = torch.ones(*lead, n, dtype=dtype)
        if name == "atroot":                  # ... and here the initial guess already is the root
            self.y0 = torch.ones(*lead, n, dtype=dtype)
        k = self.kappa
        if name == "logdom":
            # f(y) = log(y) - c on y > 0, started far away: quasi-Newton steps leave the domain and the iterates become NaN;
            # a run that never recovers must end with the warning, never with a silently returned NaN
            self.c = torch.full((*lead, n), 0.5, dtype=dtype)
            self.y0 = torch.full((*lead, n), 20.0, dtype=dtype)
            self.g = lambda y: y - (torch.log(y) - self.c)
            self.ystar = torch.exp(self.c)
            self.ymin = None
            return
        if name in ("tanh-weak", "tanh-strong"):
            self.g = lambda y: self.c + k * torch.tanh(y @ self.W.T)
        elif name == "linear":
            self.g = lambda y: self.c + k * (y @ self.W.T)
        else:
            self.g = lambda y: self.c + 0 * y
        y = self.y0
        for _ in range(400):
            y = self.g(y)
        self.ystar = y
        self.ymin = None
        if not cplx and name not in ("shift", "atroot"):
            ym = self.c.clone()
            for _ in range(30):             # Newton on the gradient of the strongly convex objective
                yy = ym.clone().reshape(-1).requires_grad_()
                gr = torch.autograd.grad(self.obj(yy.reshape(self.y0.shape)), yy, create_graph=True)[0]
                H = torch.stack([torch.autograd.grad(gr[k], yy, retain_graph=True)[0] for k in range(yy.numel())])
                ym = (yy - torch.linalg.solve(H, gr)).detach().reshape(self.y0.shape)
            self.ymin = ym

    def root(self, y):
        return y - self.g(y)

    def obj(self, y):          # strongly convex (mu >= 1), real only
        return 0.5 * ((y - self.c) ** 2).sum() + self.kappa * torch.log(torch.cosh(y @ self.W.T)).sum()


def cls_res(v, tol):
    return "zero" if v == 0 else ("below" if v < tol else "above")


class Term(object):
    """custom_terminator: delegates to xitorch's own TerminationCondition and records what it was shown"""

    def __init__(self, f_tol, x_tol):
        self.inner = TerminationCondition(f_tol, None, 1.0, x_tol, None)
        self.f_tol = self.inner.f_tol
        self.x_tol = self.inner.x_tol
        self.log = []

    def check(self, x, y, dx):
        stop = bool(self.inner.check(x, y, dx))
        self.log.append((x.detach().clone(), float(y.norm()), float(dx.norm()), stop))
        return stop


def ravel(t):
    if t.is_complex():
        return torch.cat((t.real, t.imag), dim=0).reshape(-1)
    return t.reshape(-1)


def index_of(vec, cands):
    """latest index j with cands[j] bitwise equal to vec, else -1"""
    for j in range(len(cands) - 1, -1, -1):
        if cands[j].shape == vec.shape and torch.equal(cands[j], vec):
            return j
    return -1


def run_case(tid, functional, method, P, f_tol, x_tol, maxiter, opts):
    """one execution -> trace dict"""
    n = P.y0.numel()
    kind = "opt" if method in ("gd", "adam") else ("anderson" if method == "anderson_acc" else "nonlin")
    evals = []          # for opt: (x, f)
    cfg = {"functional": functional, "method": method, "problem": P.name, "dtype": str(P.dtype), "f_tol": f_tol, "x_tol": x_tol,
           "kind": kind, "opts": {k: v for k, v in opts.items()}}
    ev = []
    term = None
    kw = {k: v for k, v in opts.items() if k != "starved"}
    if kind != "opt":
        term = Term(f_tol, x_tol)
        kw["custom_terminator"] = term
        if maxiter is not None:
            kw["maxiter"] = maxiter
        cfg["maxiter"] = maxiter if maxiter is not None else 100 * ((2 * n if P.dtype.is_complex and kind == "nonlin" else n) + 1)
        ftol = term.f_tol
    else:
        kw["maxiter"] = maxiter
        cfg["maxiter"] = maxiter
        ftol = f_tol if f_tol is not None else 1e-6

    if functional == "rootfinder":
        fcn = lambda y: P.root(y)
        resid = lambda y: float(P.root(y).norm())
    elif functional == "equilibrium":
        fcn = lambda y: P.g(y)
        resid = lambda y: float((P.g(y) - y).norm())
    else:
        def fcn(y):
            v = P.obj(y)
            evals.append((y.detach().clone(), float(v)))
            return v

        def resid(y):
            yy = y.detach().clone().requires_grad_()
            return float(torch.autograd.grad(P.obj(yy), yy)[0].norm())
    exc = None
    out = None
    with warnings.catch_warnings(record=True) as wl:
        warnings.simplefilter("always")
        try:
            out = getattr(xitorch.optimize, functional)(fcn, P.y0.clone(), method=method, **kw)
        except Exception as e:
            exc = e
    warned = len([w for w in wl if "converge" in str(w.message).lower()]) > 0
    # ---- events
    if kind == "nonlin":
        if functional == "minimize":
            r0 = resid(P.y0)
        else:
            r0 = resid(P.y0)
        ev.append({"a": "init", "res0": cls_res(r0, ftol), "res1": "above"})
        cands = [ravel(P.y0)] + [t[0] for t in term.log]
        for j, (xx, yn, dxn, stop) in enumerate(term.log):
            ev.append({"a": "test", "j": j + 1, "res": cls_res(yn, term.f_tol), "dx": "small" if dxn < term.x_tol else "large", "stop": stop})
    elif kind == "anderson":
        x1 = P.g(P.y0)
        ev.append({"a": "init", "res0": cls_res(resid(P.y0), ftol), "res1": cls_res(resid(x1), ftol)})
        cands = [ravel(P.y0), ravel(x1)] + [t[0].reshape(-1) for t in term.log]
        for j, (xx, yn, dxn, stop) in enumerate(term.log):
            ev.append({"a": "test", "j": j + 2, "res": cls_res(yn, term.f_tol), "dx": "small" if dxn < term.x_tol else "large", "stop": stop})
    else:
        cands = []
        fmin = math.inf
        # the first call of the objective may be the functional's own probe; gd/adam evaluate through _min_fwd_fcn each iteration
        f0 = float(P.obj(P.y0))
        for j, (xx, fv) in enumerate(evals):
            ev.append({"a": "eval", "j": j, "fle": fv <= f0, "improves": fv < fmin})
            fmin = min(fmin, fv)
            cands.append(ravel(xx))
    if exc is not None:
        ev.append({"a": "raise", "exc": "%s: %s" % (type(exc).__name__, str(exc)[:80])})
    else:
        j = index_of(ravel(out.detach()), cands)
        if kind == "opt" and j == -1:
            j = len(cands)          # the newest iterate, not evaluated by the loop
        rr = resid(out.detach())
        if functional == "minimize":
            fle = float(P.obj(out.detach())) <= float(P.obj(P.y0)) + 1e-15
            resc = cls_res(rr, ftol) if kind == "nonlin" else "below"      # vanishing gradient is demanded of the root-finding methods
            bound = 2.5 * ftol if kind == "nonlin" else math.inf
        else:
            fle = True
            resc = cls_res(rr, ftol)
            bound = 2.5 * ftol / (1.0 - P.kappa)
        ref = P.ymin if functional == "minimize" else P.ystar
        near = float((out.detach() - ref).abs().max()) <= bound + 1e-12
        ev.append({"a": "ret", "j": j, "warned": warned, "res": resc, "fle": bool(fle), "near_ref": bool(near),
                   "shape_ok": tuple(out.shape) == tuple(P.y0.shape) and out.dtype == P.y0.dtype, "resid": rr})
    return {"tid": tid, "cfg": cfg, "ev": ev}


def cases(thorough, seed):
    out = []
    fams = ["tanh-weak", "tanh-strong", "linear", "shift", "const", "atroot", "logdom"]
    tols = [(None, None), (1e-9, 1e-9), (1e-4, 1e-2)] if not thorough else [(None, None), (1e-9, 1e-9), (1e-4, 1e-2), (1e-10, 1e-3), (1e-3, 1e-10)]
    seeds = [seed, seed + 1] if not thorough else [seed + k for k in range(6)]
    for s in seeds:
        for fam in fams:
            for dtype in ((DT, torch.complex128) if fam in ("tanh-weak", "linear", "shift", "atroot") else (DT,)):
                Ps = [Problem(fam, 500 + s, n=3 if s % 2 == 0 else 6, dtype=dtype)]
                if fam in ("tanh-weak", "linear") and s == seeds[0]:
                    Ps.append(Problem(fam, 700 + s, n=3, dtype=dtype, lead=(2,)))      # unknown of shape (2, 3)
                for P, (ft, xt) in [(P_, tl) for P_ in Ps for tl in tols]:
                    for m in NONLIN:
                        o = {}
                        if m == "linearmixing":
                            o["alpha"] = -1.0
                        for ls in ((True, False) if (thorough or (ft is None)) else (True,)):
                            oo = dict(o)
                            if not ls:
                                oo["line_search"] = False
                            out.append(("rootfinder", m, P, ft, xt, None, oo))
                        if fam != "const":
                            out.append(("rootfinder", m, P, ft, xt, 2, o))       # budget too small: must warn or meet the tolerance
                        # options that switch code paths of the quasi-Newton updates (limited memory with restarts, SVD start, damping)
                        if m in ("broyden1", "broyden2") and ft is None and fam in ("tanh-weak", "tanh-strong", "linear", "logdom"):
                            for extra in ({"max_rank": 1}, {"max_rank": 2}, {"alpha": -0.5}) + (({"uv0": "svd"},) if not dtype.is_complex else ()):
                                out.append(("rootfinder", m, P, ft, xt, None, dict(o, **extra)))
                    if not dtype.is_complex:
                        out.append(("equilibrium", "anderson_acc", P, ft, xt, None, {}))
                        out.append(("equilibrium", "anderson_acc", P, ft, xt, 3, {}))
                        for m in ("broyden1", "newton"):
                            out.append(("equilibrium", m, P, ft, xt, None, {}))
                for P in (Ps if (not dtype.is_complex and fam not in ("shift", "atroot", "logdom")) else []):
                    for m in ("broyden1", "broyden2"):
                        out.append(("minimize", m, P, None, None, None, {}))
                        out.append(("minimize", m, P, 1e-9, 1e-9, None, {}))
                    out.append(("minimize", "gd", P, None, None, 2000, {"step": 0.3}))
                    out.append(("minimize", "gd", P, None, None, 5, {"step": 0.3}))
                    out.append(("minimize", "gd", P, None, None, 0, {"step": 0.3}))
                    out.append(("minimize", "adam", P, None, None, 300, {"step": 0.05}))
                    # stopping tolerances larger than |f(y0)| (the first comparison is against a dummy previous value) with steps
                    # that overshoot: the budget runs out without any criterion being met between two real iterates
                    f0 = float(P.obj(P.y0))
                    # (parameters chosen so that on a correct implementation no criterion is met: gd with step 4 on a Hessian within [1, 1.5]
                    #  multiplies the distance to the minimiser by 3..5 per step; adam's first step has length `step` per coordinate)
                    big = 1.5 * abs(f0) + 0.05
                    out.append(("minimize", "gd", P, None, None, 3, {"step": 4.0, "gamma": 0.0, "f_tol": big, "starved": True}))
                    out.append(("minimize", "adam", P, None, None, 1, {"step": 2.0 + big, "f_tol": big, "starved": True}))
                    out.append(("minimize", "adam", P, None, None, 1, {"step": 3.0, "f_tol": 10.0 * abs(f0) + 1.0, "x_tol": 1e-3, "starved": True}))
                    out.append(("minimize", "adam", P, None, None, 2, {"step": 2.0 + big, "f_tol": big, "starved": True}))
    return out


def key_of(t, ev):
    c = t["cfg"]
    if ev is None:
        return "rootloop/%s/%s/incomplete" % (c["functional"], c["method"])
    if ev["a"] == "test" and ev["res"] == "zero" and not ev["stop"]:
        return "rootloop/nonlin/zero-step-after-exact-root"
    if ev["a"] == "raise":
        if "zero vector" in ev["exc"]:
            return "rootloop/nonlin/zero-step-after-exact-root"
        if "shape" in ev["exc"] and "complex" in c["dtype"]:
            return "rootloop/nonlin/complex-exact-root-start"
        return "rootloop/%s/%s/raise" % (c["functional"], c["method"])
    if ev["a"] == "ret":
        if c["kind"] == "nonlin" and not ev["warned"]:
            return "rootloop/nonlin/returns-iterate-before-tested"
        if c["kind"] == "anderson" and c["problem"] == "const":
            return "rootloop/anderson/early-exit-returns-x0"
    return "rootloop/%s/%s/%s" % (c["functional"], c["method"], ev["a"])


def run(ctx):
    thorough = ctx.tier == "thorough"
    base = dict(Kinds={"nonlin", "anderson", "opt"}, MaxIterMax=5 if thorough else 4, ReturnTested=True, ZeroResidualStops=True,
                EarlyFixedPoint=True, WarnIffNotConverged=True)
    t, cf = tlcmod.gen_mc(ctx.work, "RootLoop", "MC_RL", base, invariants=INVS)
    r = ctx.model_check(t, cf, workers=16, coverage=True, label="exhaustive", timeout=900)
    ctx.check_proof("RootLoop_proofs")         # the same invariants for every iteration budget
    from vlib import resulthistory
    resulthistory.replay(ctx, ["rootfinder:broyden1", "rootfinder:newton", "equilibrium:anderson", "minimize:gd", "minimize:adam"], "rootloop")
    from vlib import layoutinv
    layoutinv.replay(ctx, ["rootfinder:broyden1", "rootfinder:newton", "equilibrium:anderson", "minimize:gd", "minimize:adam"], "rootloop")
    from vlib import bufferreuse
    bufferreuse.replay(ctx, ["rootfinder:broyden1", "equilibrium:anderson", "minimize:gd"], "rootloop")
    # relative tolerances given together with the absolute ones (the library's own stop test, no custom terminator): they can only make
    # the test stricter - a silent return still meets |f| < f_tol (|f - y| < f_tol for equilibrium)
    Wr = torch.tensor([[0.3, -0.2, 0.1], [0.0, 0.4, -0.3], [0.2, 0.1, -0.1]], dtype=torch.float64)
    cr = torch.tensor([0.5, -0.3, 0.8], dtype=torch.float64)
    gmap = lambda y: cr + 0.5 * torch.tanh(y @ Wr.T)
    for functional, methods in (("rootfinder", ("broyden1", "broyden2", "linearmixing", "newton")), ("equilibrium", ("broyden1", "broyden2", "linearmixing", "anderson_acc"))):
        for method in methods:
            for tols in (dict(f_tol=1e-10, f_rtol=1e-2), dict(f_tol=1e-8, f_rtol=0.5, x_tol=1e-6, x_rtol=0.5), dict(f_tol=1e-9, x_rtol=1e-1), dict(f_tol=1e-7, f_rtol=1e-9)):
                ctx.case(key=("relative-tolerances", functional, method, tuple(sorted(tols.items()))))
                why = None
                try:
                    with warnings.catch_warnings(record=True) as wl:
                        warnings.simplefilter("always")
                        with torch.no_grad():
                            if functional == "rootfinder":
                                yy = xitorch.optimize.rootfinder(lambda y: y - gmap(y), torch.zeros(3, dtype=torch.float64), method=method, **tols)
                                res = float((yy - gmap(yy)).norm())
                            else:
                                yy = xitorch.optimize.equilibrium(gmap, torch.zeros(3, dtype=torch.float64), method=method, **tols)
                                res = float((gmap(yy) - yy).norm())
                    warned = any("onverge" in str(w_.message) or "ConvergenceWarning" in type(w_.message).__name__ for w_ in wl)
                    if not warned and not res < tols["f_tol"]:
                        why = "returned silently with a residual of %.3e, the caller asked for f_tol = %g" % (res, tols["f_tol"])
                except Exception as e:
                    why = "raised %s: %s" % (type(e).__name__, str(e)[:120])
                if why:
                    ctx.violation("rootloop/%s/relative-tolerances" % functional, "%s(method=%s, %s): %s" % (functional, method, tols, why), {"functional": functional, "method": method, "tols": tols})
    ctx.check_coverage(r, ["NlStart", "NlIter", "NlExhaust", "NlReturn", "AaStart", "AaIter", "AaExhaust", "AaReturn", "OptStart", "OptIter", "OptExhaust", "OptReturn"])
    for sw, inv in (("ReturnTested", None), ("ZeroResidualStops", "NoRaiseAtRoot"), ("EarlyFixedPoint", "SilentMeetsTol"),
                    ("WarnIffNotConverged", "WarnedIffNotConverged")):
        c = dict(base)
        c[sw] = False
        t, cf = tlcmod.gen_mc(ctx.work, "RootLoop", "MC_RL_dev_" + sw, c, invariants=INVS)
        ctx.expect_violation(t, cf, inv=inv, label="deviation " + sw, workers=8, timeout=300)
    # code -> spec
    traces = []
    for tid, (fn, m, P, ft, xt, mi, o) in enumerate(cases(thorough, ctx.seed), 1):
        tr = run_case(tid, fn, m, P, ft, xt, mi, o)
        traces.append(tr)
        c = tr["cfg"]
        ctx.case(key=(fn, m, P.name, str(P.dtype), tuple(P.y0.shape), ft, xt, mi, json.dumps(o, sort_keys=True)))
    rej = ctx.validate_traces("Trace_RootLoop.tla", "Trace_RootLoop.cfg", traces, shards=16)

    def m_earlier(t):
        r = t["ev"][-1]
        if r["a"] == "ret" and not r["warned"] and t["cfg"]["kind"] != "opt" and r["j"] >= 2:
            r["j"] -= 1                                      # the iterate before the tested one comes back
            return t

    def m_above(t):
        r = t["ev"][-1]
        if r["a"] == "ret" and not r["warned"] and t["cfg"]["kind"] != "opt":
            r["res"] = "above"                               # the returned tensor does not meet the tolerance
            return t

    def m_worse(t):
        r = t["ev"][-1]
        if r["a"] == "ret" and not r["warned"] and t["cfg"]["kind"] == "opt":
            r["fle"] = False                                 # silent return with a larger objective
            return t

    def m_test_missing(t):
        ts = [j for j, e in enumerate(t["ev"]) if e["a"] == "test"]
        if len(ts) >= 2:
            del t["ev"][ts[0]]                               # one stop test is missing from the record
            return t

    def m_silent(t):
        r = t["ev"][-1]
        if r["a"] == "ret" and r["warned"] and t["cfg"]["kind"] != "opt":
            r["warned"] = False
            r["res"], r["fle"], r["near_ref"] = "below", True, True   # (even with perfect verdicts: the protocol forbids the silence)
            return t
    ctx.binding_selftest("Trace_RootLoop.tla", "Trace_RootLoop.cfg", traces, rej,
                         [("earlier iterate returned", m_earlier), ("tolerance not met", m_above), ("objective larger", m_worse),
                          ("stop test missing", m_test_missing), ("warning missing", m_silent)])
    bytid = {t["tid"]: t for t in traces}
    for tid, matched, total in rej:
        t = bytid[tid]
        ev = t["ev"][matched] if matched < len(t["ev"]) else None
        ctx.violation(key_of(t, ev), "%s not explained by RootLoop at event %d/%d: %s; previous %s"
                      % (json.dumps(t["cfg"]), matched + 1, total, json.dumps(ev), json.dumps(t["ev"][max(0, matched - 2):matched])),
                      {"cfg": t["cfg"], "events": t["ev"][-6:]})
    # silence demanded on the contractive families for the methods and presets listed in the assumptions
    n_silent = sum(1 for t in traces if t["ev"] and t["ev"][-1]["a"] == "ret" and not t["ev"][-1]["warned"])
    for t in traces:
        c = t["cfg"]
        last = t["ev"][-1]
        must = (c["method"] in NONLIN + ["anderson_acc", "gd"]) and c["maxiter"] not in (0, 2, 3, 5) and not c["opts"].get("starved") and c["problem"] != "logdom" and last["a"] == "ret"
        if must and last["warned"]:
            ctx.violation("rootloop/%s/%s/warned-on-contractive" % (c["functional"], c["method"]),
                          "%s warned on a contractive well-conditioned problem (residual %.2e)" % (json.dumps(c), last["resid"]), {"cfg": c})
    ctx.samples.append(traces[0])
    ctx.notes.update(executions=len(traces), silent_returns=n_silent,
                     warned_returns=sum(1 for t in traces if t["ev"][-1]["a"] == "ret" and t["ev"][-1]["warned"]),
                     raised=sum(1 for t in traces if t["ev"][-1]["a"] == "raise"))
    ctx.assumptions += [
        "families: g(y) = c + kappa*tanh(Wy) (||W||_2 <= 1, kappa in {0.2, 0.5}), linear g, constant g, f(y) = y - 1; y* by 400 plain fixed-point steps; minimize: 0.5|y-c|^2 + kappa*sum log cosh(Wy) (1-strongly convex)",
        "presets: linearmixing alpha=-1, gd step 0.3 (< 2(1+gamma)/L), adam step 0.05 (silence not demanded of adam)",
        "near_ref: |y - y*|_inf <= 2.5 f_tol/(1-kappa) (contraction bound), minimize with root-finding methods 2.5 f_tol",
        "the residual class of the returned tensor is recomputed by evaluating the user's function at the returned tensor",
        "TLC, SANY, xitorch's own TerminationCondition is used inside the recording custom_terminator"]
    return ctx.finish(
        rule="case = (functional, method, family, dtype, size, f_tol, x_tol, maxiter, options); each recorded execution must be a behaviour of "
             "RootLoop: every stop test is on the newest iterate with the verdict its classes imply, a silent return hands back exactly the tested "
             "iterate and that tensor, re-inserted into the user's function, meets the tolerance, has the input's shape/dtype and lies within the "
             "contraction bound of the reference solution")


def replay(data):
    print(data["what"])
    return 1
