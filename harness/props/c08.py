"""C08 - solve_ivp gradients w.r.t. y0, parameters and times are the true sensitivities.

Spec: IvpAdjoint.tla (segment loop of the adjoint backward pass).  TLC: exhaustive for nt <= 4; three deviation
switches.  Code -> spec: a probing callable given as the BACKWARD method observes every segment (time pair, augmented
state, options); traces validated by TLC against Trace_IvpAdjoint.tla; the final event carries numeric verdicts
(gradients of first and second order against autograd through closed-form solutions, None/zero pattern).
"""
import json
import math
import warnings

import torch
import xitorch
import xitorch.integrate
from xitorch import EditableModule
from xitorch._impls.integrate.ivp.explicit_rk import rk4_ivp
from xitorch._utils import verif_hooks as vh

from vlib import tlc as tlcmod
from vlib.ctx import Machinery

DT = torch.float64
BCKVAL = {"rtol": 3e-7, "atol": 3e-9}
FWD_SUBSETS = [("atol", "rtol"), ("rtol",), ()]
BCK_SUBSETS = [(), ("rtol",), ("atol",), ("atol", "rtol")]
INVS = ["AllCotangents", "SegmentsNewestFirst", "OneSegmentPerInterval", "AlwaysReseeded", "BackwardOptions", "OptionInheritance", "TimeGradients"]


# ----------------------------------------------------------------------------- families with closed-form solutions
def lin_f(t, y, A, unused):
    return A @ y


def lin_ref(ts, y0, A):
    return torch.stack([torch.matrix_exp(A * (t - ts[0])) @ y0 for t in ts])


def logi_f(t, y, r, unused):
    return r * y * (1 - y)


def logi_ref(ts, y0, r):
    return torch.stack([1 / (1 + (1 / y0 - 1) * torch.exp(-r * (t - ts[0]))) for t in ts])


def tdep_f(t, y, r, unused):
    return -(r[0] * t + r[1]) * y        # explicit time dependence, neither even nor odd in t


def tdep_ref(ts, y0, r):
    return torch.stack([y0 * torch.exp(-(0.5 * r[0] * (t * t - ts[0] * ts[0]) + r[1] * (t - ts[0]))) for t in ts])


class LinObj(EditableModule):
    def __init__(self, A):
        self.A = A

    def f(self, t, y, unused):
        return self.A @ y

    def getparamnames(self, methodname, prefix=""):
        if methodname == "f":
            return [prefix + "A"]
        raise KeyError(methodname)


GRIDS = {"inc": [0.0, 0.4, 1.0], "dec": [1.0, 0.5, -0.1], "ragged": [0.2, 0.25, 0.9, 1.0], "two": [0.0, 0.7],
         # a repeated requested time (monotone, not strictly); times far from the origin with a spacing tiny relative to their magnitude
         "repeated": [0.0, 0.4, 0.4, 1.0], "offset": [100.0, 100.002, 100.5]}
FWD = {"rk45": dict(atol=1e-11, rtol=1e-10), "rk23": dict(atol=1e-10, rtol=1e-8), "rk4": dict(), "rk38": dict(), "euler": dict()}
TOL = {"rk45": 5e-9, "rk23": 2e-6, "rk4": 2e-5, "rk38": 2e-5, "euler": 6e-2}
SUB = {"rk4": 30, "rk38": 30, "euler": 400}


def refine(ts, m):
    """fixed-step methods integrate accurately only on fine grids: insert m sub-intervals, remember the original indices"""
    pts = []
    idx = []
    for i in range(len(ts) - 1):
        idx.append(len(pts))
        seg = torch.linspace(0.0, 1.0, m + 1, dtype=DT)[:-1] * (ts[i + 1] - ts[i]) + ts[i]
        pts += [seg[j] for j in range(m)]
    idx.append(len(pts))
    pts.append(ts[-1])
    return torch.stack(pts), idx


def token(key, val, fwdo):
    if val is None:
        return "unset"
    if val == BCKVAL[key]:
        return "b"
    if key in fwdo and val == fwdo[key]:
        return "f"
    return "other:%r" % (val,)


def run_case(tid, fam, method, gname, req, cot_idx, placement, probe_bwd, order2, combo=0):
    """req: subset of {"y0","p","ts"} requiring grad"""
    g = torch.Generator().manual_seed(17 + tid)
    ts0 = torch.tensor(GRIDS[gname], dtype=DT)
    if fam == "linear":
        A = torch.tensor([[-0.5, 1.0], [-1.0, -0.3]], dtype=DT) + 0.1 * torch.randn(2, 2, generator=g, dtype=DT)
        y0 = torch.tensor([1.0, -0.4], dtype=DT)
        p, ref_fn, fcn = A, lin_ref, lin_f
    elif fam == "tdep":
        p = torch.tensor([0.9, 0.5], dtype=DT)
        y0 = torch.tensor([0.8, -0.6], dtype=DT)
        ref_fn, fcn = tdep_ref, tdep_f
    else:
        p = torch.tensor([1.3, 0.7], dtype=DT)
        y0 = torch.tensor([0.2, 0.6], dtype=DT)
        ref_fn, fcn = logi_ref, logi_f
    y0 = y0.clone().requires_grad_("y0" in req)
    p = p.clone().requires_grad_("p" in req)
    ts0 = ts0.clone().requires_grad_("ts" in req)
    unused = torch.tensor([0.3], dtype=DT).requires_grad_()
    if method in SUB and not probe_bwd:
        ts, keep = refine(ts0, SUB[method])
    else:
        ts, keep = ts0, list(range(len(ts0)))
    nt = len(ts)
    adaptive = method in ("rk45", "rk23")
    fkeys = FWD_SUBSETS[combo % 3] if (adaptive and probe_bwd) else tuple(sorted(FWD[method]))
    bkeys = BCK_SUBSETS[(combo // 3) % 4] if adaptive else ()
    fwdo = {k_: FWD[method][k_] for k_ in fkeys}
    bcko = {k_: BCKVAL[k_] for k_ in bkeys}
    if probe_bwd:
        bcko.update(method=None, bcktag=1)    # method filled in below
    cfg = {"fwd_opts": {"method": "f", "rtol": "f" if "rtol" in fwdo else "unset", "atol": "f" if "atol" in fwdo else "unset"},
           "bck_opts": {"method": "b" if probe_bwd else "unset", "rtol": "b" if "rtol" in bcko else "unset", "atol": "b" if "atol" in bcko else "unset"},
           "family": fam, "method": method, "grid": gname, "requires_grad": sorted(req), "cotangent_on": cot_idx, "placement": placement,
           "probe": probe_bwd, "nt": nt, "ts_requires_grad": "ts" in req, "order2": order2}
    segs = []
    store = {}

    def probe(f_, ts_seg, yaug, params, **kw):
        segs.append({"ts": ts_seg.detach().clone(), "y": yaug.detach().clone(), "kw": sorted(kw.keys()),
                     "eff": {"method": "b", "rtol": token("rtol", kw.get("rtol"), fwdo), "atol": token("atol", kw.get("atol"), fwdo)}})
        tf = torch.linspace(0.0, 1.0, 41, dtype=DT) * (ts_seg[1] - ts_seg[0]) + ts_seg[0]
        yt_ = rk4_ivp(f_, tf, yaug, params)
        return torch.stack([yt_[0], yt_[-1]])
    if placement == "object" and fam == "linear":
        obj = LinObj(p)
        call = lambda: xitorch.integrate.solve_ivp(obj.f, ts, y0, params=(unused,), method=method, bck_options=bcko, **fwdo)
    else:
        call = lambda: xitorch.integrate.solve_ivp(fcn, ts, y0, params=(p, unused), method=method, bck_options=bcko, **fwdo)
    if probe_bwd:
        bcko["method"] = probe
    seen = []          # (solver class, rtol, atol) of every adaptive step attempt made while differentiating

    def sink(evname, fields):
        if evname == "ark.try" and phase[0] == "bwd":
            s_ = fields["solver"]
            c_ = (type(s_).__name__.lower(), s_.rtol, s_.atol)
            if c_ not in seen:
                seen.append(c_)
    phase = ["fwd"]
    ev = []
    exc = None
    verd = []
    try:
        with warnings.catch_warnings():
            warnings.simplefilter("ignore")
            vh.set_sink(sink)
            from vlib.ctx import TimeLimit
            tl = TimeLimit(30)
            tl.__enter__()
            yt = call()
            phase[0] = "bwd"
            yk = yt[keep]
            w = torch.zeros_like(yk)
            gw = torch.randn(yk.shape, generator=g, dtype=DT)
            for i in cot_idx:
                w[i] = gw[i]
            L = (yk * w).sum()
            leaves = [x for x, nm in ((y0, "y0"), (p, "p"), (ts0, "ts")) if nm in req] + [unused]
            names = [nm for nm in ("y0", "p", "ts") if nm in req] + ["unused"]
            g1 = torch.autograd.grad(L, leaves, create_graph=order2, allow_unused=True)
            # reference through the closed form
            yr = ref_fn(ts0, y0, p)
            Lr = (yr * w).sum()
            r1 = torch.autograd.grad(Lr, leaves[:-1], create_graph=order2, allow_unused=True)
            tol = TOL[method] if not probe_bwd else max(TOL[method], 1e-5)
            verd.append(["values_match_closed_form", bool(torch.allclose(yk, yr, atol=tol, rtol=tol))])
            if adaptive and not probe_bwd:
                # the backward integration is as accurate as ITS options (caller's bck_options, else the forward ones) allow
                tol = max(tol, 10 * bcko.get("rtol", fwdo.get("rtol", 1e-5)), 10 * bcko.get("atol", fwdo.get("atol", 1e-8)))
            for nm, a, b in zip(names, g1, r1):
                b0 = b if b is not None else torch.zeros_like(leaves[names.index(nm)])
                a0 = a if a is not None else torch.zeros_like(b0)
                verd.append(["grad_%s_matches" % nm, bool(torch.allclose(a0, b0, atol=20 * tol, rtol=20 * tol))])
            gu = g1[-1]
            verd.append(["unused_param_zero_grad", gu is None or float(gu.detach().abs().max()) == 0.0])
            if order2:
                S = sum((a ** 2).sum() for a in g1[:-1] if a is not None and a.requires_grad)
                Sr = sum((b ** 2).sum() for b in r1 if b is not None and b.requires_grad)
                if isinstance(S, torch.Tensor) and S.requires_grad:
                    g2 = torch.autograd.grad(S, leaves[:-1], allow_unused=True)
                    r2 = torch.autograd.grad(Sr, leaves[:-1], allow_unused=True) if (isinstance(Sr, torch.Tensor) and Sr.requires_grad) else [None] * (len(leaves) - 1)
                    for nm, a, b in zip(names, g2, r2):
                        b0 = b if b is not None else torch.zeros_like(leaves[names.index(nm)])
                        a0 = a if a is not None else torch.zeros_like(b0)
                        verd.append(["grad2_%s_matches" % nm, bool(torch.allclose(a0, b0, atol=2e3 * tol, rtol=2e3 * tol))])
    except (Exception, TimeoutError) as e:
        exc = e
    finally:
        try:
            tl.__exit__()
        except Exception:
            pass
        vh.set_sink(None)
    if probe_bwd and exc is None:
        # the first-order backward made one probe call per segment (second-order calls come after them)
        ny = y0.numel()
        first = segs[:nt - 1]
        ytd = yt.detach()
        for si, s in enumerate(first):
            tsd = ts.detach()

            def index_of_time(tval, expected):
                # a repeated requested time has several indices: the one the segment loop is at, if it is among them
                d = (tsd - tval).abs()
                cands = [j + 1 for j in range(len(tsd)) if float(d[j]) == float(d.min())]
                return expected if expected in cands else cands[0]
            kf = index_of_time(s["ts"][0], nt - si)
            kt = index_of_time(s["ts"][1], nt - si - 1)
            cot_ok = True
            if fam == "linear":
                lam = torch.zeros(ny, dtype=DT)
                for j in range(kf - 1, nt):
                    lam = lam + torch.matrix_exp(p.detach().T * (tsd[j] - tsd[kf - 1])) @ w[j].detach() if True else lam
                cot_ok = bool(torch.allclose(s["y"][ny:2 * ny], lam, atol=1e-5, rtol=1e-5))
            ev.append({"a": "seg", "from": kf, "to": kt, "y_is_stored": bool(torch.equal(s["y"][:ny], ytd[kf - 1].reshape(-1))),
                       "cotangent_ok": cot_ok, "opts": "bck" if "bcktag" in s["kw"] else "fwd", "eff": s["eff"]})
    if exc is not None:
        ev.append({"a": "raise", "exc": "%s: %s" % (type(exc).__name__, str(exc)[:140])})
    else:
        gts = None
        if "ts" in req:
            gts = g1[names.index("ts")]
        ret = {"a": "ret", "ts_grad_present": gts is not None, "verdicts": verd}
        if adaptive and not probe_bwd:
            # configuration of the built-in backward integration as seen at its step attempts
            if len(seen) == 1:
                nm_, rt_, at_ = seen[0]
                ret["eff"] = {"method": "f" if nm_ == method else "other:" + nm_,
                              "rtol": token("rtol", rt_, fwdo) if (rt_ != 1e-5 or "rtol" in fwdo or "rtol" in bcko) else "unset",
                              "atol": token("atol", at_, fwdo) if (at_ != 1e-8 or "atol" in fwdo or "atol" in bcko) else "unset"}
            else:
                ret["eff"] = {"method": "mixed:%d" % len(seen), "rtol": "mixed", "atol": "mixed"}
        ev.append(ret)
    if not probe_bwd:
        # protocol events are only observable with the probe; a plain run contributes its verdicts
        cfg["nt"] = 1
    return {"tid": tid, "cfg": cfg, "ev": ev}


def case_list(thorough):
    out = []
    subsets = [{"y0"}, {"p"}, {"ts"}, {"y0", "p"}, {"y0", "p", "ts"}]
    # protocol runs (probe as backward method)
    for fam in ("linear", "logistic", "tdep"):
        for gname in GRIDS:
            if gname == "repeated":
                continue        # whether an empty interval gets its own (trivial) segment is not the property's business: numeric runs only
            for req in (subsets if thorough else [{"y0", "p", "ts"}, {"p"}, {"y0"}]):
                n = len(GRIDS[gname])
                for cot in ([n - 1], list(range(n))):
                    out.append((fam, "rk45", gname, req, cot, "explicit", True, False))
    out.append(("linear", "rk45", "inc", {"y0", "p", "ts"}, [0, 1, 2], "object", True, False))
    # numeric runs with the built-in backward (same method and options as forward), order 1 and 2
    for method in ("rk45", "rk23", "rk4", "rk38", "euler"):
        for fam in ("linear", "logistic", "tdep"):
            for gname in (("inc", "dec", "ragged", "repeated", "offset") if (thorough or method in ("rk45", "rk4")) else ("inc", "dec", "repeated")):
                for req in (subsets if (thorough or method == "rk45") else [{"y0", "p", "ts"}]):
                    n = len(GRIDS[gname])
                    order2 = method in ("rk45", "rk4") and (thorough or gname == "inc")
                    out.append((fam, method, gname, req, [n - 1] if len(req) == 1 else list(range(n)), "explicit", False, order2))
        out.append(("linear", method, "inc", {"y0", "p", "ts"}, [2], "object", False, method == "rk45"))
    return out


def key_of(t, ev):
    c = t["cfg"]
    if ev is None:
        return "ivpadj/%s/incomplete" % c["method"]
    if ev["a"] == "raise":
        if "ts" in c["requires_grad"] and c["order2"] and ("inplace" in ev["exc"] or "in-place" in ev["exc"] or "modified by an inplace" in ev["exc"] or "view" in ev["exc"]):
            return "ivpadj/ts-grad-recorded-backward-raises"
        return "ivpadj/%s/raise" % c["method"]
    if ev["a"] == "ret":
        failed = [n for n, ok in ev["verdicts"] if not ok]
        return "ivpadj/%s/%s" % (c["method"], "+".join(failed) if failed else "protocol-at-return")
    return "ivpadj/protocol/%s" % ev["a"]


def run(ctx):
    thorough = ctx.tier == "thorough"
    base = dict(MaxNT=4 if not thorough else 6, Reseed=True, AddCotangent=True, UseBckOptions=True, InheritFwd=True)
    t, cf = tlcmod.gen_mc(ctx.work, "IvpAdjoint", "MC_IA", base, invariants=INVS)
    r = ctx.model_check(t, cf, workers=4, coverage=True, label="exhaustive", timeout=300)
    ctx.check_coverage(r, ["Segment", "Finish"])
    ctx.check_proof("IvpAdjoint_proofs")       # the same invariants for every number of requested times
    for sw, inv in (("Reseed", "AlwaysReseeded"), ("AddCotangent", "AllCotangents"), ("UseBckOptions", "BackwardOptions"), ("InheritFwd", "OptionInheritance")):
        c = dict(base)
        c[sw] = False
        t, cf = tlcmod.gen_mc(ctx.work, "IvpAdjoint", "MC_IA_dev_" + sw, c, invariants=INVS)
        ctx.expect_violation(t, cf, inv=inv, label="deviation " + sw, workers=4, timeout=300)
    traces = []
    for tid, (fam, method, gname, req, cot, placement, probe, order2) in enumerate(case_list(thorough), 1):
        combo = tid + ctx.seed if probe else (0 if (order2 or tid % 3) else 3 * (1 + (tid + ctx.seed) % 3))   # which options are given forward / in bck_options
        traces.append(run_case(tid, fam, method, gname, req, cot, placement, probe, order2, combo))
        ctx.case(key=(fam, method, gname, tuple(sorted(req)), tuple(cot), placement, probe, order2, combo % 12))
    # plain runs have no segment events: validate them with nt = 1 (no segment expected) - their verdicts are still bound
    rej = ctx.validate_traces("Trace_IvpAdjoint.tla", "Trace_IvpAdjoint.cfg", traces, shards=12)

    def m_seg(name, val):
        def m(t):
            for e in t["ev"]:
                if e["a"] == "seg" and e.get(name) != val:
                    e[name] = val
                    return t
        return m

    def m_drop_seg(t):
        ss = [j for j, e in enumerate(t["ev"]) if e["a"] == "seg"]
        if ss:
            del t["ev"][ss[-1]]                              # one interval is never integrated backwards
            return t

    def m_verdict(t):
        if t["ev"][-1]["a"] == "ret" and t["ev"][-1]["verdicts"]:
            t["ev"][-1]["verdicts"][-1][1] = False
            return t

    def m_eff(t):
        for e in t["ev"]:
            if e["a"] == "seg" and e["eff"]["rtol"] in ("f", "b"):
                e["eff"]["rtol"] = "unset"                   # the backward integrator ran with default tolerances
                return t
    ctx.binding_selftest("Trace_IvpAdjoint.tla", "Trace_IvpAdjoint.cfg", traces, rej,
                         [("not re-seeded", m_seg("y_is_stored", False)), ("cotangent not added", m_seg("cotangent_ok", False)),
                          ("forward options used", m_seg("opts", "fwd")), ("segment missing", m_drop_seg), ("verdict false", m_verdict),
                          ("tolerance not inherited", m_eff)])
    bytid = {t_["tid"]: t_ for t_ in traces}
    for tid_, matched, total in rej:
        t_ = bytid[tid_]
        ev = t_["ev"][matched] if matched < len(t_["ev"]) else None
        ctx.violation(key_of(t_, ev), "solve_ivp backward %s not explained by IvpAdjoint at event %d/%d: %s" % (json.dumps(t_["cfg"]), matched + 1, total, json.dumps(ev)[:500]),
                      {"cfg": t_["cfg"]})
    # tuple (list-of-tensors) states: gradients must equal those of the concatenated state and the closed form
    ntup = 0
    for method in ("rk45", "rk4"):
        for gname in ("inc", "dec"):
            ntup += 1
            ctx.case(key=("tuple-state", method, gname))
            ts0 = torch.tensor(GRIDS[gname], dtype=DT)
            ts, keep = (refine(ts0, SUB[method]) if method in SUB else (ts0, list(range(len(ts0)))))
            ts = ts.clone().requires_grad_()
            A = (torch.tensor([[-0.5, 1.0], [-1.0, -0.3]], dtype=DT)).requires_grad_()
            ya = torch.tensor([1.0], dtype=DT, requires_grad=True)
            yb = torch.tensor([-0.4], dtype=DT, requires_grad=True)
            ftup = lambda t, ys, A_: tuple(x.reshape(1) for x in (A_ @ torch.cat([ys[0], ys[1]])))
            why = None
            try:
                with warnings.catch_warnings():
                    warnings.simplefilter("ignore")
                    out = xitorch.integrate.solve_ivp(ftup, ts, (ya, yb), params=(A,), method=method, **FWD[method])
                    yk = torch.cat([out[0], out[1]], dim=-1)[keep]
                    yr = lin_ref(ts[keep], torch.cat([ya, yb]), A)
                    w = torch.cos(torch.arange(yk.numel(), dtype=DT)).reshape(yk.shape)
                    g1 = torch.autograd.grad((yk * w).sum(), [ya, yb, A, ts], allow_unused=True)
                    r1 = torch.autograd.grad((yr * w).sum(), [ya, yb, A, ts], allow_unused=True)
                    tol = 20 * TOL[method]
                    for nm, a, b in zip(("y0[0]", "y0[1]", "A", "ts"), g1, r1):
                        a0 = a if a is not None else torch.zeros_like(b)
                        if nm == "ts":
                            a0, b = a0[keep], b[keep] if b.shape == a0.shape else b
                            b = r1[3][keep]
                        if not torch.allclose(a0, b, atol=tol, rtol=tol):
                            why = "gradient w.r.t. %s of a tuple state differs from the closed form by %.2e" % (nm, float((a0 - b).abs().max()))
                            break
            except Exception as e:
                why = "raised %s: %s" % (type(e).__name__, str(e)[:140])
            if why:
                ctx.violation("ivpadj/tuple-state/%s" % method, "solve_ivp(%s) with a list-of-tensors state on the %s grid: %s" % (method, gname, why), {"method": method, "grid": gname})
    from vlib import gradpattern
    ctx.replayed = gradpattern.replay(ctx, ["solve_ivp"], "ivpadj")
    from vlib import objstate
    ctx.replayed += objstate.replay(ctx, ["solve_ivp"], "ivpadj")
    from vlib import bwdreuse
    ctx.replayed += bwdreuse.replay(ctx, ["solve_ivp"], "ivpadj", sample=(120 if ctx.tier == "thorough" else 20))
    from vlib import bckhistory
    ctx.replayed += bckhistory.replay(ctx, ["solve_ivp"], "ivpadj", 3)
    ctx.samples.append(traces[0])
    ctx.notes.update(runs=len(traces), probe_runs=sum(1 for t_ in traces if t_["cfg"]["probe"]), segment_events=sum(1 for t_ in traces for e in t_["ev"] if e["a"] == "seg"))
    ctx.assumptions += [
        "families: y' = A y (reference: autograd through torch.matrix_exp) and the logistic equation (closed form); gradients w.r.t. y0, the parameter, every requested time",
        "tolerances per forward method (rk45 with atol 1e-11/rtol 1e-10: 2e-6; rk23: 2e-4; rk4/rk38 on 30 sub-intervals: 2e-5; euler on 400: 6e-2), x20 for first-order, x2000 for second-order gradients",
        "the probing backward method integrates each segment with 40 rk4 steps and reports (time pair, augmented state, option keys)",
        "plain (non-probe) runs contribute only their final verdicts",
        "TLC, SANY"]
    return ctx.finish(
        rule="case = (family, forward method, grid, requires-grad subset, cotangent support, parameter placement, probe or built-in backward, order)")


def replay(data):
    print(data["what"])
    return 1
