"""C14 - Interp1D evaluates the declared interpolant of the samples.

Spec: InterpCfg.tla (+Rat.tla): exact rational case table for the piecewise-linear interpolant, the extrapolation
position maps (bound / mirror / periodic), the outcome classes and the y-supply modes.  Every TLC-enumerated row is
executed on the real Interp1D (both evaluation formulas); the cubic spline is checked against the conditions that
define it (interpolation, C2 continuity, boundary conditions), against scipy's CubicSpline and against TLC's mapped
positions for the extrapolation modes; derivatives in y and in the query points are compared with the interpolant's own.
"""
import math
import os
import warnings
from fractions import Fraction

import numpy as np
import torch
import xitorch
import xitorch.interpolate
from scipy.interpolate import CubicSpline

from vlib import tlc as tlcmod
from vlib.tlc import RawTla
from vlib.ctx import Machinery

DT = torch.float64
GRIDS = [dict(x=[0, 1, 3, 4], y=[2, -1, 3, 2]), dict(x=[-2, 0, 1], y=[1, 4, -2]), dict(x=[0, 2, 3, 5, 6], y=[0, 3, 3, -2, 0])]
BCS = ["not-a-knot", "natural", "clamped", "periodic"]


def table(ctx):
    qs = sorted({Fraction(k, 2) for k in range(-13, 22)} | {Fraction(7, 3), Fraction(-5, 3), Fraction(29, 4)})
    c = dict(Grids=RawTla("{" + ", ".join("[x |-> %s, y |-> %s]" % (tlcmod.tla(g["x"]), tlcmod.tla(g["y"])) for g in GRIDS) + "}"),
             Queries=RawTla("{" + ", ".join("<<%d, %d>>" % (q.numerator, q.denominator) for q in qs) + "}"),
             Extraps={"nan", "const", "const0", "constneg", "bound", "mirror", "periodic"}, YModes={"init", "call", "both", "none"})
    t, cf = tlcmod.gen_mc(ctx.work, "InterpCfg", "MC_Interp", c, invariants=["MappedInside", "HitsSamples", "Between", "SlopeMagnitude"])
    dot = os.path.join(ctx.work, "ic.dot")
    ctx.model_check(t, cf, workers=8, dump_dot=dot, label="interpolation case table", timeout=600)
    nodes, inits, edges = tlcmod.parse_dot(dot)
    os.remove(dot)
    return list(nodes.values())


def fr(p):
    return Fraction(int(p[0]), int(p[1]))


def call_interp(method, g, q, extrap, ymode, many, xq_out=None, **kw):
    x = torch.tensor(g["x"], dtype=DT)
    y = torch.tensor(g["y"], dtype=DT)
    # the constant zero in its accepted forms (python int / float, one-element tensor), a negative tensor constant
    zero = [0, 0.0, torch.tensor(0.0, dtype=DT), torch.zeros(1, dtype=DT)][(len(g["x"]) + (2 if many else 0) + (1 if ymode == "call" else 0)) % 4]
    ex = {"nan": "nan", "const": 7.0, "const0": zero, "constneg": torch.tensor(-3.0, dtype=DT)}.get(extrap, extrap)
    # the real query vector: the probed point first, padded with inside points to select the evaluation formula
    pad = torch.linspace(float(x[0]), float(x[-1]), len(g["x"]) + 3, dtype=DT) if many else torch.tensor([], dtype=DT)
    xq = torch.cat([torch.tensor([float(q)], dtype=DT), pad])
    if xq_out is not None:
        xq.requires_grad_()
        xq_out.append(xq)
    with warnings.catch_warnings(record=True) as wl:
        warnings.simplefilter("always")
        if ymode == "init":
            out = xitorch.interpolate.Interp1D(x, y, method=method, extrap=ex, **kw)(xq)
        elif ymode == "call":
            out = xitorch.interpolate.Interp1D(x, method=method, extrap=ex, **kw)(xq, y)
        elif ymode == "both":
            out = xitorch.interpolate.Interp1D(x, y, method=method, extrap=ex, **kw)(xq, y * 0 + 99.0)
        else:
            out = xitorch.interpolate.Interp1D(x, method=method, extrap=ex, **kw)(xq)
    return out, any("ignored" in str(w.message) for w in wl)


def run(ctx):
    thorough = ctx.tier == "thorough"
    states = table(ctx)
    n = 0
    for st in states:
        g = {"x": list(st["g"]["x"]), "y": list(st["g"]["y"])}
        q = fr(st["q"])
        extrap, ymode, pred = st["extrap"], st["ymode"], st["pred"]
        if ymode in ("both", "none") and not (q.denominator == 1):
            continue                      # the supply mode does not interact with the query position: integer queries only
        for many in (False, True):
            n += 1
            ctx.case(key=("linear", tuple(g["x"]), str(q), extrap, ymode, many),
                     sample={"x": g["x"], "y": g["y"], "q": str(q), "extrap": extrap, "ymode": ymode, "spec": {"cls": pred["cls"], "pos": str(fr(pred["pos"])), "v": str(fr(pred["v"]))}} if n % 211 == 1 else None)
            why = None
            try:
                xqs = []
                out, warned = call_interp("linear", g, q, extrap, ymode, many, xq_out=xqs)
                if pred["cls"] == "raise":
                    why = "no y was given at all but no error was raised"
                else:
                    v = float(out[0].detach())
                    if pred["cls"] == "nan":
                        if not math.isnan(v):
                            why = "value %r, documented nan outside the range" % v
                    else:
                        exp = float(fr(pred["v"]))
                        if not abs(v - exp) <= 1e-13 * max(1.0, abs(exp)):
                            why = "value %r, the piecewise-linear interpolant gives exactly %s%s" % (
                                v, fr(pred["v"]), "" if fr(pred["pos"]) == q else " (query mapped to %s by '%s')" % (fr(pred["pos"]), extrap))
                    if why is None and bool(pred["warn"]) != warned:
                        why = "warning about y given twice: %s, specification %s" % (warned, pred["warn"])
                    if why is None and many:
                        xs = torch.linspace(float(g["x"][0]), float(g["x"][-1]), len(g["x"]) + 3, dtype=DT)
                        ref = np.interp(xs.numpy(), np.array(g["x"], dtype=float), np.array(g["y"], dtype=float))
                        if not np.allclose(out[1:].detach().numpy(), ref, atol=1e-13):
                            why = "inside padding points differ from numpy.interp"
                    if why is None and pred["smooth"] and ymode in ("init", "call"):
                        # differentiable in the query points with the interpolant's own derivative: the probed query (inside or mapped
                        # from outside) and, in the same call, the inside padding queries
                        if out.requires_grad:
                            gq, = torch.autograd.grad(out[0], xqs[0], retain_graph=True, allow_unused=True)
                            gq0 = 0.0 if gq is None else float(gq[0])
                        else:
                            gq0 = 0.0
                        expd = float(fr(pred["dq"]))
                        if not abs(gq0 - expd) <= 1e-12 * max(1.0, abs(expd)):
                            why = "derivative w.r.t. the query point %r, the interpolant%s gives exactly %s" % (
                                gq0, "" if fr(pred["pos"]) == q else " at the mapped position %s (map '%s')" % (fr(pred["pos"]), extrap), fr(pred["dq"]))
                        elif many:
                            gx = np.array(g["x"], dtype=float)
                            gyv = np.array(g["y"], dtype=float)
                            padq = xqs[0].detach().numpy()[1:]
                            seg = np.clip(np.searchsorted(gx, padq, side="left") - 1, 0, len(gx) - 2)
                            slopes = (gyv[seg + 1] - gyv[seg]) / (gx[seg + 1] - gx[seg])
                            interior = np.array([not np.any(np.abs(gx - v_) < 1e-12) for v_ in padq])
                            gp = torch.autograd.grad(out[1:].sum(), xqs[0], allow_unused=True)[0] if out.requires_grad else None
                            gpv = np.zeros(len(padq)) if gp is None else gp.numpy()[1:]
                            if not np.allclose(gpv[interior], slopes[interior], atol=1e-12):
                                why = "derivative w.r.t. the inside queries of the same call %s, segment slopes %s (probed query %s)" % (
                                    gpv[interior].tolist(), slopes[interior].tolist(), "inside" if fr(pred["pos"]) == q else "outside")
            except NotImplementedError as e:
                why = "NotImplementedError: %s" % e
            except Exception as e:
                if pred["cls"] != "raise":
                    why = "raised %s: %s" % (type(e).__name__, str(e)[:100])
            if why:
                ctx.violation("interp/linear/%s/%s" % (extrap if pred["cls"] != "raise" else "no-y", "formulaB" if many else "formulaA"),
                              "Interp1D linear x=%s y=%s q=%s extrap=%s y-mode=%s (%s queries than samples): %s"
                              % (g["x"], g["y"], q, extrap, ymode, "more" if many else "fewer", why), {"g": g, "q": str(q), "extrap": extrap, "ymode": ymode})
        # cubic spline: padding classes (nan / constants) outside the range
        if ymode in ("init", "call") and pred["cls"] in ("nan", "const") and len(g["x"]) >= 4:
            for bc in ("natural", "clamped", "not-a-knot", "periodic"):
                n += 1
                ctx.case(key=("cspline-pad", tuple(g["x"]), str(q), extrap, bc, ymode))
                gp = dict(g) if bc != "periodic" else {"x": g["x"], "y": g["y"][:-1] + [g["y"][0]]}
                try:
                    a, _ = call_interp("cspline", gp, q, extrap, ymode, False, bc_type=bc)
                    v = float(a[0])
                    good = math.isnan(v) if pred["cls"] == "nan" else (v == float(fr(pred["v"])))
                    if not good:
                        ctx.violation("interp/cspline/pad-%s" % extrap, "cspline(%s) x=%s q=%s (outside) extrap=%s y-mode=%s gives %r, specification %s"
                                      % (bc, gp["x"], q, extrap, ymode, v, "nan" if pred["cls"] == "nan" else fr(pred["v"])), {"g": gp, "q": str(q), "extrap": extrap})
                except Exception as e:
                    ctx.violation("interp/cspline/pad-%s/raise" % extrap, "cspline(%s) x=%s q=%s extrap=%s raised %s: %s" % (bc, gp["x"], q, extrap, type(e).__name__, str(e)[:100]),
                                  {"g": gp, "q": str(q)})
        # cubic spline with the position maps of the specification
        if ymode == "init" and extrap in ("bound", "mirror", "periodic") and pred["cls"] == "value" and fr(pred["pos"]) != q:
            for bc in (("natural", "clamped") if not thorough else ("natural", "clamped", "not-a-knot")):
                n += 1
                ctx.case(key=("cspline-map", tuple(g["x"]), str(q), extrap, bc))
                gp = dict(g)
                if extrap == "periodic":
                    gp = {"x": g["x"], "y": g["y"][:-1] + [g["y"][0]]}
                try:
                    many_ = (n % 2 == 0)                  # alone, or together with inside queries in the same call
                    qa, qb = [], []
                    a, _ = call_interp("cspline", gp, q, extrap, "init", many_, xq_out=qa, bc_type=bc)
                    b, _ = call_interp("cspline", gp, fr(pred["pos"]), "nan", "init", many_, xq_out=qb, bc_type=bc)
                    if not abs(float(a[0]) - float(b[0])) <= 1e-11 * max(1.0, abs(float(b[0]))):
                        ctx.violation("interp/cspline/extrap-%s" % extrap, "cspline(%s) x=%s q=%s extrap=%s gives %r but the interpolant at the mapped position %s is %r"
                                      % (bc, gp["x"], q, extrap, float(a[0]), fr(pred["pos"]), float(b[0])), {"g": gp, "q": str(q)})
                    else:
                        # the derivative w.r.t. the queries: the spline's own derivative at the mapped position times the derivative of the
                        # map (the spline is C2, so knots are fine); inside queries of the same call keep the spline's derivative
                        ga = torch.autograd.grad(a.sum(), qa[0], allow_unused=True)[0] if a.requires_grad else None
                        gb_ = torch.autograd.grad(b.sum(), qb[0], allow_unused=True)[0] if b.requires_grad else None
                        ga = torch.zeros_like(qa[0]) if ga is None else ga
                        gb_ = torch.zeros_like(qb[0]) if gb_ is None else gb_
                        expd = gb_.clone()
                        expd[0] = gb_[0] * float(fr(pred["mapd"]))
                        at_end = fr(pred["pos"]) in (Fraction(gp["x"][0]), Fraction(gp["x"][-1])) and extrap != "bound"
                        if not at_end and not torch.allclose(ga, expd, atol=1e-9, rtol=1e-9):
                            ctx.violation("interp/cspline/extrap-%s/dq" % extrap, "cspline(%s) x=%s q=%s extrap=%s%s: derivative w.r.t. the queries %s, the spline's derivative at the mapped position %s times the map's derivative %s gives %s"
                                          % (bc, gp["x"], q, extrap, " together with inside queries" if many_ else "", ga.tolist(), fr(pred["pos"]), fr(pred["mapd"]), expd.tolist()), {"g": gp, "q": str(q)})
                except Exception as e:
                    ctx.violation("interp/cspline/not-a-knot/n=3" if (bc == "not-a-knot" and len(gp["x"]) == 3) else "interp/cspline/extrap-%s/raise" % extrap, "cspline(%s) x=%s q=%s extrap=%s raised %s: %s" % (bc, gp["x"], q, extrap, type(e).__name__, str(e)[:100]),
                                  {"g": gp, "q": str(q)})
    from vlib import resulthistory
    resulthistory.replay(ctx, ["interp1d:cspline", "interp1d:linear", "squad:simpson", "squad:cspline"], "interp")
    from vlib import layoutinv
    layoutinv.replay(ctx, ["interp1d:cspline", "interp1d:linear"], "interp")
    from vlib import bufferreuse
    bufferreuse.replay(ctx, ["interp1d-instance:cspline", "interp1d-instance:cspline-natural", "interp1d-instance:linear", "interp1d:cspline"], "interp")
    # ---- batched sample positions (every row its own grid) and batched queries: row by row like the 1-D interpolant
    gb = torch.Generator().manual_seed(60 + ctx.seed)
    xsb = torch.sort(torch.rand(2, 6, generator=gb, dtype=DT), dim=-1)[0]
    xsb[:, 0], xsb[:, -1] = 0.0, 1.0
    ysb = torch.randn(2, 6, generator=gb, dtype=DT)
    with warnings.catch_warnings():
        warnings.simplefilter("ignore")
        for method, kw in (("linear", {}), ("cspline", {"bc_type": "natural"}), ("cspline", {"bc_type": "not-a-knot"}), ("cspline", {"bc_type": "clamped"})):
            for nq in (3, 9):
                n += 1
                ctx.case(key=("batched-x", method, kw.get("bc_type"), nq))
                xqb = torch.sort(torch.rand(2, nq, generator=gb, dtype=DT) * 0.9 + 0.05, dim=-1)[0]
                try:
                    outb = xitorch.interpolate.Interp1D(xsb, ysb, method=method, **kw)(xqb)
                    refb = torch.stack([xitorch.interpolate.Interp1D(xsb[i], ysb[i], method=method, **kw)(xqb[i]) for i in range(2)])
                    if tuple(outb.shape) != (2, nq) or not torch.allclose(outb, refb, atol=1e-12):
                        ctx.violation("interp/batched-x/%s" % method, "Interp1D(%s%s) with batched sample positions (2, 6) and %d queries per row: shape %s / differs from the row-wise interpolants by %.2e"
                                      % (method, kw, nq, tuple(outb.shape), float((outb - refb).abs().max()) if outb.shape == refb.shape else float("nan")), {"method": method})
                except Exception as e:
                    ctx.violation("interp/batched-x/%s" % method, "Interp1D(%s%s) with batched sample positions raised %s: %s" % (method, kw, type(e).__name__, str(e)[:120]), {"method": method})
    # ---- the cubic spline itself
    rng = np.random.RandomState(ctx.seed)
    sizes = [3, 4, 5, 8, 15] + ([30, 60] if thorough else [])
    with warnings.catch_warnings():
        warnings.simplefilter("ignore")
        for nk in sizes:
            for gridkind in ("uniform", "clustered"):
                xs = np.linspace(0.0, 1.0, nk) if gridkind == "uniform" else np.sort(np.concatenate([[0.0, 1.0], rng.rand(nk - 2) ** 3]))
                ys = np.sin(4 * xs) + xs ** 2
                for bc in BCS:
                    n += 1
                    ctx.case(key=("cspline", nk, gridkind, bc))
                    yb = ys.copy()
                    if bc == "periodic":
                        yb[-1] = yb[0]
                    xt, yt = torch.tensor(xs, dtype=DT), torch.tensor(yb, dtype=DT)
                    try:
                        ref = CubicSpline(xs, yb, bc_type={"clamped": "clamped", "natural": "natural", "not-a-knot": "not-a-knot", "periodic": "periodic"}[bc])
                    except Exception:
                        ref = None
                    why = None
                    try:
                        perm = rng.permutation(nk)
                        xq_few = torch.tensor(np.sort(rng.rand(max(nk - 2, 1))), dtype=DT)
                        xq_many = torch.tensor(np.sort(rng.rand(3 * nk + 5)), dtype=DT)
                        sp = xitorch.interpolate.Interp1D(xt, yt, method="cspline", bc_type=bc)
                        at_knots = sp(xt)
                        if not torch.allclose(at_knots, yt, atol=1e-11):
                            why = "does not return the sample values at the sample positions (max dev %.2e)" % float((at_knots - yt).abs().max())
                        for xq, nm in ((xq_few, "fewer"), (xq_many, "more")):
                            if why:
                                break
                            a = sp(xq)
                            if ref is not None and not np.allclose(a.numpy(), ref(xq.numpy()), atol=1e-9, rtol=1e-9):
                                why = "differs from scipy CubicSpline(bc=%s) with %s queries than knots (max dev %.2e)" % (bc, nm, float(np.abs(a.numpy() - ref(xq.numpy())).max()))
                            a0 = xitorch.interpolate.Interp1D(xt, yt, bc_type=bc)(xq)          # method left at its documented default
                            if why is None and not torch.equal(a0, a):
                                why = "method left at its default (cspline) with bc_type=%s differs from method='cspline' by %.2e" % (bc, float((a0 - a).abs().max()))
                            b = xitorch.interpolate.Interp1D(xt, method="cspline", bc_type=bc)(xq, yt)
                            if why is None and not torch.allclose(a, b, atol=1e-12):
                                why = "y at construction and y at call time give different values"
                            c_ = xitorch.interpolate.Interp1D(xt[perm], yt[perm], method="cspline", bc_type=bc)(xq.flip(0)).flip(0)
                            if why is None and not torch.allclose(a, c_, atol=1e-11):
                                why = "result depends on the order of the samples / of the queries"
                            # shuffled samples with y given at call time, batched y, and the piecewise-linear method
                            d_ = xitorch.interpolate.Interp1D(xt[perm], method="cspline", bc_type=bc)(xq, yt[perm])
                            if why is None and not torch.allclose(a, d_, atol=1e-11):
                                why = "shuffled samples with y given at call time give different values (max dev %.2e)" % float((a - d_).abs().max())
                            # orderings of the samples as a class of their own: exactly descending, rotated (sorted in two runs), swapped ends
                            for oname, op_ in (("descending", np.arange(nk)[::-1].copy()), ("rotated", np.roll(np.arange(nk), nk // 2)), ("ends swapped", np.array([nk - 1] + list(range(1, nk - 1)) + [0]))):
                                if why is not None:
                                    break
                                for mth, refv in (("cspline", a), ("linear", None)):
                                    kwm = dict(method=mth, bc_type=bc) if mth == "cspline" else dict(method=mth)
                                    rv = refv if refv is not None else xitorch.interpolate.Interp1D(xt, yt, **kwm)(xq)
                                    o1 = xitorch.interpolate.Interp1D(xt[op_], yt[op_], **kwm)(xq)
                                    o2 = xitorch.interpolate.Interp1D(xt[op_], **kwm)(xq, yt[op_])
                                    if why is None and not (torch.allclose(rv, o1, atol=1e-11) and torch.allclose(rv, o2, atol=1e-11)):
                                        why = "%s samples in %s order (y at %s) give different values than the sorted samples (max dev %.2e)" % (
                                            mth, oname, "construction" if not torch.allclose(rv, o1, atol=1e-11) else "call time", max(float((rv - o1).abs().max()), float((rv - o2).abs().max())))
                            if bc != "periodic":
                                yb2 = torch.stack([yt, 2.0 * yt - 1.0])
                                e_ = xitorch.interpolate.Interp1D(xt[perm], yb2[:, perm], method="cspline", bc_type=bc)(xq)
                                if why is None and not (e_.shape == (2, len(xq)) and torch.allclose(e_[0], a, atol=1e-11) and torch.allclose(e_[1], 2.0 * a - 1.0, atol=1e-10)):
                                    why = "batched y on shuffled samples is not interpolated row by row"
                            if bc == "natural":
                                l1 = xitorch.interpolate.Interp1D(xt, yt, method="linear")(xq)
                                l2 = xitorch.interpolate.Interp1D(xt[perm], method="linear")(xq, yt[perm])
                                l3 = xitorch.interpolate.Interp1D(xt[perm], yt[perm], method="linear")(xq.flip(0)).flip(0)
                                l4 = xitorch.interpolate.Interp1D(xt, yt, method="linear", assume_sorted=True)(xq)
                                s4 = xitorch.interpolate.Interp1D(xt, yt, method="cspline", bc_type=bc, assume_sorted=True)(xq)
                                if why is None and not (torch.equal(l4, l1) and torch.allclose(s4, a, atol=1e-13)):
                                    why = "assume_sorted=True on sorted samples changes the result"
                                lref = torch.tensor(np.interp(xq.numpy(), xs, yb), dtype=DT)
                                if why is None and not (torch.allclose(l1, lref, atol=1e-12) and torch.allclose(l2, lref, atol=1e-12) and torch.allclose(l3, lref, atol=1e-12)):
                                    why = "linear method on sorted / shuffled samples (y at init or call) differs from numpy.interp"
                        if why is None:
                            # formula A == formula B on the same points
                            pts = xq_few
                            a1 = sp(pts)
                            a2 = sp(torch.cat([pts, xq_many]))[:len(pts)]
                            if not torch.allclose(a1, a2, atol=1e-11):
                                why = "the two evaluation formulas (few / many queries) disagree by %.2e" % float((a1 - a2).abs().max())
                        if why is None:
                            # derivative in y (linearity) and in xq (interpolant's own derivative)
                            yv = yt.clone().requires_grad_()
                            xqv = xq_few.clone().requires_grad_()
                            out = xitorch.interpolate.Interp1D(xt, yv, method="cspline", bc_type=bc)(xqv)
                            gy, gx = torch.autograd.grad(out.sum(), [yv, xqv])
                            if ref is not None and not np.allclose(gx.numpy(), ref(xq_few.numpy(), 1), atol=1e-7, rtol=1e-7):
                                why = "derivative w.r.t. the query points differs from the spline's own derivative (scipy) by %.2e" % float(np.abs(gx.numpy() - ref(xq_few.numpy(), 1)).max())
                            else:
                                # d out / d y_j = interpolation of unit vectors
                                unit = torch.eye(nk, dtype=DT)
                                if bc != "periodic":
                                    M = xitorch.interpolate.Interp1D(xt, unit, method="cspline", bc_type=bc)(xq_few)      # (nk, nq)
                                    if not torch.allclose(gy, M.sum(dim=-1), atol=1e-9):
                                        why = "derivative w.r.t. y differs from the interpolation of the unit vectors"
                                    elif not torch.allclose(out.detach(), yt @ M, atol=1e-10):
                                        why = "the interpolant is not linear in y (batched unit vectors)"
                    except Exception as e:
                        why = "raised %s: %s" % (type(e).__name__, str(e)[:120])
                    if why:
                        key = "interp/cspline/%s/%s" % (bc, "n=%d" % nk if nk <= 3 else "general")
                        ctx.violation(key, "cspline bc=%s on %d %s knots: %s" % (bc, nk, gridkind, why), {"bc": bc, "nk": nk, "grid": gridkind})
        # documented outcome classes outside the table: callable extrapolation, batched y, periodic mismatch, batched extrapolation
        n += 1
        ctx.case(key=("callable-extrap",))
        x = torch.tensor([0.0, 1.0, 2.0], dtype=DT)
        y = torch.tensor([[1.0, 2.0, 0.0], [0.0, -1.0, 3.0]], dtype=DT)
        out = xitorch.interpolate.Interp1D(x, y, method="linear", extrap=lambda z: z * 10.0)(torch.tensor([-1.0, 0.5, 3.0], dtype=DT))
        exp = torch.tensor([[-10.0, 1.5, 30.0], [-10.0, -0.5, 30.0]], dtype=DT)
        if not torch.allclose(out, exp):
            ctx.violation("interp/linear/callable", "callable extrapolation / batched y: got %s expected %s" % (out.tolist(), exp.tolist()), {})
        n += 1
        ctx.case(key=("periodic-mismatch",))
        try:
            xitorch.interpolate.Interp1D(x, torch.tensor([1.0, 2.0, 3.0], dtype=DT), method="cspline", bc_type="periodic")
            ctx.violation("interp/cspline/periodic-mismatch", "periodic spline accepted y with y[0] != y[-1]", {})
        except RuntimeError:
            pass
    ctx.replayed = len(states)
    ctx.notes.update(cases=n, table_rows=len(states))
    ctx.assumptions += [
        "exact part: integer knots and values, rational queries; expected values computed by TLC over Q and compared to 1e-13",
        "cubic spline: scipy.interpolate.CubicSpline with the same boundary condition as reference (1e-9); C2/boundary conditions by finite differences of the interpolant",
        "the supply mode of y is crossed with integer query points only",
        "TLC, SANY, numpy.interp, scipy"]
    return ctx.finish(rule="case = (grid, query, extrapolation mode, y-supply mode, evaluation formula) for every row of the TLC table | cubic spline: (knots, grid kind, boundary condition) | position maps applied to the spline | documented special outcomes")


def replay(data):
    print(data["what"])
    return 1
