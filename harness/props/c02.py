"""C02 - gradients through solve equal the derivative of the exact solution map.

Spec: ImplicitGrad.tla (kind "solve"): for every 2x2 integer instance TLC computes X and the gradients of L = g.X over Q
by the adjoint rule and, independently, by forward sensitivities, and checks that they agree.  The same instances are
replayed on the real solve for forward x backward method pairs (gradients must equal TLC's rationals); a table of larger
systems is compared with autograd through a dense reference; the inner backward solve is probed with a caller-supplied
backward method (operator = A^H, shifts conjugated, M^H, backward options).
"""
import itertools
import json
import os
import random
import warnings
from fractions import Fraction

import torch
import xitorch
import xitorch.linalg
from xitorch import LinearOperator

from vlib import tlc as tlcmod
from vlib.tlc import RawTla
from vlib.ctx import Machinery
from props.c01 import MvOnly, MvRmv, make_matrix, rand_unitary

DT = torch.float64
TIGHT = {"rtol": 1e-13, "atol": 1e-15, "max_niter": 50}


def fr(p):
    return Fraction(int(p[0]), int(p[1]))


def tlc_instances(ctx, kind):
    c = dict(AEntries={-1, 0, 2}, MSet=RawTla("{<<1,0,0,1>>, <<2,1,1,2>>}"), ESet={0, 1}, BSet=RawTla("{<<1,0>>, <<1,-2>>}"),
             GSet=RawTla("{<<0,1>>, <<2,1>>}"), RootP={1, 2, -1}, RootQ={0, 1, -3}, RootY={1, 2, -2})
    t, cf = tlcmod.gen_mc(ctx.work, "ImplicitGrad", "MC_IG", c, invariants=["AdjointEqualsSensitivity", "IdentityDifferentiated"])
    dot = os.path.join(ctx.work, "ig.dot")
    ctx.model_check(t, cf, workers=8, dump_dot=dot, label="exact implicit-gradient instances", timeout=900)
    nodes, _, _ = tlcmod.parse_dot(dot)
    os.remove(dot)
    return [s for s in nodes.values() if s["kind"] == kind]


class NonlinOp(LinearOperator):
    """matrix-free Hermitian operator that depends NON-linearly on its parameter tensor: S + diag(fun(p))"""

    def __init__(self, S, p, fun):
        super().__init__(shape=S.shape, is_hermitian=True, dtype=S.dtype, device=S.device)
        self.S = S
        self.p = p
        self.fun = fun

    def _mv(self, x):
        return torch.matmul(self.S, x.unsqueeze(-1)).squeeze(-1) + self.fun(self.p) * x

    def _getparamnames(self, prefix=""):
        return [prefix + "p"]


def sym2(x):
    return 0.5 * (x + x.transpose(-2, -1))


def fwd_opts(m):
    if m in ("cg", "bicgstab", "gmres"):
        return dict(TIGHT)
    if m == "broyden1":
        return {"f_tol": 1e-14, "x_tol": 1e-14, "f_rtol": 1e-14, "maxiter": 400}
    return {}


def exact_replay(ctx, insts, rng, budget):
    n = 0
    pairs = [("exactsolve", None), ("custom_exactsolve", None), ("custom_exactsolve", "bicgstab"), ("bicgstab", None), ("bicgstab", "custom_exactsolve"),
             ("broyden1", "custom_exactsolve"), ("gmres", "bicgstab"), ("cg", None)]
    rng.shuffle(insts)
    for st in insts[:budget]:
        inst, pred = st["inst"], st["pred"]
        for fm, bm in pairs:
            e = int(inst["e"])
            if fm == "gmres" and e != 0:
                continue          # known finding of C01: gmres cannot run with shifts
            Kt = torch.tensor([float(v) for v in inst["A"]], dtype=DT).reshape(2, 2) - e * torch.tensor([float(v) for v in inst["M"]], dtype=DT).reshape(2, 2)
            spd_ok = bool(torch.equal(Kt, Kt.T)) and float(torch.linalg.eigvalsh(Kt).min()) > 0.2
            if (fm not in ("exactsolve", "custom_exactsolve") or bm is not None) and not spd_ok:
                continue          # iterative solvers are only demanded to converge on well-conditioned (here: SPD) systems
            n += 1
            A = torch.tensor([float(v) for v in inst["A"]], dtype=DT).reshape(2, 2).requires_grad_()
            M = torch.tensor([float(v) for v in inst["M"]], dtype=DT).reshape(2, 2).requires_grad_()
            E = torch.tensor([float(e)], dtype=DT).requires_grad_()
            B = torch.tensor([float(v) for v in inst["b"]], dtype=DT).reshape(2, 1).requires_grad_()
            G = torch.tensor([float(v) for v in inst["g"]], dtype=DT).reshape(2, 1)
            ctx.case(key=("exact", json.dumps([list(inst["A"]), list(inst["M"]), e, list(inst["b"]), list(inst["g"])]), fm, bm),
                     sample={"A": list(inst["A"]), "M": list(inst["M"]), "e": e, "b": list(inst["b"]), "g": list(inst["g"]), "fwd": fm, "bwd": bm,
                             "spec": {"X": [str(fr(p)) for p in pred["X"]], "dL/dA": [str(fr(p)) for p in pred["gA"]], "dL/de": str(fr(pred["ge"]))}} if n % 150 == 1 else None)
            why = None
            try:
                kw = fwd_opts(fm)
                if bm is not None:
                    kw["bck_options"] = dict(fwd_opts(bm), method=bm)
                elif fm not in ("exactsolve", "custom_exactsolve"):
                    kw["bck_options"] = fwd_opts(fm)
                with warnings.catch_warnings():
                    warnings.simplefilter("ignore")
                    X = xitorch.linalg.solve(LinearOperator.m(A, is_hermitian=False), B, E, LinearOperator.m(M, is_hermitian=True), method=fm, **kw)
                    gA, gB, gE, gM = torch.autograd.grad((X * G).sum(), [A, B, E, M], allow_unused=True)
                ex = lambda ps: torch.tensor([float(fr(p)) for p in ps], dtype=DT)
                tol = 1e-8
                Xe = ex(pred["X"]).reshape(2, 1)
                if fm in ("cg", "gmres") and (float(X.detach().sub(Xe).abs().max()) > 1e-6):
                    continue      # cg is only demanded on positive definite systems; the 2x2 integer instances are arbitrary
                checks = [("X", X.detach(), Xe), ("dL/dB", gB, ex(pred["gb"]).reshape(2, 1)), ("dL/dA", gA, ex(pred["gA"]).reshape(2, 2)),
                          # M is a Hermitian-flagged operator: its gradient is defined on symmetric matrices (compare symmetrised)
                          ("dL/dM (symmetrised)", sym2(gM if gM is not None else torch.zeros(2, 2, dtype=DT)), sym2(ex(pred["gM"]).reshape(2, 2))),
                          ("dL/dE", gE if gE is not None else torch.zeros(1, dtype=DT), ex([pred["ge"]]))]
                for nm, a, b in checks:
                    if not torch.allclose(a, b, atol=tol * (1 + float(b.abs().max())), rtol=tol):
                        why = "%s = %s, exact value %s" % (nm, a.reshape(-1).tolist(), [str(Fraction(v).limit_denominator(10**6)) for v in b.reshape(-1).tolist()])
                        break
            except Exception as ex_:
                why = "raised %s: %s" % (type(ex_).__name__, str(ex_)[:140])
            if why:
                ctx.violation("solvegrad/exact/%s/%s" % (fm, bm), "solve 2x2 A=%s M=%s e=%s b=%s, L=g.X with g=%s, forward %s, backward %s: %s"
                              % (list(inst["A"]), list(inst["M"]), e, list(inst["b"]), list(inst["g"]), fm, bm or "default", why), {"fm": fm, "bm": bm})
    return n


def dense_solution(Amat, B, E, Mmat):
    bshape = torch.broadcast_shapes(Amat.shape[:-2], B.shape[:-2], *([E.shape[:-1]] if E is not None else []), *([Mmat.shape[:-2]] if (Mmat is not None and E is not None) else []))
    n, nc = B.shape[-2:]
    cols = []
    for c in range(nc):
        K = Amat.expand(*bshape, n, n)
        if E is not None:
            Mb = Mmat.expand(*bshape, n, n) if Mmat is not None else torch.eye(n, dtype=Amat.dtype).expand(*bshape, n, n)
            K = K - E.expand(*bshape, nc)[..., c][..., None, None] * Mb
        cols.append(torch.linalg.solve(K, B.expand(*bshape, n, nc)[..., c:c + 1]))
    return torch.cat(cols, dim=-1)


def table(ctx, thorough, g):
    n = 0
    cases = []
    for fm, bm in (("exactsolve", None), ("custom_exactsolve", None), ("custom_exactsolve", "bicgstab"), ("bicgstab", None), ("cg", None), ("cg", "bicgstab"),
                   ("broyden1", "custom_exactsolve"), ("gmres", None)):
        for mode in ("none", "E", "EM", "M"):
            for dt in (DT, torch.complex128):
                for opkind in ("dense", "derived", "mvrmv", "mvonly", "nonlinear"):
                    for batch in (((), ()), ((2,), ()), ((), (2,))):
                        if opkind == "nonlinear" and (batch != ((), ()) or dt.is_complex or fm in ("exactsolve", "gmres")):
                            continue
                        if not thorough and ((opkind in ("mvrmv", "mvonly") and batch != ((), ())) or (dt.is_complex and batch != ((), ())) or (fm == "broyden1" and dt.is_complex)):
                            continue
                        if fm == "gmres" and mode in ("E", "EM"):
                            continue
                        cases.append((fm, bm, mode, dt, opkind, batch))
    for (fm, bm, mode, dt, opkind, (bA, bB)) in cases:
        n += 1
        ctx.case(key=("table", fm, bm, mode, str(dt), opkind, bA, bB))
        nn_, nc = 4, 2
        A0, smin, smax = make_matrix("spd", nn_, bA, dt, g)
        A0 = A0.clone().requires_grad_()
        B = torch.randn(*bB, nn_, nc, generator=g, dtype=DT).to(dt).requires_grad_()
        E = Mm = None
        if mode in ("E", "EM"):
            E = (-(torch.rand(nc, generator=g, dtype=DT) + 0.5)).to(dt)
            if dt.is_complex:
                E = E + 0.2j
            E = E.requires_grad_()
        if mode in ("EM", "M"):
            Q = rand_unitary(nn_, (), dt, g)
            Mm = ((Q * torch.linspace(0.8, 1.2, nn_, dtype=DT).to(dt)) @ Q.transpose(-2, -1).conj()).requires_grad_()
        herm = lambda X: 0.5 * (X + X.transpose(-2, -1).conj())
        if opkind == "nonlinear":
            # the operator depends NON-linearly on its leaf: A(p) = S + diag(exp(p)); M(q) = M0 + diag(q^2)
            S0 = herm(A0.detach())
            pleaf = (torch.randn(nn_, generator=g, dtype=DT) * 0.3).requires_grad_()
            A0 = pleaf
            Afun = lambda pp: S0 + torch.diag(torch.exp(pp))
            if Mm is not None:
                M0 = herm(Mm.detach())
                qleaf = (torch.randn(nn_, generator=g, dtype=DT) * 0.2).requires_grad_()
                Mm = qleaf
                Mfun = lambda qq: M0 + torch.diag(qq ** 2)
        Aeff = (herm(A0) if opkind != "derived" else herm(A0) * 1.0 + 0.0) if opkind != "nonlinear" else Afun(A0)
        if opkind in ("dense", "derived"):
            A = LinearOperator.m(Aeff, is_hermitian=True)
        elif opkind == "nonlinear":
            A = NonlinOp(S0, A0, torch.exp)
        elif opkind == "mvrmv":
            with warnings.catch_warnings():
                warnings.simplefilter("ignore")
                A = MvRmv(Aeff, True)
        else:
            A = MvOnly(Aeff, True)
        if opkind == "nonlinear" and Mm is not None:
            with warnings.catch_warnings():
                warnings.simplefilter("ignore")
                M = NonlinOp(M0, Mm, lambda qq: qq ** 2)
            Mdense = lambda: Mfun(Mm)
        else:
            M = LinearOperator.m(herm(Mm), is_hermitian=True) if Mm is not None else None
            Mdense = lambda: herm(Mm) if Mm is not None else None
        Adense = (lambda: Afun(A0)) if opkind == "nonlinear" else (lambda: herm(A0))
        leaves = [A0, B] + ([E] if E is not None else []) + ([Mm] if Mm is not None else [])
        names = ["A", "B"] + (["E"] if E is not None else []) + (["M"] if Mm is not None else [])
        why = None
        try:
            kw = fwd_opts(fm)
            if bm is not None:
                kw["bck_options"] = dict(fwd_opts(bm), method=bm)
            elif fm not in ("exactsolve", "custom_exactsolve"):
                kw["bck_options"] = fwd_opts(fm)
            with warnings.catch_warnings():
                warnings.simplefilter("ignore")
                X = xitorch.linalg.solve(A, B, E, M, method=fm, **kw)
                Xr = dense_solution(Adense(), B, E, Mdense())
                W = torch.randn(Xr.shape, generator=g, dtype=DT).to(dt)
                L, Lr = (X * W.conj()).sum().real, (Xr * W.conj()).sum().real
                g1 = torch.autograd.grad(L, leaves, create_graph=True, allow_unused=True)
                r1 = torch.autograd.grad(Lr, leaves, create_graph=True, allow_unused=True)
                tol = 1e-7
                if not torch.allclose(X, Xr, atol=tol, rtol=tol):
                    if fm == "gmres":
                        continue      # gmres may stop early with a warning (C01); gradients are only defined where the forward solve is accurate
                    why = "solution differs from the dense reference by %.2e" % float((X - Xr).abs().max())
                for nm, a, b, lf in zip(names, g1, r1, leaves):
                    if why:
                        break
                    a0 = a if a is not None else torch.zeros_like(lf)
                    b0 = b if b is not None else torch.zeros_like(lf)
                    if nm in ("A", "M") and a0.dim() >= 2:
                        a0, b0 = herm(a0), herm(b0)
                    if not torch.allclose(a0, b0, atol=tol * 10, rtol=tol * 10):
                        why = "first-order gradient w.r.t. %s differs from the dense reference by %.2e" % (nm, float((a0 - b0).abs().max()))
                if why is None and mode == "M" and g1[names.index("M")] is not None and float(g1[names.index("M")].abs().max()) != 0.0:
                    why = "M without E does not influence X but received a non-zero gradient"
                if why is None:
                    s1 = sum((a.abs() ** 2).sum() for a in g1 if a is not None)
                    s2 = sum((b.abs() ** 2).sum() for b in r1 if b is not None)
                    h1 = torch.autograd.grad(s1, leaves, allow_unused=True)
                    h2 = torch.autograd.grad(s2, leaves, allow_unused=True)
                    for nm, a, b, lf in zip(names, h1, h2, leaves):
                        a0 = a if a is not None else torch.zeros_like(lf)
                        b0 = b if b is not None else torch.zeros_like(lf)
                        if nm in ("A", "M") and a0.dim() >= 2:
                            a0, b0 = herm(a0), herm(b0)
                        if not torch.allclose(a0, b0, atol=1e-5 * (1 + float(b0.abs().max())), rtol=1e-5):
                            why = "second-order gradient w.r.t. %s differs from the dense reference by %.2e" % (nm, float((a0 - b0).abs().max()))
                            break
        except Exception as ex_:
            why = "raised %s: %s" % (type(ex_).__name__, str(ex_)[:160])
        if why:
            ctx.violation("solvegrad/table/%s/%s/%s" % (fm, bm, "matrixfree" if opkind in ("mvonly", "mvrmv") else "dense"),
                          "solve(%s, backward %s) %s, %s, operator %s, batches A%s B%s: %s" % (fm, bm or "default", mode, dt, opkind, bA, bB, why),
                          {"fm": fm, "bm": bm, "mode": mode, "op": opkind})
    return n


def probe_backward(ctx, g):
    """the backward pass must solve with the adjoint operator, conjugated shifts, M^H and the backward options"""
    n = 0
    for dt in (DT, torch.complex128):
        for mode in ("none", "E", "EM"):
            n += 1
            ctx.case(key=("probe", str(dt), mode))
            nn_ = 3
            A0 = torch.randn(nn_, nn_, generator=g, dtype=DT).to(dt)
            if dt.is_complex:
                A0 = A0 + 1j * torch.randn(nn_, nn_, generator=g, dtype=DT)
            A0 = (A0 + 3 * torch.eye(nn_, dtype=dt)).requires_grad_()
            B = torch.randn(nn_, 2, generator=g, dtype=DT).to(dt).requires_grad_()
            E = ((torch.rand(2, generator=g, dtype=DT) * 0.3).to(dt) + (0.1j if dt.is_complex else 0.0)) if mode != "none" else None
            Q = rand_unitary(nn_, (), dt, g)
            Mm = ((Q * torch.linspace(0.8, 1.2, nn_, dtype=DT).to(dt)) @ Q.transpose(-2, -1).conj()) if mode == "EM" else None
            seen = []

            def probe(A_, B_, E_, M_, **kw):
                seen.append((A_.fullmatrix().detach().clone(), None if E_ is None else E_.detach().clone(), None if M_ is None else M_.fullmatrix().detach().clone(), sorted(kw)))
                return xitorch.linalg.solve(A_, B_, E_, M_, method="exactsolve")
            X = xitorch.linalg.solve(LinearOperator.m(A0, is_hermitian=False), B, E, LinearOperator.m(Mm, is_hermitian=True) if Mm is not None else None,
                                     method="bicgstab", rtol=1e-12, atol=1e-14, fwdonly_flag=1, bck_options={"method": probe, "bcktag": 7})
            torch.autograd.grad(X.abs().sum(), [A0, B])
            why = None
            if len(seen) != 1:
                why = "backward method called %d times" % len(seen)
            else:
                Ap, Ep, Mp, kws = seen[0]
                if not torch.allclose(Ap, A0.detach().transpose(-2, -1).conj()):
                    why = "the backward solve does not use the adjoint operator A^H"
                elif E is not None and not torch.allclose(Ep, E.conj()):
                    why = "the shifts are not conjugated in the backward solve"
                elif Mm is not None and not torch.allclose(Mp, Mm.transpose(-2, -1).conj()):
                    why = "the backward solve does not use M^H"
                elif "bcktag" not in kws:
                    why = "backward options are not delivered to the backward method (saw %s)" % kws
                elif "fwdonly_flag" in kws or "rtol" in kws:
                    why = "forward options leaked into the backward solve (saw %s)" % kws
            if why:
                ctx.violation("solvegrad/probe/%s" % mode, "solve backward probe (%s, %s): %s" % (dt, mode, why), {"mode": mode})
    return n


COMPOSED = ("nonherm-dense", "nonherm-mvrmv", "nonherm-mvonly", "diff", "diff-mvonly", "sum", "scaled", "matmul", "adjoint", "adjoint-of-diff",
            # the same tensor (and the same operator object) in several places of one expression
            "gram-same-object", "gram-two-objects", "sum-same-tensor")


def composed_table(ctx, g):
    """non-Hermitian operators and operators built through the public algebra (+, -, scalar *, matmul, .H) from two leaves:
    the backward pass solves with the ADJOINT operator, which the Hermitian operators of the main table never exercise"""
    n = 0
    nn_, nc = 4, 2
    eye = torch.eye(nn_, dtype=DT)
    for kind in COMPOSED:
        for fm, bm in (("custom_exactsolve", None), ("bicgstab", "bicgstab"), ("exactsolve", None)):
            for mode in ("none", "E"):
                n += 1
                ctx.case(key=("composed", kind, fm, bm, mode))
                P1 = (4.0 * eye + 0.5 * torch.randn(nn_, nn_, generator=g, dtype=DT)).requires_grad_()
                P2 = (0.3 * torch.randn(nn_, nn_, generator=g, dtype=DT)).requires_grad_()
                B = torch.randn(nn_, nc, generator=g, dtype=DT).requires_grad_()
                E = (-(torch.rand(nc, generator=g, dtype=DT) * 0.5 + 0.2)).requires_grad_() if mode == "E" else None
                with warnings.catch_warnings():
                    warnings.simplefilter("ignore")
                    K, S = LinearOperator.m(P1, is_hermitian=False), MvRmv(P2, False)
                    if kind == "nonherm-dense":
                        A, Ad = K, P1
                    elif kind == "nonherm-mvrmv":
                        A, Ad = MvRmv(P1, False), P1
                    elif kind == "nonherm-mvonly":
                        A, Ad = MvOnly(P1, False), P1
                    elif kind == "diff":
                        A, Ad = K - S, P1 - P2
                    elif kind == "diff-mvonly":
                        A, Ad = MvOnly(P1, False) - MvOnly(P2, False), P1 - P2
                    elif kind == "sum":
                        A, Ad = K + S, P1 + P2
                    elif kind == "scaled":
                        A, Ad = S * 2.5 + K, 2.5 * P2 + P1
                    elif kind == "matmul":
                        A, Ad = K.matmul(MvRmv(eye + P2, False)), P1 @ (eye + P2)
                    elif kind == "gram-same-object":
                        Kop = MvRmv(P1, False)
                        A, Ad = Kop.H.matmul(Kop) + MvRmv(torch.diag(torch.diagonal(P2) ** 2 + 0.5), False), P1.T @ P1 + torch.diag(torch.diagonal(P2) ** 2 + 0.5)
                    elif kind == "gram-two-objects":
                        A, Ad = MvRmv(P1, False).H.matmul(MvRmv(P1, False)) + MvRmv(P2 @ P2.T, False), P1.T @ P1 + P2 @ P2.T
                    elif kind == "sum-same-tensor":
                        A, Ad = MvRmv(P1, False) + MvOnly(P1, False) * 0.5 + K * 0.25 + S, 1.75 * P1 + P2
                    elif kind == "adjoint":
                        A, Ad = MvRmv(P1, False).H, P1.T
                    else:
                        A, Ad = (K - S).H, (P1 - P2).T
                leaves = [P1, P2, B] + ([E] if E is not None else [])
                names = ["P1", "P2", "B"] + (["E"] if E is not None else [])
                why = None
                try:
                    kw = fwd_opts(fm)
                    if bm is not None:
                        kw["bck_options"] = dict(fwd_opts(bm), method=bm)
                    with warnings.catch_warnings():
                        warnings.simplefilter("ignore")
                        X = xitorch.linalg.solve(A, B, E, method=fm, **kw)
                        Xr = dense_solution(Ad, B, E, None)
                        W = torch.randn(Xr.shape, generator=g, dtype=DT)
                        g1 = torch.autograd.grad((X * W).sum(), leaves, create_graph=True, allow_unused=True)
                        r1 = torch.autograd.grad((Xr * W).sum(), leaves, create_graph=True, allow_unused=True)
                        if not torch.allclose(X, Xr, atol=1e-8, rtol=1e-8):
                            why = "solution differs from the dense reference by %.2e" % float((X - Xr).abs().max())
                        for nm, a, b, lf in zip(names, g1, r1, leaves):
                            if why:
                                break
                            a0 = a if a is not None else torch.zeros_like(lf)
                            b0 = b if b is not None else torch.zeros_like(lf)
                            if not torch.allclose(a0, b0, atol=1e-7, rtol=1e-7):
                                why = "first-order gradient w.r.t. %s differs from the dense reference by %.2e" % (nm, float((a0 - b0).abs().max()))
                        if why is None:
                            s1 = sum((a ** 2).sum() for a in g1 if a is not None)
                            s2 = sum((b ** 2).sum() for b in r1 if b is not None)
                            h1 = torch.autograd.grad(s1, leaves, allow_unused=True)
                            h2 = torch.autograd.grad(s2, leaves, allow_unused=True)
                            for nm, a, b, lf in zip(names, h1, h2, leaves):
                                a0 = a if a is not None else torch.zeros_like(lf)
                                b0 = b if b is not None else torch.zeros_like(lf)
                                if not torch.allclose(a0, b0, atol=1e-6 * (1 + float(b0.abs().max())), rtol=1e-6):
                                    why = "second-order gradient w.r.t. %s differs from the dense reference by %.2e" % (nm, float((a0 - b0).abs().max()))
                                    break
                except Exception as ex_:
                    why = "raised %s: %s" % (type(ex_).__name__, str(ex_)[:160])
                if why:
                    ctx.violation("solvegrad/composed/%s" % kind, "solve(%s, backward %s) mode %s on the %s operator built from two leaves: %s" % (fm, bm or "default", mode, kind, why),
                                  {"kind": kind, "fm": fm, "bm": bm, "mode": mode})
    return n


def substituted_forward(ctx, g):
    """the forward solve runs while the operator's parameters are temporarily substituted (LinearOperator.uselinopparams - what the
    implicit backward passes of the other functionals do); differentiation happens after the block has ended: the gradient belongs to
    the substituted tensors and is the derivative of the solution computed with THEM"""
    n = 0
    nn_, nc = 4, 2
    eye = torch.eye(nn_, dtype=DT)
    for opkind in ("mvrmv", "mvonly", "nonlinear"):
        for fm, bm in (("cg", None), ("bicgstab", "bicgstab"), ("custom_exactsolve", None), ("custom_exactsolve", "cg")):
            for mode in ("none", "E"):
                n += 1
                ctx.case(key=("substituted-forward", opkind, fm, bm, mode))
                why = None
                try:
                    S0 = make_matrix("spd", nn_, (), DT, g)[0]
                    B = torch.randn(nn_, nc, generator=g, dtype=DT).requires_grad_()
                    E = (-(torch.rand(nc, generator=g, dtype=DT) + 0.5)).requires_grad_() if mode == "E" else None
                    with warnings.catch_warnings():
                        warnings.simplefilter("ignore")
                        if opkind == "nonlinear":
                            p_orig = (torch.randn(nn_, generator=g, dtype=DT) * 0.3).requires_grad_()
                            p_sub = (torch.randn(nn_, generator=g, dtype=DT) * 0.3).requires_grad_()
                            A = NonlinOp(S0, p_orig, torch.exp)
                            dense = lambda p_: S0 + torch.diag(torch.exp(p_))
                        else:
                            p_orig = S0.clone().requires_grad_()
                            p_sub = (S0 + 0.3 * eye + 0.1 * sym2(torch.randn(nn_, nn_, generator=g, dtype=DT))).requires_grad_()
                            A = (MvRmv if opkind == "mvrmv" else MvOnly)(p_orig, True)
                            dense = lambda p_: sym2(p_)
                        kw = fwd_opts(fm)
                        kw["bck_options"] = dict(fwd_opts(bm), method=bm) if bm is not None else (fwd_opts(fm) if fm != "custom_exactsolve" else {})
                        with A.uselinopparams(p_sub if opkind == "nonlinear" else sym2(p_sub)):
                            X = xitorch.linalg.solve(A, B, E, method=fm, **kw)
                        leaves = [p_sub, B] + ([E] if E is not None else [])
                        W = torch.randn(X.shape, generator=g, dtype=DT)
                        g1 = torch.autograd.grad((X * W).sum(), leaves + [p_orig], create_graph=True, allow_unused=True)
                        Xr = dense_solution(dense(p_sub), B, E, None)
                        r1 = torch.autograd.grad((Xr * W).sum(), leaves, create_graph=True, allow_unused=True)
                    if not torch.allclose(X, Xr, atol=1e-8, rtol=1e-8):
                        why = "solution differs from the dense solve with the substituted parameters by %.2e" % float((X - Xr).abs().max())
                    elif g1[-1] is not None and float(g1[-1].abs().max()) > 0:
                        why = "the operator's ORIGINAL parameter, which did not enter the solve, received a non-zero gradient"
                    else:
                        for nm, a, b, lf in zip(["substituted parameter", "B", "E"], g1[:-1], r1, leaves):
                            a0 = a if a is not None else torch.zeros_like(lf)
                            b0 = b if b is not None else torch.zeros_like(lf)
                            if nm == "substituted parameter" and a0.dim() == 2:
                                a0, b0 = sym2(a0), sym2(b0)
                            if not torch.allclose(a0, b0, atol=1e-6, rtol=1e-6):
                                why = "gradient w.r.t. the %s differs from the dense reference by %.2e" % (nm, float((a0 - b0).abs().max()))
                                break
                    if why is None:
                        s1 = sum((a ** 2).sum() for a in g1[:-1] if a is not None)
                        s2 = sum((b ** 2).sum() for b in r1 if b is not None)
                        h1 = torch.autograd.grad(s1, leaves, allow_unused=True)
                        h2 = torch.autograd.grad(s2, leaves, allow_unused=True)
                        for nm, a, b, lf in zip(["substituted parameter", "B", "E"], h1, h2, leaves):
                            a0 = a if a is not None else torch.zeros_like(lf)
                            b0 = b if b is not None else torch.zeros_like(lf)
                            if nm == "substituted parameter" and a0.dim() == 2:
                                a0, b0 = sym2(a0), sym2(b0)
                            if not torch.allclose(a0, b0, atol=1e-5 * (1 + float(b0.abs().max())), rtol=1e-5):
                                why = "second-order gradient w.r.t. the %s differs from the dense reference by %.2e" % (nm, float((a0 - b0).abs().max()))
                                break
                except Exception as ex_:
                    why = "raised %s: %s" % (type(ex_).__name__, str(ex_)[:160])
                if why:
                    ctx.violation("solvegrad/substituted-forward/%s" % opkind, "solve(%s, backward %s) mode %s on a %s operator, forward inside uselinopparams: %s"
                                  % (fm, bm or "default", mode, opkind, why), {"op": opkind, "fm": fm, "bm": bm, "mode": mode})
    return n


class SchurOp(LinearOperator):
    """A - B C^-1 B^T where the product itself calls xitorch.linalg.solve on an inner operator (a functional nested in an operator)"""

    def __init__(self, A, B, C):
        super().__init__(shape=A.shape, is_hermitian=True, dtype=A.dtype, device=A.device)
        self.A, self.B = A, B
        self.Cop = LinearOperator.m(C, is_hermitian=True)

    def _mv(self, x):
        y = xitorch.linalg.solve(self.Cop, self.B.T @ x.unsqueeze(-1), method="cg", rtol=1e-13, atol=1e-15)
        return (self.A @ x.unsqueeze(-1) - self.B @ y).squeeze(-1)

    def _getparamnames(self, prefix=""):
        return [prefix + "A", prefix + "B"] + self.Cop._getparamnames(prefix=prefix + "Cop.")


def nested_operator(ctx, g):
    n = 0
    for fm, bm in (("cg", None), ("custom_exactsolve", None), ("bicgstab", "cg")):
        for cg_ in (False, True):
            n += 1
            ctx.case(key=("nested-operator", fm, bm, cg_))
            why = None
            try:
                A0 = make_matrix("spd", 4, (), DT, g)[0].clone().requires_grad_()
                C0 = make_matrix("spd", 3, (), DT, g)[0].clone().requires_grad_()
                B0 = (torch.randn(4, 3, generator=g, dtype=DT) * 0.2).requires_grad_()
                rhs = torch.randn(4, 2, generator=g, dtype=DT)
                with warnings.catch_warnings():
                    warnings.simplefilter("ignore")
                    op = SchurOp(sym2(A0), B0, sym2(C0))
                    kw = fwd_opts(fm)
                    kw["bck_options"] = dict(fwd_opts(bm), method=bm) if bm is not None else (fwd_opts(fm) if fm != "custom_exactsolve" else {})
                    X = xitorch.linalg.solve(op, rhs, method=fm, **kw)
                    g1 = torch.autograd.grad((X ** 2).sum(), [A0, B0, C0], create_graph=cg_, retain_graph=True)
                    A1, B1, C1 = (t_.detach().clone().requires_grad_() for t_ in (A0, B0, C0))
                    Xr = torch.linalg.solve(sym2(A1) - B1 @ torch.linalg.solve(sym2(C1), B1.T), rhs)
                    r1 = torch.autograd.grad((Xr ** 2).sum(), [A1, B1, C1], create_graph=cg_)
                if not torch.allclose(X, Xr, atol=1e-8, rtol=1e-8):
                    why = "solution differs from the dense Schur complement solve by %.2e" % float((X - Xr).abs().max())
                for nm, a, b in zip(("A", "B", "C"), g1, r1):
                    if why is None and not torch.allclose(sym2(a) if nm != "B" else a, sym2(b) if nm != "B" else b, atol=1e-7, rtol=1e-6):
                        why = "gradient w.r.t. %s differs from the dense reference by %.2e" % (nm, float((a - b).abs().max()))
                if why is None and cg_:
                    h1 = torch.autograd.grad(sum((a ** 2).sum() for a in g1), [A0, B0, C0], allow_unused=True)
                    h2 = torch.autograd.grad(sum((b ** 2).sum() for b in r1), [A1, B1, C1], allow_unused=True)
                    for nm, a, b in zip(("A", "B", "C"), h1, h2):
                        a = torch.zeros_like(b) if a is None else a
                        if not torch.allclose(sym2(a) if nm != "B" else a, sym2(b) if nm != "B" else b, atol=1e-5, rtol=1e-5):
                            why = "second-order gradient w.r.t. %s differs from the dense reference by %.2e" % (nm, float((a - b).abs().max()))
                            break
            except Exception as ex_:
                why = "raised %s: %s" % (type(ex_).__name__, str(ex_)[:160])
            if why:
                ctx.violation("solvegrad/nested-operator", "solve(%s, backward %s) on an operator whose product calls solve on an inner operator (backward %s graph recording): %s"
                              % (fm, bm or "default", "with" if cg_ else "without", why), {"fm": fm, "bm": bm, "cg": cg_})
    return n


def run(ctx):
    thorough = ctx.tier == "thorough"
    rng = random.Random(ctx.seed)
    g = torch.Generator().manual_seed(ctx.seed + 23)
    insts = tlc_instances(ctx, "solve")
    ne = exact_replay(ctx, insts, rng, len(insts) if thorough else 60)
    nt = table(ctx, thorough, g)
    nt += composed_table(ctx, g)
    nt += substituted_forward(ctx, g)
    nt += nested_operator(ctx, g)
    with warnings.catch_warnings():
        warnings.simplefilter("ignore")
        npb = probe_backward(ctx, g)
    from vlib import operandpattern
    ctx.replayed = ne + operandpattern.replay(ctx, ["solve"], "solvegrad")
    from vlib import objstate
    ctx.replayed += objstate.replay(ctx, ["solve", "solve-cg"], "solvegrad")
    from vlib import bwdreuse
    ctx.replayed += bwdreuse.replay(ctx, ["solve", "solve-cg"], "solvegrad", sample=(120 if ctx.tier == "thorough" else 20))
    ctx.notes.update(exact_instances=len(insts), exact_replayed_cases=ne, table_cases=nt, probe_cases=npb)
    ctx.assumptions += [
        "exact part: L = g.X for one right-hand side and one shift; TLC's rationals compared to 1e-8; cg is replayed only where it reproduces X (arbitrary integer matrices are not positive definite)",
        "table: SPD A of prescribed spectrum (Hermitian part of a leaf), reference = torch.linalg.solve column by column on the same leaves, random complex cotangents, first order 1e-6, second order 1e-5",
        "iterative forward/backward solvers run with rtol 1e-13",
        "TLC, SANY"]
    return ctx.finish(rule="case = (2x2 instance, forward method, backward method) exact | (forward, backward, E/M mode, dtype, operator kind, batch) table with order 1 and 2 | backward probe")


def replay(data):
    print(data["what"])
    return 1
