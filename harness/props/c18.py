"""C18 - results and gradients do not depend on how the forward solution was produced.

Spec: Dispatch.tla (method-selection case table of the ten functionals).  TLC enumerates every (functional, argument
class, name) row with the predicted outcome; every row is executed on the real functional.  Caller-supplied
callables are probed: arguments, options received (forward options only), gradient recording disabled, result
returned unchanged; first and second order gradients are compared with the built-in method reaching the same
solution.
"""
import json
import os
import warnings

import torch
import xitorch
import xitorch.linalg
import xitorch.optimize
import xitorch.integrate
import xitorch.interpolate
from xitorch import LinearOperator

from vlib import tlc as tlcmod
from vlib.tlc import RawTla
from vlib.ctx import Machinery

DT = torch.float64
FUNCS = ["solve", "symeig", "rootfinder", "equilibrium", "minimize", "solve_ivp", "quad", "mcquad", "interp1d", "squad"]


def mixed(name):
    out = "".join(ch.upper() if i % 2 == 0 else ch for i, ch in enumerate(name))
    return out if out != name else name.upper()


class Probe(object):
    """what a custom callable saw"""

    def __init__(self):
        self.calls = []

    def rec(self, args, kwargs):
        self.calls.append({"nargs": len(args), "kw": sorted(kwargs.keys()), "grad": torch.is_grad_enabled(),
                           "types": [type(a).__name__ for a in args]})


def fixtures(seed=0):
    g = torch.Generator().manual_seed(100 + seed)
    fx = {}
    Q, _ = torch.linalg.qr(torch.randn(4, 4, generator=g, dtype=DT))
    fx["Amat"] = ((Q * torch.linspace(1.0, 3.0, 4, dtype=DT)) @ Q.T).requires_grad_()
    fx["B"] = torch.randn(4, 2, generator=g, dtype=DT).requires_grad_()
    W = torch.randn(3, 3, generator=g, dtype=DT)
    fx["W"] = (W / torch.linalg.matrix_norm(W, 2)).requires_grad_()
    fx["c"] = (torch.randn(3, generator=g, dtype=DT) * 0.5).requires_grad_()
    fx["a"] = torch.tensor([0.7, -0.4], dtype=DT).requires_grad_()
    fx["xs"] = torch.linspace(0.0, 1.0, 6, dtype=DT) ** 1.3
    fx["ys"] = torch.sin(3 * fx["xs"]).requires_grad_()
    return fx


# options that make a given built-in method usable on the tiny problems
NEEDS = {
    ("mcquad", "mhcustom"): dict(custom_step=lambda x, *p: x * 0.5 + 0.3, nsamples=4, nburnout=2),
    ("mcquad", "mh"): dict(nsamples=20, nburnout=5),
    ("mcquad", "_dummy1d"): dict(nsamples=12, lb=-3.0, ub=3.0),
    ("rootfinder", "linearmixing"): dict(alpha=-1.0), ("equilibrium", "linearmixing"): dict(alpha=-1.0), ("minimize", "linearmixing"): dict(alpha=-1.0),
    ("minimize", "gd"): dict(step=0.3, maxiter=400), ("minimize", "adam"): dict(step=0.05, maxiter=50),
    ("quad", "leggauss"): dict(n=8),
}


# non-default values of method-specific options of each functional's DEFAULT method that change the result
DEFAULT_OPTS = {
    "rootfinder": dict(maxiter=2), "equilibrium": dict(maxiter=2), "minimize": dict(maxiter=2),
    "solve_ivp": dict(rtol=1e-12, atol=1e-13), "quad": dict(n=2), "mcquad": dict(nsamples=7, nburnout=3),
    "interp1d": dict(bc_type="natural"), "squad": dict(bc_type="clamped"),
}


def call(fname, method, fx, fwd=None, bck=None):
    """runs functional fname with the given method argument; returns a tensor (or tuple flattened)"""
    fwd = dict(fwd or {})
    kw = dict(fwd)
    if bck is not None:
        kw["bck_options"] = bck
    if fname == "solve":
        if method == "scipy_gmres":
            A = LinearOperator.m(fx["Amat"].detach(), is_hermitian=True)
            with torch.no_grad():
                return xitorch.linalg.solve(A, fx["B"].detach().unsqueeze(0), method=method, **kw)
        A = LinearOperator.m(fx["Amat"], is_hermitian=False)
        return xitorch.linalg.solve(A, fx["B"], method=method, **kw)
    if fname == "symeig":
        A = LinearOperator.m((fx["Amat"] + fx["Amat"].T) * 0.5, is_hermitian=True)
        ev, evec = xitorch.linalg.symeig(A, neig=2, mode="lowest", method=method, **kw)
        return torch.cat([ev, (evec ** 2).reshape(-1)])
    if fname == "rootfinder":
        return xitorch.optimize.rootfinder(lambda y, W, c: y - c - 0.3 * torch.tanh(W @ y), torch.zeros(3, dtype=DT), params=(fx["W"], fx["c"]), method=method, **kw)
    if fname == "equilibrium":
        return xitorch.optimize.equilibrium(lambda y, W, c: c + 0.3 * torch.tanh(W @ y), torch.zeros(3, dtype=DT), params=(fx["W"], fx["c"]), method=method, **kw)
    if fname == "minimize":
        return xitorch.optimize.minimize(lambda y, W, c: 0.5 * ((y - c) ** 2).sum() + 0.3 * torch.log(torch.cosh(W @ y)).sum(), torch.zeros(3, dtype=DT),
                                         params=(fx["W"], fx["c"]), method=method, **kw)
    if fname == "solve_ivp":
        ts = torch.linspace(0.0, 0.5, 3, dtype=DT)
        return xitorch.integrate.solve_ivp(lambda t, y, W, c: -y + 0.3 * torch.tanh(W @ y) + c, ts, torch.full((3,), 0.2, dtype=DT),
                                           params=(fx["W"], fx["c"]), method=method, **kw)
    if fname == "quad":
        return xitorch.integrate.quad(lambda x, a: torch.sin(a * x) + a ** 2 * x, torch.tensor(0.1, dtype=DT), torch.tensor(0.8, dtype=DT),
                                      params=(fx["a"],), method=method, **kw)
    if fname == "mcquad":
        torch.manual_seed(11)
        return xitorch.integrate.mcquad(lambda x, a: a * x.sum() + a ** 2, lambda x, a: (-0.5 * (x - a[0]) ** 2).sum(), torch.zeros(1, dtype=DT),
                                        fparams=(fx["a"],), pparams=(fx["a"],), method=method, **kw)
    if fname == "interp1d":
        it = xitorch.interpolate.Interp1D(fx["xs"], fx["ys"], method=method, **kw)
        return it(torch.tensor([0.15, 0.5, 0.9], dtype=DT))
    if fname == "squad":
        sq = xitorch.integrate.SQuad(fx["xs"], method=method, **kw)
        return sq.cumsum(fx["ys"], dim=-1)
    raise ValueError(fname)


class _CallableInstance(object):
    """a method given as an object with __call__ (neither a function nor a class)"""

    def __init__(self, m):
        self._m = m

    def __call__(self, *a, **kw):
        return self._m(*a, **kw)

    def run(self, *a, **kw):
        return self._m(*a, **kw)


class _FalsyCallable(_CallableInstance):
    """a callable object whose truth value is False (a container-like solver object that is still empty)"""

    def __len__(self):
        return 0


def as_kind(m, ck):
    """the same caller-supplied method as each kind of Python callable (Dispatch.tla CallableKinds)"""
    import functools
    if ck == "function":
        return m
    if ck == "lambda":
        return lambda *a, **kw: m(*a, **kw)
    if ck == "partial":
        def m_tagged(_tag, *a, **kw):
            return m(*a, **kw)
        return functools.partial(m_tagged, "tag")
    if ck == "instance":
        return _CallableInstance(m)
    if ck == "boundmethod":
        return _CallableInstance(m).run
    if ck == "falsyinstance":
        return _FalsyCallable(m)
    raise ValueError(ck)


def custom_callable(fname, probe, fx, ck="function"):
    m, refname, opts = _custom_callable(fname, probe, fx)
    return as_kind(m, ck), refname, opts


def _custom_callable(fname, probe, fx):
    """a caller-supplied method for functional fname: records what it sees; closed form where one exists (no autograd graph),
    otherwise a wrapper around the built-in. Returns (callable, reference built-in name, reference options)"""
    from xitorch._impls.integrate.ivp.explicit_rk import rk4_ivp
    from xitorch._impls.integrate.fixed_quad import leggauss
    from xitorch._impls.integrate.mcsamples.mcmc import mhcustom
    from xitorch._impls.interpolate.interp_1d import LinearInterp1D
    from xitorch._impls.integrate.samples_quad import TrapzSQuad

    if fname == "solve":
        def m(A, B, E, M, **kw):
            probe.rec((A, B, E, M), kw)
            return torch.linalg.solve(A.fullmatrix(), B)
        return m, "cg", {"rtol": 1e-12, "atol": 1e-14, "max_niter": 60}
    if fname == "symeig":
        def m(A, neig, mode, M, **kw):
            probe.rec((A, neig, mode, M), kw)
            ev, evec = torch.linalg.eigh(A.fullmatrix())
            return ev[:neig], evec[:, :neig]
        return m, "custom_exacteig", {}
    if fname in ("rootfinder", "equilibrium", "minimize"):
        def m(fcn, y0, params, **kw):
            probe.rec((fcn, y0, params), kw)
            # plain iterations in closed loop, no graph (gradient recording is off)
            y = y0
            for _ in range(300):
                if fname in ("rootfinder", "equilibrium"):     # a callable always receives the root-finding form y - f(y) = 0
                    y = y - fcn(y, *params)
                else:
                    out = fcn(y, *params)
                    gr = out[1] if isinstance(out, tuple) else out
                    y = y - 0.5 * gr
            return y
        return m, "broyden1", {"f_tol": 1e-13, "x_tol": 1e-13}
    if fname == "solve_ivp":
        def m(fcn, ts, y0, params, **kw):
            probe.rec((fcn, ts, y0, params), kw)
            return rk4_ivp(fcn, ts, y0, params, **kw)
        return m, "rk4", {}
    if fname == "quad":
        def m(fcn, xl, xu, params, **kw):
            probe.rec((fcn, xl, xu, params), kw)
            return leggauss(fcn, xl, xu, params, **kw)
        return m, "leggauss", {"n": 8}
    if fname == "mcquad":
        def m(logp, x0, pparams, **kw):
            probe.rec((logp, x0, pparams), kw)
            return mhcustom(logp, x0, pparams, **kw)
        return m, "mhcustom", dict(NEEDS[("mcquad", "mhcustom")])
    if fname == "interp1d":
        def m(x, y, **kw):
            probe.rec((x, y), kw)
            return LinearInterp1D(x, y, **{k: v for k, v in kw.items() if k != "myopt"})
        return m, "linear", {}
    if fname == "squad":
        def m(x, **kw):
            probe.rec((x,), kw)
            return TrapzSQuad(x, **{k: v for k, v in kw.items() if k != "myopt"})
        return m, "trapz", {}
    raise ValueError(fname)


NARGS = {"solve": 4, "symeig": 4, "rootfinder": 3, "equilibrium": 3, "minimize": 3, "solve_ivp": 4, "quad": 4, "mcquad": 3, "interp1d": 2, "squad": 1}
IMPLICIT = {"solve", "symeig", "rootfinder", "equilibrium", "minimize", "solve_ivp", "quad", "mcquad"}


def grads(out, leaves):
    w = torch.cos(torch.arange(out.numel(), dtype=DT) * 0.7 + 0.2).reshape(out.shape)
    g1 = torch.autograd.grad((out * w).sum() + (out ** 2 * w).sum(), leaves, create_graph=True, allow_unused=True)
    s = sum((x ** 2).sum() for x in g1 if x is not None)
    g2 = torch.autograd.grad(s, leaves, allow_unused=True)
    z = lambda gs: torch.cat([(x if x is not None else torch.zeros_like(l)).detach().reshape(-1) for x, l in zip(gs, leaves)])
    return z(g1), z(g2)


LEAVES = {"solve": ["Amat", "B"], "symeig": ["Amat"], "rootfinder": ["W", "c"], "equilibrium": ["W", "c"], "minimize": ["W", "c"],
          "solve_ivp": ["W", "c"], "quad": ["a"], "mcquad": ["a"], "interp1d": ["ys"], "squad": ["ys"]}


# ----------------------------------------------------------------------------- who runs where (BckDispatch.tla)
class Phase(object):
    def __init__(self):
        self.now = "fwd"
        self.calls = {"A": {"fwd": 0, "bwd": 0}, "B": {"fwd": 0, "bwd": 0}}
        self.fevals = {"fwd": 0, "bwd": 0}
        self.kwB = []

    def hit(self, who, kw=None):
        self.calls[who][self.now] += 1
        if who == "B" and kw is not None:
            self.kwB.append(sorted(kw.keys()))


def wrw_call(fname, method, fx, fwd, bck, ph):
    """same problems as call(), with the user's function counting its evaluations per phase"""
    kw = dict(fwd)
    if bck is not None:
        kw["bck_options"] = bck

    def cnt(fn):
        def g(*a):
            ph.fevals[ph.now] += 1
            return fn(*a)
        return g
    if fname == "solve":
        return xitorch.linalg.solve(LinearOperator.m(fx["Amat"], is_hermitian=False), fx["B"], method=method, **kw)
    if fname == "symeig":
        ev, evec = xitorch.linalg.symeig(LinearOperator.m((fx["Amat"] + fx["Amat"].T) * 0.5, is_hermitian=True), neig=2, mode="lowest", method=method, **kw)
        return torch.cat([ev, (evec ** 2).reshape(-1)])
    if fname == "rootfinder":
        return xitorch.optimize.rootfinder(cnt(lambda y, W, c: y - c - 0.3 * torch.tanh(W @ y)), torch.zeros(3, dtype=DT), params=(fx["W"], fx["c"]), method=method, **kw)
    if fname == "equilibrium":
        return xitorch.optimize.equilibrium(cnt(lambda y, W, c: c + 0.3 * torch.tanh(W @ y)), torch.zeros(3, dtype=DT), params=(fx["W"], fx["c"]), method=method, **kw)
    if fname == "minimize":
        return xitorch.optimize.minimize(cnt(lambda y, W, c: 0.5 * ((y - c) ** 2).sum() + 0.3 * torch.log(torch.cosh(W @ y)).sum()), torch.zeros(3, dtype=DT),
                                         params=(fx["W"], fx["c"]), method=method, **kw)
    if fname == "solve_ivp":
        ts = torch.linspace(0.0, 0.5, 5, dtype=DT)
        return xitorch.integrate.solve_ivp(cnt(lambda t, y, W, c: -y + 0.3 * torch.tanh(W @ y) + c), ts, torch.full((3,), 0.2, dtype=DT),
                                           params=(fx["W"], fx["c"]), method=method, **kw)
    if fname == "quad":
        return xitorch.integrate.quad(cnt(lambda x, a: torch.sin(a * x) + a ** 2 * x), torch.tensor(0.1, dtype=DT), torch.tensor(0.8, dtype=DT),
                                      params=(fx["a"],), method=method, **kw)
    raise ValueError(fname)


WRW_BUILTIN = {"solve": ("cg", {"rtol": 1e-12, "atol": 1e-14, "max_niter": 60}), "symeig": ("custom_exacteig", {}),
               "rootfinder": ("broyden1", {"f_tol": 1e-13, "x_tol": 1e-13}), "equilibrium": ("broyden1", {"f_tol": 1e-13, "x_tol": 1e-13}),
               "minimize": ("broyden1", {"f_tol": 1e-13, "x_tol": 1e-13}), "solve_ivp": ("rk4", {}), "quad": ("leggauss", {"n": 8})}
WRW_BCK_BUILTIN = {"solve": {"method": "bicgstab", "rtol": 1e-12, "atol": 1e-14}, "symeig": {"method": "bicgstab", "rtol": 1e-12, "atol": 1e-14},
                   "rootfinder": {"method": "bicgstab", "rtol": 1e-12, "atol": 1e-14}, "equilibrium": {"method": "bicgstab", "rtol": 1e-12, "atol": 1e-14},
                   "minimize": {"method": "bicgstab", "rtol": 1e-12, "atol": 1e-14}, "solve_ivp": {"method": "euler"}, "quad": {"method": "leggauss", "n": 3}}


def wrw_methods(fname, kind, ph, stored):
    """forward callables: 'wrapper' uses the function / operator it is given, 'oracle' returns the solution without an autograd graph of its own"""
    from xitorch._impls.linalg.solve import cg, exactsolve
    from xitorch._impls.linalg.symeig import exacteig
    from xitorch._impls.integrate.ivp.explicit_rk import rk4_ivp
    from xitorch._impls.integrate.fixed_quad import leggauss
    if fname == "solve":
        if kind == "wrapper":
            def m(A, B, E, M, **kw):
                ph.hit("A")
                return cg(A, B, E, M, **kw)
        else:
            def m(A, B, E, M, **kw):
                ph.hit("A")
                return torch.linalg.solve(A.fullmatrix(), B)
        return m
    if fname == "symeig":
        if kind == "wrapper":
            def m(A, neig, mode, M, **kw):
                ph.hit("A")
                return exacteig(A, neig, mode, M)
        else:
            def m(A, neig, mode, M, **kw):
                ph.hit("A")
                ev, evec = torch.linalg.eigh(A.fullmatrix())
                return ev[:neig], evec[:, :neig]
        return m
    if fname in ("rootfinder", "equilibrium", "minimize"):
        if kind == "wrapper":
            def m(fcn, y0, params, **kw):
                ph.hit("A")
                y = y0
                for _ in range(300):
                    if fname in ("rootfinder", "equilibrium"):
                        y = y - fcn(y, *params)
                    else:
                        out = fcn(y, *params)
                        y = y - 0.5 * (out[1] if isinstance(out, tuple) else out)
                return y
        else:
            def m(fcn, y0, params, **kw):
                ph.hit("A")
                return stored.clone()
        return m
    if fname == "solve_ivp":
        if kind == "wrapper":
            def m(fcn, ts, y0, params, **kw):
                ph.hit("A")
                return rk4_ivp(fcn, ts, y0, params)
        else:
            def m(fcn, ts, y0, params, **kw):
                ph.hit("A")
                return stored.clone()
        return m
    if fname == "quad":
        if kind == "wrapper":
            def m(fcn, xl, xu, params, **kw):
                ph.hit("A")
                return leggauss(fcn, xl, xu, params, **kw)
        else:
            def m(fcn, xl, xu, params, **kw):
                ph.hit("A")
                return stored.clone()
        return m
    raise ValueError(fname)


def wrw_bck_callable(fname, ph):
    from xitorch._impls.linalg.solve import exactsolve
    from xitorch._impls.integrate.ivp.explicit_rk import rk4_ivp
    from xitorch._impls.integrate.fixed_quad import leggauss
    if fname == "solve_ivp":
        def bm(fcn, ts, y0, params, **kw):
            ph.hit("B", kw)
            return rk4_ivp(fcn, ts, y0, params)
        return {"method": bm, "bcktag": 1}
    if fname == "quad":
        def bm(fcn, xl, xu, params, **kw):
            ph.hit("B", kw)
            return leggauss(fcn, xl, xu, params, n=8)
        return {"method": bm, "bcktag": 1}

    def bm(A, B, E, M, **kw):
        ph.hit("B", kw)
        return exactsolve(A, B, E, M)
    return {"method": bm, "bcktag": 1}


def wrw_run(fname, fk, bk, fx, stored):
    ph = Phase()
    nm, opts = WRW_BUILTIN[fname]
    method = nm if fk == "builtin" else wrw_methods(fname, fk, ph, stored)
    fwd = dict(opts) if fk == "builtin" or (fk == "wrapper" and fname in ("solve", "quad")) else {}
    bck = None if bk == "unset" else (dict(WRW_BCK_BUILTIN[fname]) if bk == "builtin" else wrw_bck_callable(fname, ph))
    out = wrw_call(fname, method, fx, fwd, bck, ph)
    ph.now = "bwd"
    g1, g2 = grads(out, [fx[k] for k in LEAVES[fname]])
    return out.detach(), g1, g2, ph


def who_runs_where(ctx, fx):
    base = dict(BckWins=True, NoForwardLeak=True)
    invs = ["CallersBackwardMethodIsUsed", "BackwardMethodNotInForward", "ForwardCallableAlwaysProducesSolution", "OracleNeverDifferentiates"]
    t, cf = tlcmod.gen_mc(ctx.work, "BckDispatch", "MC_BckDispatch", base, invariants=invs)
    dot = os.path.join(ctx.work, "bd.dot")
    ctx.model_check(t, cf, workers=4, dump_dot=dot, label="who runs where", timeout=300)
    nodes, _, _ = tlcmod.parse_dot(dot)
    os.remove(dot)
    for sw, inv in (("BckWins", "CallersBackwardMethodIsUsed"), ("NoForwardLeak", "BackwardMethodNotInForward")):
        c = dict(base)
        c[sw] = False
        t2, cf2 = tlcmod.gen_mc(ctx.work, "BckDispatch", "MC_BckDispatch_dev_" + sw, c, invariants=invs)
        ctx.expect_violation(t2, cf2, inv=inv, label="deviation " + sw, workers=4, timeout=300)
    n = 0
    refs = {}
    stored = {}
    with warnings.catch_warnings():
        warnings.simplefilter("ignore")
        for st in sorted(nodes.values(), key=lambda s_: (s_["f"], s_["bk"], {"builtin": 0, "wrapper": 1, "oracle": 2}[s_["fk"]])):
            fname, fk, bk, who = st["f"], st["fk"], st["bk"], st["who"]
            n += 1
            ctx.case(key=("who-runs-where", fname, fk, bk))
            if fname not in stored:
                with torch.no_grad():
                    stored[fname] = wrw_call(fname, WRW_BUILTIN[fname][0], fx, dict(WRW_BUILTIN[fname][1]), None, Phase()).detach() if fname in ("rootfinder", "equilibrium", "minimize", "solve_ivp", "quad") else None
            why = None
            try:
                out, g1, g2, ph = wrw_run(fname, fk, bk, fx, stored[fname])
                obs = {"fwdCallableInFwd": ph.calls["A"]["fwd"] > 0, "fwdCallableInBwd": ph.calls["A"]["bwd"] > 0,
                       "bckCallableInFwd": ph.calls["B"]["fwd"] > 0, "bckCallableInBwd": ph.calls["B"]["bwd"] > 0}
                for k_, v_ in obs.items():
                    if bool(who[k_]) != v_:
                        why = "%s: observed %s, specification %s (forward callable calls %s, backward callable calls %s)" % (k_, v_, bool(who[k_]), ph.calls["A"], ph.calls["B"])
                        break
                if why is None and bk == "callable" and any("bcktag" not in kk for kk in ph.kwB):
                    why = "the caller's backward options were not delivered to the backward method (saw %s)" % ph.kwB[:2]
                if why is None:
                    if (fname, bk) not in refs:
                        refs[(fname, bk)] = (out, g1, g2, ph.fevals["bwd"], fk)
                    ro, r1, r2, rfe, rfk = refs[(fname, bk)]
                    if not torch.allclose(out, ro, atol=1e-7, rtol=1e-7):
                        why = "value differs from the one with a %s forward method by %.2e" % (rfk, float((out - ro).abs().max()))
                    elif not torch.allclose(g1, r1, atol=1e-6, rtol=1e-6):
                        why = "first-order gradient differs from the one with a %s forward method by %.2e" % (rfk, float((g1 - r1).abs().max()))
                    elif not torch.allclose(g2, r2, atol=1e-5, rtol=1e-5):
                        why = "second-order gradient differs from the one with a %s forward method by %.2e" % (rfk, float((g2 - r2).abs().max()))
                # a built-in backward method different from the forward one must actually run: fewer function evaluations in backward
                if why is None and bk == "builtin" and fname in ("solve_ivp", "quad") and fk == "builtin":
                    unset = refs.get((fname, "unset"))
                    if unset is not None and not (ph.fevals["bwd"] < unset[3]):
                        why = "bck_options %s had no effect on the backward pass: %d function evaluations, %d without bck_options" % (
                            {k_: v_ for k_, v_ in WRW_BCK_BUILTIN[fname].items()}, ph.fevals["bwd"], unset[3])
            except Exception as e:
                why = "raised %s: %s" % (type(e).__name__, str(e)[:160])
            if why:
                ctx.violation("dispatch/%s/who-runs-where" % fname, "%s with a %s forward method and %s backward method: %s" % (fname, fk, bk, why), {"f": fname, "fk": fk, "bk": bk})
    return n


def run(ctx):
    thorough = ctx.tier == "thorough"
    allf = RawTla("[g \\in Functionals |-> TRUE]")
    t, cf = tlcmod.gen_mc(ctx.work, "Dispatch", "MC_Dispatch", dict(LowerFirst=allf, AnyCallable=True, DefaultTakesOptions=allf, NoneByIdentity=True, OwnTable=True),
                          invariants=["CaseInsensitive", "UnknownRejected", "CallableAccepted", "DefaultIsBuiltIn", "OptionsDelivered"])
    dot = os.path.join(ctx.work, "disp.dot")
    ctx.model_check(t, cf, workers=4, dump_dot=dot, label="dispatch table", timeout=300)
    nodes, inits, edges = tlcmod.parse_dot(dot)
    os.remove(dot)
    t2, cf2 = tlcmod.gen_mc(ctx.work, "Dispatch", "MC_Dispatch_dev", dict(LowerFirst=RawTla('[g \\in Functionals |-> g \\notin {"solve", "minimize"}]'), AnyCallable=True, DefaultTakesOptions=allf, NoneByIdentity=True, OwnTable=True),
                            invariants=["CaseInsensitive", "UnknownRejected", "CallableAccepted", "DefaultIsBuiltIn", "OptionsDelivered"])
    ctx.expect_violation(t2, cf2, inv="CaseInsensitive", label="deviation LowerFirst", workers=4, timeout=300)
    t3, cf3 = tlcmod.gen_mc(ctx.work, "Dispatch", "MC_Dispatch_dev_callable", dict(LowerFirst=allf, AnyCallable=False, DefaultTakesOptions=allf, NoneByIdentity=True, OwnTable=True),
                            invariants=["CaseInsensitive", "UnknownRejected", "CallableAccepted", "DefaultIsBuiltIn", "OptionsDelivered"])
    ctx.expect_violation(t3, cf3, inv="CallableAccepted", label="deviation AnyCallable", workers=4, timeout=300)
    t4, cf4 = tlcmod.gen_mc(ctx.work, "Dispatch", "MC_Dispatch_dev_defopts", dict(LowerFirst=allf, AnyCallable=True, DefaultTakesOptions=RawTla('[g \\in Functionals |-> g # "squad"]'), NoneByIdentity=True, OwnTable=True),
                            invariants=["CaseInsensitive", "UnknownRejected", "CallableAccepted", "DefaultIsBuiltIn", "OptionsDelivered"])
    ctx.expect_violation(t4, cf4, inv="OptionsDelivered", label="deviation DefaultTakesOptions", workers=4, timeout=300)
    t5, cf5 = tlcmod.gen_mc(ctx.work, "Dispatch", "MC_Dispatch_dev_none", dict(LowerFirst=allf, AnyCallable=True, DefaultTakesOptions=allf, NoneByIdentity=False, OwnTable=True),
                            invariants=["CaseInsensitive", "UnknownRejected", "CallableAccepted", "DefaultIsBuiltIn", "OptionsDelivered"])
    ctx.expect_violation(t5, cf5, inv="UnknownRejected", label="deviation NoneByIdentity", workers=4, timeout=300)
    t6, cf6 = tlcmod.gen_mc(ctx.work, "Dispatch", "MC_Dispatch_dev_table", dict(LowerFirst=allf, AnyCallable=True, DefaultTakesOptions=allf, NoneByIdentity=True, OwnTable=False),
                            invariants=["CaseInsensitive", "UnknownRejected", "CallableAccepted", "DefaultIsBuiltIn", "OptionsDelivered"])
    ctx.expect_violation(t6, cf6, inv="UnknownRejected", label="deviation OwnTable", workers=4, timeout=300)
    fx = fixtures(ctx.seed)
    nrows = 0
    with warnings.catch_warnings():
        warnings.simplefilter("ignore")
        for st in sorted(nodes.values(), key=lambda s: (s["f"], s["cls"], s["nm"], s["ck"])):
            f, cls, nm, outcome, ck = st["f"], st["cls"], st["nm"], st["outcome"], st["ck"]
            nrows += 1
            ctx.case(key=(f, cls, nm, ck), sample={"functional": f, "class": cls, "name": nm, "spec_outcome": outcome} if nrows % 17 == 1 else None)
            probe = Probe()
            if cls == "none":
                marg, opts = None, dict(NEEDS.get((f, outcome), {}))
            elif cls == "exact":
                marg, opts = nm, dict(NEEDS.get((f, nm), {}))
            elif cls == "mixedcase":
                marg, opts = mixed(nm), dict(NEEDS.get((f, nm), {}))
            elif cls == "unknown":
                marg, opts = "no_such_method", {}
            elif cls == "emptyname":
                marg, opts = "", {}
            elif cls == "foreign":
                # a name another functional knows; given in mixed case for every second row (the rejection must not depend on the case)
                marg, opts = (nm if nrows % 2 else mixed(nm)), {}
            elif cls == "noncallable":
                marg, opts = 3.5, {}
            else:
                marg, refname, opts = custom_callable(f, probe, fx, ck)
                opts = dict(opts)
            got = None
            try:
                out = call(f, marg, fx, fwd=opts)
                got = "ok"
            except Exception as e:
                msg = str(e)
                unknown = ("Unknown" in msg and "method" in msg) or "Invalid method type" in msg or isinstance(e, (TypeError, AssertionError)) and cls in ("noncallable",)
                got = "raise-unknown" if unknown else "raise-other:%s: %s" % (type(e).__name__, msg[:100])
            why = None
            if outcome == "raise":
                if got == "ok":
                    why = "accepted silently (the specification rejects it)"
                elif got.startswith("raise-other") and cls in ("unknown", "emptyname"):
                    why = "failed with %s instead of rejecting the method name" % got
            else:
                if got == "raise-unknown":
                    why = "rejected as an unknown method, the specification resolves it to %s" % outcome
                elif got.startswith("raise-other") and (f, nm) != ("solve", "scipy_gmres"):
                    # (scipy_gmres resolves correctly but the installed SciPy no longer accepts its `tol` keyword: environment, not dispatch)
                    why = "raised %s" % got
            if why:
                ctx.violation("dispatch/%s/%s%s" % (f, cls, "/early-name" if cls == "mixedcase" else "/" + ck if cls == "callable" else ""),
                              "%s(method=%r) [%s %s]: %s" % (f, marg if not callable(marg) else "<callable: %s>" % ck, cls, nm, why), {"f": f, "cls": cls, "nm": nm, "ck": ck})
                continue
            if cls == "none" and f in DEFAULT_OPTS:
                # None IS the default built-in: options given with method=None reach it exactly as when the default is named
                try:
                    with_none = call(f, None, fx, fwd=dict(DEFAULT_OPTS[f]))
                    with_name = call(f, outcome, fx, fwd=dict(DEFAULT_OPTS[f]))
                    without = call(f, None, fx, fwd={})
                    nrows += 1
                    ctx.case(key=(f, "default-with-options"))
                    if torch.equal(with_name, without):
                        raise Machinery("the option set %s does not change the result of %s(%s): vacuous" % (DEFAULT_OPTS[f], f, outcome))
                    if not torch.allclose(with_none, with_name, atol=1e-12, rtol=1e-12):
                        ctx.violation("dispatch/%s/default-drops-options" % f, "%s(method=None, %s) differs from %s(method=%r, %s) by %.2e%s" % (
                            f, DEFAULT_OPTS[f], f, outcome, DEFAULT_OPTS[f], float((with_none - with_name).abs().max()),
                            " and equals the result without the options" if torch.equal(with_none, without) else ""), {"f": f})
                except Machinery:
                    raise
                except Exception as e:
                    ctx.violation("dispatch/%s/default-drops-options" % f, "%s(method=None) with options %s raised %s: %s" % (f, DEFAULT_OPTS[f], type(e).__name__, str(e)[:120]), {"f": f})
            if cls == "callable":
                # (1) documented arguments, options, gradient mode, (2) options do not leak, (3) gradients equal the built-in's
                c0 = probe.calls[0] if probe.calls else None
                if c0 is None:
                    ctx.violation("dispatch/%s/callable-not-called" % f, "%s did not call the supplied method" % f, {"f": f})
                    continue
                if c0["nargs"] != NARGS[f]:
                    ctx.violation("dispatch/%s/callable-args" % f, "%s called the method with %d positional arguments %s, documented %d" % (f, c0["nargs"], c0["types"], NARGS[f]), {"f": f})
                if f in IMPLICIT and c0["grad"]:
                    ctx.violation("dispatch/%s/callable-grad-enabled" % f, "%s ran the supplied method with gradient recording enabled" % f, {"f": f})
                probe2 = Probe()
                m2, refname, ropts = custom_callable(f, probe2, fx, ck)
                o2 = dict(ropts)
                o2["myopt"] = 17
                try:
                    outb = call(f, m2, fx, fwd=o2, bck={"bckonly": 1} if f in IMPLICIT else None)
                    kwseen = probe2.calls[0]["kw"]
                    if "myopt" not in kwseen:
                        ctx.violation("dispatch/%s/callable-options" % f, "%s did not pass the caller's extra option to the method (saw %s)" % (f, kwseen), {"f": f})
                    if "bckonly" in kwseen or "bck_options" in kwseen:
                        ctx.violation("dispatch/%s/bck-options-leak" % f, "%s passed backward options to the forward method (saw %s)" % (f, kwseen), {"f": f})
                except Exception as e:
                    ctx.violation("dispatch/%s/callable-options" % f, "%s with extra option raised %s: %s" % (f, type(e).__name__, str(e)[:120]), {"f": f})
                # gradients
                leaves = [fx[k] for k in LEAVES[f]]
                outc = call(f, custom_callable(f, Probe(), fx, ck)[0], fx, fwd=dict(ropts))
                outr = call(f, refname, fx, fwd=dict(NEEDS.get((f, refname), {}), **{k: v for k, v in ropts.items() if k not in ("custom_step",)}) if f != "mcquad" else dict(ropts))
                nrows += 1
                ctx.case(key=(f, "callable-vs", refname, ck))
                tol = 1e-7
                if not torch.allclose(outc, outr, atol=tol, rtol=tol):
                    ctx.violation("dispatch/%s/callable-value" % f, "%s: custom callable result differs from %s by %.2e" % (f, refname, float((outc - outr).abs().max())), {"f": f})
                    continue
                try:
                    g1c, g2c = grads(outc, leaves)
                    g1r, g2r = grads(outr, leaves)
                    if not torch.allclose(g1c, g1r, atol=1e-6, rtol=1e-6):
                        ctx.violation("dispatch/%s/callable-grad1" % f, "%s: first-order gradients with a custom callable differ from %s by %.2e" % (f, refname, float((g1c - g1r).abs().max())), {"f": f})
                    elif not torch.allclose(g2c, g2r, atol=1e-5, rtol=1e-5):
                        ctx.violation("dispatch/%s/callable-grad2" % f, "%s: second-order gradients with a custom callable differ from %s by %.2e" % (f, refname, float((g2c - g2r).abs().max())), {"f": f})
                except Exception as e:
                    ctx.violation("dispatch/%s/callable-grad-raises" % f, "%s: differentiating the result obtained with a custom callable raised %s: %s" % (f, type(e).__name__, str(e)[:150]), {"f": f})
    # backward options select the backward method: a probing callable given ONLY in bck_options must be used in backward
    for f in ("solve", "rootfinder"):
        nrows += 1
        ctx.case(key=(f, "bck-method-callable"))
        pr = Probe()

        def bm(A, B, E, M, **kw):
            pr.rec((A, B, E, M), kw)
            return torch.linalg.solve(A.fullmatrix(), B)
        with warnings.catch_warnings():
            warnings.simplefilter("ignore")
            out = call(f, "cg" if f == "solve" else "broyden1", fx, fwd={}, bck={"method": bm, "tag": 5})
            torch.autograd.grad(out.sum(), [fx[k] for k in LEAVES[f]], allow_unused=True)
        if not pr.calls:
            ctx.violation("dispatch/%s/bck-method-ignored" % f, "%s: the method given in bck_options was not used in the backward pass" % f, {"f": f})
        elif "tag" not in pr.calls[0]["kw"]:
            ctx.violation("dispatch/%s/bck-options-not-delivered" % f, "%s: backward options were not delivered to the backward method (saw %s)" % (f, pr.calls[0]["kw"]), {"f": f})
    nwrw = who_runs_where(ctx, fx)
    ctx.replayed = len(nodes) + nwrw
    ctx.notes.update(rows=len(nodes), executed=nrows, who_runs_where_rows=nwrw)
    ctx.exhaustive = True
    ctx.assumptions += [
        "method tables and defaults are those of the documentation, written into Dispatch.tla (not read from the code)",
        "gradient recording must be off inside the callable for the eight functionals that differentiate implicitly; Interp1D and SQuad differentiate through the supplied class itself, so recording stays on there (weakest reading that keeps C14/C15 satisfiable)",
        "closed-form callables: dense solve / eigh / plain fixed-point loops without a graph; solve_ivp, quad, mcquad, Interp1D, SQuad use wrappers around a built-in because their backward pass re-uses the forward method",
        "TLC, SANY"]
    return ctx.finish(
        rule="case = (functional, class of the method argument, name) for every row of the TLC-enumerated table, executed on the real functional; "
             "for callables additionally: arguments / options / gradient mode seen, and value, first- and second-order gradients against the built-in method")


def replay(data):
    print(data["what"])
    return 1
