"""C11 - LinearOperator products are mutually consistent for every operator expression.

Specs: LinopExpr.tla (expression trees, literal dispatch, exact integer denotation, predicted leaf call log),
LinopCache.tla (per-class capability cache, all instantiation orders), Bcast.tla (batch-shape table).
TLC enumerates; every enumerated tree / instantiation path / shape pair is executed on the real classes.
"""
import itertools
import json
import os
import random
import warnings

import torch
import xitorch
from xitorch import LinearOperator

from vlib import tlc as tlcmod
from vlib.tlc import RawTla
from vlib.ctx import Machinery

LEAFMAT = {"L1": [[1., 2.], [3., 5.]], "L2": [[2., -1.], [0., 3.]], "S1": [[2., 1.], [1., 4.]], "S2": [[1., 3.], [3., -2.]]}
FLAGS = ["_implementation_checked", "_is_mv_implemented", "_is_mm_implemented", "_is_rmv_implemented",
         "_is_rmm_implemented", "_is_fullmatrix_implemented", "_is_gpn_implemented"]


# ------------------------------------------------------------------ leaves with a call log
def make_leaf_class(caps, log, tag):
    ns = {}

    def __init__(self, mat, herm):
        LinearOperator.__init__(self, shape=mat.shape, is_hermitian=herm, dtype=mat.dtype, device=mat.device)
        self.mat = mat

    def _mv(self, x):
        log.append(tag + "._mv")
        return torch.matmul(self.mat, x.unsqueeze(-1)).squeeze(-1)

    def _rmv(self, x):
        log.append(tag + "._rmv")
        return torch.matmul(self.mat.transpose(-2, -1).conj(), x.unsqueeze(-1)).squeeze(-1)

    def _mm(self, x):
        log.append(tag + "._mm")
        return torch.matmul(self.mat, x)

    def _rmm(self, x):
        log.append(tag + "._rmm")
        return torch.matmul(self.mat.transpose(-2, -1).conj(), x)

    def _getparamnames(self, prefix=""):
        return [prefix + "mat"]
    ns.update(__init__=__init__, _mv=_mv, _getparamnames=_getparamnames)
    if "rmv" in caps:
        ns["_rmv"] = _rmv
    if "mm" in caps:
        ns["_mm"] = _mm
    if "rmm" in caps:
        ns["_rmm"] = _rmm
    return type("Leaf_" + tag, (LinearOperator,), ns)


def leaf_tag(k):
    caps = set(k["caps"])
    return str(k["id"]) + ("r" if "rmv" in caps else "") + ("m" if "mm" in caps else "") + ("R" if "rmm" in caps else "") \
        + ("h" if k["herm"] else "") + ("M" if k["mat"] else "")


class Builder(object):
    def __init__(self, mats, log):
        self.mats = mats          # id -> tensor (..., 2, 2)
        self.log = log
        self.classes = {}

    def leaf(self, k):
        tag = leaf_tag(k)
        if k["mat"]:
            return LinearOperator.m(self.mats[str(k["id"])], is_hermitian=False)
        if tag not in self.classes:
            self.classes[tag] = make_leaf_class(set(k["caps"]), self.log, tag)
        with warnings.catch_warnings():
            warnings.simplefilter("ignore")
            return self.classes[tag](self.mats[str(k["id"])], bool(k["herm"]))

    def build(self, e):
        """build through the public API, following the constructor the spec used"""
        t = e["t"]
        if t == "leaf":
            return self.leaf(e["k"])
        raise Machinery("build() needs a construction recipe, not a normal form")


def construct(b, recipe):
    """recipe: nested tuples ('leaf', k) | ('H', r) | ('mul', r, f) | ('add', r1, r2, s) | ('matmul', r1, r2)"""
    op = recipe[0]
    if op == "leaf":
        return b.leaf(recipe[1])
    if op == "H":
        return construct(b, recipe[1]).H
    if op == "mul":
        return construct(b, recipe[1]) * recipe[2]
    if op == "add":
        x, y = construct(b, recipe[1]), construct(b, recipe[2])
        return x + y if recipe[3] == 1 else x - y
    if op == "matmul":
        return construct(b, recipe[1]).matmul(construct(b, recipe[2]))
    raise Machinery("bad recipe")


def dense(recipe, mats):
    op = recipe[0]
    if op == "leaf":
        return mats[str(recipe[1]["id"])]
    if op == "H":
        return dense(recipe[1], mats).transpose(-2, -1).conj()
    if op == "mul":
        return dense(recipe[1], mats) * recipe[2]
    if op == "add":
        return dense(recipe[1], mats) + recipe[3] * dense(recipe[2], mats)
    if op == "matmul":
        return dense(recipe[1], mats) @ dense(recipe[2], mats)


def recipe_of(e):
    """a normal-form tree of the spec -> a public-API recipe that produces it (the normal form is its own recipe:
    'adj' = .H of a non-dense non-Hermitian operand, 'mat2' nodes cannot be rebuilt and are skipped by the caller)"""
    t = e["t"]
    if t == "leaf":
        return ("leaf", e["k"])
    if t == "adj":
        return ("H", recipe_of(e["o"]))
    if t == "mul":
        return ("mul", recipe_of(e["a"]), int(e["f"]))
    if t == "add":
        return ("add", recipe_of(e["a"]), recipe_of(e["b"]), int(e["s"]))
    if t == "matmul":
        return ("matmul", recipe_of(e["a"]), recipe_of(e["b"]))
    raise KeyError(t)


def has_mat2(e):
    if e["t"] == "mat2":
        return True
    return any(has_mat2(e[c]) for c in ("o", "a", "b") if c in e and isinstance(e[c], dict))


def short(e):
    t = e["t"]
    if t == "leaf":
        return leaf_tag(e["k"])
    if t == "adj":
        return "H(%s)" % short(e["o"])
    if t == "mul":
        return "%d*%s" % (e["f"], short(e["a"]))
    if t == "add":
        return "(%s%s%s)" % (short(e["a"]), "+" if e["s"] == 1 else "-", short(e["b"]))
    if t == "matmul":
        return "(%s@%s)" % (short(e["a"]), short(e["b"]))
    return "mat2"


def run_products(op, x, X):
    out = {}
    for name, fn in (("mv", lambda: op.mv(x)), ("rmv", lambda: op.rmv(x)), ("mm", lambda: op.mm(X)),
                     ("rmm", lambda: op.rmm(X)), ("fm", lambda: op.fullmatrix())):
        try:
            out[name] = ("ok", fn())
        except (RuntimeError, NotImplementedError, TypeError, AttributeError) as ex:
            out[name] = ("raise", "%s: %s" % (type(ex).__name__, str(ex)[:80]))
    return out


def vkey(e, prod, why):
    """abstract class of a violating (tree, product): which construct sits on top of which leaf capability"""
    def sig(e):
        t = e["t"]
        if t == "leaf":
            return "leaf[%s]" % ",".join(sorted(e["k"]["caps"])) if not e["k"]["herm"] else "leaf[herm]"
        if t == "adj":
            return "H(%s)" % sig(e["o"])
        if t == "mul":
            return "mul(%s)" % sig(e["a"])
        return t
    s = json.dumps(e)
    if '"t": "mul"' in s and not has_caps(e, "mul"):
        return "linop/mul-over-operand-without-_rmv"
    if '"t": "adj"' in s and not has_caps(e, "adj"):
        return "linop/H-of-operand-without-_rmv"
    return "linop/%s/%s" % (prod, sig(e))


def has_caps(e, node):
    """False if somewhere a `node`-type construct sits directly on a leaf lacking _rmv"""
    if e["t"] == node:
        inner = e["a"] if node == "mul" else e["o"]
        if inner["t"] == "leaf" and "rmv" not in inner["k"]["caps"] and not inner["k"]["herm"]:
            return False
    return all(has_caps(e[c], node) for c in ("o", "a", "b") if c in e and isinstance(e[c], dict))


def expr_replay(ctx, depth, budget, rng):
    c = dict(MulRmvUsesPublic=True, AdjMvFallsBack=True, MatmulNotHerm=True, Depth=depth)
    t, cf = tlcmod.gen_mc(ctx.work, "LinopExpr", "MC_LE_replay", c, invariants=["AllGood", "HermSound"])
    dot = os.path.join(ctx.work, "le.dot")
    ctx.model_check(t, cf, workers=16, dump_dot=dot, label="expression trees depth<=%d (replay)" % depth, timeout=1800)
    nodes, inits, edges = tlcmod.parse_dot(dot)
    os.remove(dot)
    ids = sorted(nodes)
    rng.shuffle(ids)

    def size(e_):
        return 1 + sum(size(e_[c_]) for c_ in ("o", "a", "b") if c_ in e_ and isinstance(e_[c_], dict))
    # every tree with at most one binary / two unary constructs first (all pairs of leaves under every constructor), then the seeded rest
    ids.sort(key=lambda i_: 0 if size(nodes[i_]["e"]) <= 3 else 1)
    n = 0
    imats = {k: torch.tensor(v, dtype=torch.float64) for k, v in LEAFMAT.items()}
    x = torch.tensor([3., -2.], dtype=torch.float64)
    X = torch.tensor([[3., 1.], [-2., 4.]], dtype=torch.float64)
    for nid in ids:
        st = nodes[nid]
        e = st["e"]
        if has_mat2(e):
            continue          # folded dense operands: the normal form is not a recipe (covered by the depth-1 folds below)
        if n >= budget:
            break
        n += 1
        rec = recipe_of(e)
        # (a) exact integer instance: values and leaf call log as TLC predicts
        log = []
        b = Builder(imats, log)
        try:
            with warnings.catch_warnings():
                warnings.simplefilter("ignore")
                op = construct(b, rec)
        except Exception as ex:
            ctx.violation("linop/construct", "building %s raised %s" % (short(e), ex), {"tree": e})
            continue
        pred = st["pred"]
        for prod in ("mv", "rmv", "mm", "rmm", "fm"):
            del log[:]
            p = pred[prod]
            try:
                val = {"mv": lambda: op.mv(x), "rmv": lambda: op.rmv(x), "mm": lambda: op.mm(X), "rmm": lambda: op.rmm(X),
                       "fm": lambda: op.fullmatrix()}[prod]()
                got = ("ok", val)
            except (RuntimeError, NotImplementedError, TypeError, AttributeError) as ex:
                got = ("raise", "%s: %s" % (type(ex).__name__, str(ex)[:100]))
            ctx.case(key=(short(e), prod), sample={"tree": short(e), "product": prod, "spec": {"ok": p["ok"], "v": list(p["v"]), "path": list(p["p"])},
                                                  "code": got[0] if got[0] == "raise" else got[1].reshape(-1).tolist()} if n % 400 == 1 and prod == "rmv" else None)
            why = None
            if not p["ok"]:
                raise Machinery("intended spec predicts a raise for %s.%s" % (short(e), prod))
            if got[0] == "raise":
                why = "raised %s, specification value %s" % (got[1], list(p["v"]))
            else:
                flat = got[1].reshape(-1).tolist()
                if [float(v) for v in p["v"]] != flat:
                    why = "value %s, specification %s" % (flat, list(p["v"]))
                else:
                    exp_log = [s for s in p["p"] if "M." not in s]
                    if log != exp_log:
                        why = "leaf call log %s, specification %s" % (log, exp_log)
            if why:
                ctx.violation(vkey(e, prod, why), "%s.%s: %s" % (short(e), prod, why), {"tree": e, "product": prod})
        # (b) random complex, batched instance against the dense denotation
        for dtype, bshape, xb in ((torch.complex128, (), ()), (torch.float64, (2, 1), (3,)), (torch.float32, (), (2,))):
            mats = {}
            for k in LEAFMAT:
                m = torch.randn(bshape + (2, 2), dtype=dtype)
                if k in ("S1", "S2"):
                    m = m + m.transpose(-2, -1).conj()
                mats[k] = m
            log2 = []
            b2 = Builder(mats, log2)
            with warnings.catch_warnings():
                warnings.simplefilter("ignore")
                op2 = construct(b2, rec)
            D = dense(rec, mats)
            xx = torch.randn(xb + (2,), dtype=dtype)
            XX = torch.randn(xb + (2, 3), dtype=dtype)
            tol = 1e-4 if dtype == torch.float32 else 1e-10
            scale = float(D.abs().max()) + 1.0
            refs = {"mv": (D @ xx.unsqueeze(-1)).squeeze(-1), "rmv": (D.transpose(-2, -1).conj() @ xx.unsqueeze(-1)).squeeze(-1),
                    "mm": D @ XX, "rmm": D.transpose(-2, -1).conj() @ XX, "fm": D}
            got = run_products(op2, xx, XX)
            for prod, ref in refs.items():
                ctx.case(key=(short(e), prod, str(dtype), bshape))
                g = got[prod]
                why = None
                if g[0] == "raise":
                    why = "raised " + g[1]
                else:
                    val = g[1]
                    if prod == "fm":
                        val = val.expand(torch.broadcast_shapes(val.shape, ref.shape)) if val.shape != ref.shape else val
                    if tuple(val.shape) != tuple(torch.broadcast_shapes(ref.shape, val.shape)) or val.shape != ref.shape and prod != "fm":
                        why = "shape %s, expected %s" % (tuple(val.shape), tuple(ref.shape))
                    elif not torch.allclose(val, ref.expand_as(val) if prod == "fm" else ref, atol=tol * scale * 10, rtol=tol):
                        why = "differs from the dense denotation by %.2e" % float((val - ref).abs().max())
                if why:
                    ctx.violation(vkey(e, prod, why), "%s.%s (%s, operator batch %s, operand batch %s): %s"
                                  % (short(e), prod, dtype, bshape, xb, why), {"tree": e, "product": prod, "dtype": str(dtype)})
    return len(nodes), n


# ------------------------------------------------------------------ class-flag cache
HIERARCHIES = {
    "chain-PC+D": dict(parent={"P": "Base", "C": "P", "D": "Base"},
                       defines={"P": {"mv"}, "C": {"rmv", "gpn"}, "D": {"mv", "mm", "rmv", "rmm", "fm", "gpn"}}),
    "chain-PCG": dict(parent={"P": "Base", "C": "P", "G": "C"},
                      defines={"P": {"mv", "rmv"}, "C": {"mm"}, "G": {"rmm", "fm"}}),
    "abstract-AB": dict(parent={"A": "Base", "B": "A", "Q": "Base"},
                        defines={"A": {"gpn"}, "B": {"mv"}, "Q": {"mv", "mm"}}),
}
METH = {"mv": "_mv", "mm": "_mm", "rmv": "_rmv", "rmm": "_rmm", "fm": "_fullmatrix", "gpn": "_getparamnames"}
PROP = {"mv": "is_mv_implemented", "mm": "is_mm_implemented", "rmv": "is_rmv_implemented", "rmm": "is_rmm_implemented",
        "fm": "is_fullmatrix_implemented", "gpn": "is_getparamnames_implemented"}


def tla_fn(d, setvals=False):
    items = sorted(d.items())
    dom = "{" + ", ".join('"%s"' % k for k, _ in items) + "}"
    body = " [] ".join('c = "%s" -> %s' % (k, tlcmod.tla(v)) for k, v in items)
    return RawTla("[c \\in %s |-> CASE %s]" % (dom, body))


def fresh_classes(h):
    cls = {"Base": LinearOperator}
    order = []
    parent = h["parent"]
    todo = set(parent)
    while todo:
        for c in sorted(todo):
            if parent[c] in cls:
                ns = {}
                for m in h["defines"][c]:
                    if m == "gpn":
                        ns["_getparamnames"] = lambda self, prefix="": []
                    elif m == "fm":
                        ns["_fullmatrix"] = lambda self: torch.eye(2)
                    else:
                        ns[METH[m]] = (lambda self, x: x)
                cls[c] = type("H_" + c, (cls[parent[c]],), ns)
                todo.discard(c)
                break
    return cls


def cache_replay(ctx, hname, h, maxsteps):
    c = dict(Classes=set(h["parent"]), Parent=tla_fn(h["parent"]), Defines=tla_fn(h["defines"]), CacheScope="own",
             RaiseEveryTime=True, MaxSteps=maxsteps)
    name = "MC_LC_" + hname.replace("-", "_").replace("+", "_")
    t, cf = tlcmod.gen_mc(ctx.work, "LinopCache", name, c, invariants=["VisibleTruthful", "Instantiable"])
    dot = os.path.join(ctx.work, name + ".dot")
    ctx.model_check(t, cf, workers=4, dump_dot=dot, label="class cache " + hname, timeout=300)
    nodes, inits, edges = tlcmod.parse_dot(dot)
    os.remove(dot)
    out = {}
    for s, d, lab in edges:
        out.setdefault(s, []).append((d, lab))
    saved = {f: LinearOperator.__dict__.get(f) for f in FLAGS}
    npaths = 0
    try:
        # every path of the graph from the initial state (states carry the step counter: the graph is a tree of histories)
        stack = [(inits[0], [])]
        while stack:
            node, path = stack.pop()
            for d, lab in out.get(node, []):
                cname = lab.split('"')[1]
                p2 = path + [cname]
                stack.append((d, p2))
                # replay the whole history on fresh classes and a pristine base class
                for f in FLAGS:
                    setattr(LinearOperator, f, False)
                cls = fresh_classes(h)
                res = None
                for cn in p2:
                    try:
                        with warnings.catch_warnings():
                            warnings.simplefilter("ignore")
                            inst = cls[cn](shape=(2, 2))
                        res = (True, {m for m, pr in PROP.items() if getattr(inst, pr)})
                    except RuntimeError:
                        res = (False, None)
                npaths += 1
                last = nodes[d]["last"]
                ctx.case(key=(hname, tuple(p2)), sample={"hierarchy": hname, "instantiation_order": p2, "spec": {"ok": last["ok"], "flags": sorted(last["flags"])},
                                                         "code": {"ok": res[0], "flags": sorted(res[1]) if res[1] is not None else None}} if npaths % 50 == 1 else None)
                why = None
                if bool(last["ok"]) != res[0]:
                    why = "instantiation %s, specification says %s" % ("succeeded" if res[0] else "raised", "succeeds" if last["ok"] else "raises")
                elif res[0] and set(last["flags"]) != res[1]:
                    why = "capability flags %s, the class provides %s" % (sorted(res[1]), sorted(last["flags"]))
                if why:
                    kind = "base-first" if "Base" in p2[:-1] else ("parent-first" if any(h["parent"].get(p2[-1]) == q for q in p2[:-1]) else "other")
                    ctx.violation("linopcache/%s" % kind, "hierarchy %s, instantiation order %s: %s" % (hname, p2, why),
                                  {"hierarchy": hname, "order": p2})
    finally:
        for f, v in saved.items():
            setattr(LinearOperator, f, v if v is not None else False)
    return npaths


# ------------------------------------------------------------------ batch-shape table
def shape_table(ctx, dims, maxrank):
    c = dict(Dims=set(dims), MaxRank=maxrank)
    t, cf = tlcmod.gen_mc(ctx.work, "Bcast", "MC_Bcast", c, invariants=["Laws"])
    dot = os.path.join(ctx.work, "bc.dot")
    ctx.model_check(t, cf, workers=8, dump_dot=dot, label="batch-shape table", timeout=300)
    nodes, inits, edges = tlcmod.parse_dot(dot)
    os.remove(dot)
    log = []
    cls_mv = make_leaf_class(set(), log, "B1")
    n = 0
    for st in nodes.values():
        a, b, out = tuple(st["a"]), tuple(st["b"]), st["out"]
        for which, opmaker in (("matrix", lambda m: LinearOperator.m(m, is_hermitian=False)), ("mv-only", lambda m: cls_mv(m, False))):
            op = opmaker(torch.randn(a + (2, 2), dtype=torch.float64))
            D = op.mat
            xx = torch.randn(b + (2,), dtype=torch.float64)
            XX = torch.randn(b + (2, 3), dtype=torch.float64)
            for prod, fn, ref in (("mv", lambda: op.mv(xx), lambda: (D @ xx.unsqueeze(-1)).squeeze(-1)), ("mm", lambda: op.mm(XX), lambda: D @ XX),
                                  ("rmv", lambda: op.rmv(xx), lambda: (D.transpose(-2, -1) @ xx.unsqueeze(-1)).squeeze(-1)),
                                  ("rmm", lambda: op.rmm(XX), lambda: D.transpose(-2, -1) @ XX)):
                n += 1
                ctx.case(key=("shape", which, prod, a, b))
                try:
                    val = fn()
                    got = ("ok", val)
                except (RuntimeError, ValueError, IndexError) as ex:
                    got = ("raise", str(ex)[:80])
                why = None
                if out["ok"]:
                    exp = tuple(out["shape"])
                    if got[0] == "raise":
                        why = "raised (%s) although the batch shapes broadcast to %s" % (got[1], exp)
                    elif tuple(got[1].shape[:len(got[1].shape) - (1 if prod in ("mv", "rmv") else 2)]) != exp:
                        why = "batch shape %s, specification %s" % (tuple(got[1].shape), exp)
                    elif not torch.allclose(got[1], ref(), atol=1e-10):
                        why = "value differs from the dense batched product"
                elif got[0] == "ok":
                    why = "mismatched batch shapes were accepted (result shape %s)" % (tuple(got[1].shape),)
                if why:
                    ctx.violation("linopshape/%s/%s" % (which, prod), "%s operator batch %s, operand batch %s, %s: %s" % (which, a, b, prod, why),
                                  {"a": a, "b": b, "product": prod, "which": which})
        # two OPERATORS with batch shapes a and b combined through the public algebra: declared shape and values
        for which, mk in (("matrix", lambda m: LinearOperator.m(m, is_hermitian=False)), ("mv-only", lambda m: cls_mv(m, False))):
            Ma = torch.randn(a + (2, 3), dtype=torch.float64)
            Mb = torch.randn(b + (3, 2), dtype=torch.float64)
            Ma2 = torch.randn(a + (2, 2), dtype=torch.float64)
            Mb2 = torch.randn(b + (2, 2), dtype=torch.float64)
            for comb, build, dense in (("matmul", lambda: mk(Ma).matmul(mk(Mb)), lambda: Ma @ Mb),
                                       ("add", lambda: mk(Ma2) + mk(Mb2), lambda: Ma2 + Mb2),
                                       ("sub", lambda: mk(Ma2) - mk(Mb2), lambda: Ma2 - Mb2),
                                       ("matmul.H", lambda: mk(Ma).matmul(mk(Mb)).H, lambda: (Ma @ Mb).transpose(-2, -1))):
                n += 1
                ctx.case(key=("shape-composed", which, comb, a, b))
                why = None
                try:
                    with warnings.catch_warnings():
                        warnings.simplefilter("ignore")
                        op2 = build()
                        got = ("ok", op2)
                except (RuntimeError, ValueError, IndexError) as ex:
                    got = ("raise", str(ex)[:80])
                if out["ok"]:
                    exp = tuple(out["shape"])
                    if got[0] == "raise":
                        why = "raised (%s) although the batch shapes broadcast to %s" % (got[1], exp)
                    else:
                        D2 = dense()
                        if tuple(op2.shape) != tuple(D2.shape):
                            why = "declared shape %s, the dense combination has shape %s" % (tuple(op2.shape), tuple(D2.shape))
                        else:
                            try:
                                xx = torch.randn(D2.shape[-1], dtype=torch.float64)
                                v = op2.mv(xx)
                                if tuple(v.shape) != exp + (D2.shape[-2],) or not torch.allclose(v, (D2 @ xx.unsqueeze(-1)).squeeze(-1), atol=1e-10):
                                    why = "mv gives shape %s / wrong values (dense: %s)" % (tuple(v.shape), exp + (D2.shape[-2],))
                                else:
                                    F = op2.fullmatrix()
                                    if tuple(F.shape) != tuple(D2.shape) or not torch.allclose(F, D2, atol=1e-10):
                                        why = "fullmatrix gives shape %s / wrong values (dense shape %s)" % (tuple(F.shape), tuple(D2.shape))
                            except (RuntimeError, ValueError, IndexError) as ex:
                                why = "a product of the combined operator raised: %s" % str(ex)[:100]
                elif got[0] == "ok":
                    # the mismatch must be rejected at the latest when the combination is used (construction may be lazy)
                    try:
                        vv = op2.mv(torch.randn(op2.shape[-1], dtype=torch.float64))
                        why = "operators with mismatched batch shapes were combined (declared shape %s) and mv returned shape %s" % (tuple(op2.shape), tuple(vv.shape))
                    except (RuntimeError, ValueError, IndexError):
                        pass
                if why:
                    ctx.violation("linopshape/composed/%s" % comb, "%s operators with batch shapes %s and %s combined by %s: %s" % (which, a, b, comb, why),
                                  {"a": a, "b": b, "comb": comb, "which": which})
    return n


def binary_shape_table(ctx):
    """LinopShape.tla: every (constructor, operand shapes over {1,2,3}) row on dense and matrix-free operands: accepted or rejected as
    predicted; an accepted construction declares the predicted shape and its products equal the dense matrix's"""
    c = dict(Sizes={1, 2, 3}, FullShapeCompared=True)
    t, cf = tlcmod.gen_mc(ctx.work, "LinopShape", "MC_LinopShape", c, invariants=["OnlyConformable"])
    dot = os.path.join(ctx.work, "ls.dot")
    ctx.model_check(t, cf, workers=4, dump_dot=dot, label="shapes of binary constructions", timeout=300)
    nodes, _, _ = tlcmod.parse_dot(dot)
    os.remove(dot)
    t2, cf2 = tlcmod.gen_mc(ctx.work, "LinopShape", "MC_LinopShape_dev", dict(c, FullShapeCompared=False), invariants=["OnlyConformable"])
    ctx.expect_violation(t2, cf2, inv="OnlyConformable", label="deviation FullShapeCompared", workers=4, timeout=300)
    mv_only = make_leaf_class(set(), [], "R4")
    g = torch.Generator().manual_seed(17)
    n = 0
    with warnings.catch_warnings():
        warnings.simplefilter("ignore")
        for st in sorted(nodes.values(), key=lambda s_: (s_["op"], s_["r1"], s_["c1"], s_["r2"], s_["c2"])):
            opn, r1, c1, r2, c2, pred = str(st["op"]), int(st["r1"]), int(st["c1"]), int(st["r2"]), int(st["c2"]), st["pred"]
            for ka, kb in (("dense", "dense"), ("matrix-free", "dense"), ("dense", "matrix-free")):
                n += 1
                ctx.case(key=("linop-shape", opn, r1, c1, r2, c2, ka, kb))
                Am, Bm = torch.randn(r1, c1, generator=g, dtype=torch.float64), torch.randn(r2, c2, generator=g, dtype=torch.float64)
                mk = lambda kind, m_: LinearOperator.m(m_) if kind == "dense" else mv_only(m_, False)
                why = None
                try:
                    a_, b_ = mk(ka, Am), mk(kb, Bm)
                    res = {"add": lambda: a_ + b_, "sub": lambda: a_ - b_, "matmul": lambda: a_.matmul(b_)}[opn]()
                    if not pred["accept"]:
                        why = "accepted (declared shape %s), the specification rejects it" % (tuple(res.shape),)
                    else:
                        D = Am @ Bm if opn == "matmul" else (Am + Bm if opn == "add" else Am - Bm)
                        if tuple(res.shape[-2:]) != tuple(int(x) for x in pred["shape"]):
                            why = "declared shape %s, specification %s" % (tuple(res.shape), tuple(pred["shape"]))
                        elif not torch.allclose(res.fullmatrix(), D, atol=1e-12):
                            why = "fullmatrix differs from the dense result"
                        elif not torch.allclose(res.rmv(torch.ones(D.shape[0], dtype=torch.float64)), D.T @ torch.ones(D.shape[0], dtype=torch.float64), atol=1e-12):
                            why = "rmv differs from the dense adjoint product"
                except (RuntimeError, TypeError, AssertionError) as e:
                    if pred["accept"]:
                        why = "raised %s: %s" % (type(e).__name__, str(e)[:100])
                if why:
                    ctx.violation("linopshape/%s" % opn, "%s of a %dx%d (%s) and a %dx%d (%s) operator: %s" % (opn, r1, c1, ka, r2, c2, kb, why), {"op": opn, "shapes": [r1, c1, r2, c2]})
    return n


def rejections(ctx):
    """shape / Hermiticity violations are rejected"""
    n = 0
    A = LinearOperator.m(torch.randn(2, 3, dtype=torch.float64))
    B = LinearOperator.m(torch.randn(2, 2, dtype=torch.float64))
    tests = [
        ("mv wrong length", lambda: A.mv(torch.randn(2, dtype=torch.float64))),
        ("mm wrong rows", lambda: A.mm(torch.randn(2, 2, dtype=torch.float64))),
        ("rmv wrong length", lambda: A.rmv(torch.randn(3, dtype=torch.float64))),
        ("rmm wrong rows", lambda: A.rmm(torch.randn(3, 2, dtype=torch.float64))),
        ("matmul inner mismatch", lambda: B.matmul(LinearOperator.m(torch.randn(3, 2, dtype=torch.float64)))),
        ("add shape mismatch", lambda: A + B),
        ("sub shape mismatch", lambda: A - B),
        ("hermitian flag on non-hermitian matrix", lambda: LinearOperator.m(torch.tensor([[1., 2.], [0., 1.]]), is_hermitian=True)),
        ("hermitian flag on non-square shape", lambda: make_leaf_class(set(), [], "R1")(torch.randn(2, 3), True)),
        ("scalar must be a number", lambda: B * torch.tensor(2.0)),
        ("shape with one dimension", lambda: make_leaf_class(set(), [], "R2")(torch.randn(3), False)),
    ]
    # binary constructors x which of the matrix dimensions disagree (also against 1, which would broadcast) x operand kinds
    mv_only = make_leaf_class(set(), [], "R3")
    mk = {"dense": lambda r, c_: LinearOperator.m(torch.randn(r, c_, dtype=torch.float64)), "matrix-free": lambda r, c_: mv_only(torch.randn(r, c_, dtype=torch.float64), False)}
    for opn, opf in (("add", lambda a_, b_: a_ + b_), ("sub", lambda a_, b_: a_ - b_), ("rsub", lambda a_, b_: b_ - a_)):
        for (r2, c2, what) in ((2, 3, "rows"), (3, 2, "columns"), (1, 3, "rows against 1"), (3, 1, "columns against 1"), (2, 2, "rows and columns")):
            for ka, kb in (("dense", "dense"), ("matrix-free", "dense"), ("dense", "matrix-free"), ("matrix-free", "matrix-free")):
                tests.append(("%s of a 3x3 and a %dx%d operator (%s differ; %s, %s)" % (opn, r2, c2, what, ka, kb),
                              lambda opf=opf, ka=ka, kb=kb, r2=r2, c2=c2: opf(mk[ka](3, 3), mk[kb](r2, c2))))
    for (sa, sb, what) in (((3, 2), (3, 3), "inner dimensions differ"), ((3, 2), (1, 3), "inner dimension against 1"), ((3, 1), (2, 3), "inner dimension 1 against 2")):
        for ka, kb in (("dense", "dense"), ("matrix-free", "dense"), ("dense", "matrix-free")):
            tests.append(("matmul of a %dx%d and a %dx%d operator (%s; %s, %s)" % (sa + sb + (what, ka, kb)), lambda ka=ka, kb=kb, sa=sa, sb=sb: mk[ka](*sa).matmul(mk[kb](*sb))))
    for name, fn in tests:
        n += 1
        ctx.case(key=("reject", name))
        try:
            with warnings.catch_warnings():
                warnings.simplefilter("ignore")
                fn()
            ctx.violation("linopreject/" + name, "%s was accepted without an error" % name, {"test": name})
        except (RuntimeError, TypeError, AssertionError):
            pass
    return n


def run(ctx):
    thorough = ctx.tier == "thorough"
    rng = random.Random(ctx.seed)
    torch.manual_seed(ctx.seed)
    # design level
    for sw in ("MulRmvUsesPublic", "AdjMvFallsBack", "MatmulNotHerm"):
        c = dict(MulRmvUsesPublic=True, AdjMvFallsBack=True, MatmulNotHerm=True, Depth=2)
        c[sw] = False
        t, cf = tlcmod.gen_mc(ctx.work, "LinopExpr", "MC_LE_dev_" + sw, c, invariants=["AllGood"])
        ctx.expect_violation(t, cf, inv="AllGood", label="deviation " + sw, workers=8, timeout=600)
    h = HIERARCHIES["chain-PC+D"]
    for sw, val in (("CacheScope", "inherited"), ("RaiseEveryTime", False)):
        c = dict(Classes=set(h["parent"]), Parent=tla_fn(h["parent"]), Defines=tla_fn(h["defines"]), CacheScope="own", RaiseEveryTime=True, MaxSteps=4)
        c[sw] = val
        t, cf = tlcmod.gen_mc(ctx.work, "LinopCache", "MC_LC_dev_" + sw, c, invariants=["VisibleTruthful", "Instantiable"])
        ctx.expect_violation(t, cf, label="deviation " + sw, workers=4, timeout=300)
    # spec -> code
    nn_, ne = expr_replay(ctx, 2, 100000 if thorough else 1200, rng)
    if thorough and not getattr(ctx, "_depth3_done", False):
        # depth 3: all 82k trees are checked by TLC (AllGood, HermSound); a seeded random subset is replayed on the real classes (first pass only)
        n3, e3 = expr_replay(ctx, 3, 4000, rng)
        nn_, ne = nn_ + n3, ne + e3
        ctx._depth3_done = True
    npaths = 0
    for hname, hh in HIERARCHIES.items():
        npaths += cache_replay(ctx, hname, hh, 4 if thorough else 3)
    nshape = shape_table(ctx, [1, 2, 3], 2)
    nrej = rejections(ctx) + binary_shape_table(ctx)
    ctx.replayed = ne + npaths + nshape
    ctx.notes.update(expression_trees_enumerated=nn_, expression_trees_replayed=ne, instantiation_histories_replayed=npaths,
                     shape_cases=nshape, rejection_cases=nrej)
    ctx.exhaustive = thorough
    ctx.assumptions += [
        "leaf matrices L1, L2 (generic) and S1 (symmetric) are fixed 2x2 integer matrices in the exact part: any wrong transpose, sign, scale or operand order changes the integers; random complex / float32 / batched matrices in the numeric part",
        "folded dense operands (Matrix op Matrix) are replayed at depth 1 only",
        "quick replays a seeded random subset of the enumerated trees; thorough all of them",
        "TLC, SANY, counting leaves of harness/props/c11.py"]
    return ctx.finish(
        rule="case = (expression tree, product[, dtype, batch]) for every tree TLC enumerates to depth 2 over 6 leaf kinds; (hierarchy, "
             "instantiation history) for every history TLC enumerates; (operator batch shape, operand batch shape, product) for the whole shape table")


def replay(data):
    print(data["what"])
    return 1
