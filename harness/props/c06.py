"""C06 - gradients of eigenpairs and singular triplets are exact, including degeneracy.

Spec: Degen.tla (dataflow of the implicit backward pass over directions: the solution of the singular shifted system
carries arbitrary components inside the degenerate block, all of which must be removed before use).  TLC explores
every gap pattern of <= 4 returned eigenvalues and every choice of garbage.  Spec -> code: each (gap pattern, column,
garbage set) TLC enumerates is realised on the real symeig backward by a probing backward solver that returns a valid
solution of the singular system PLUS the chosen kernel components: the gradient must not change.  A case table
compares first- and second-order gradients with autograd through torch.linalg.eigh (non-degenerate) and with central
differences of basis-independent losses under degeneracy-breaking perturbations (degenerate).
"""
import itertools
import json
import os
import warnings

import numpy as np
import torch
import xitorch
import xitorch.linalg
from xitorch import LinearOperator

from vlib import tlc as tlcmod
from vlib.ctx import Machinery
from props.c05 import HermOp

DT = torch.float64


def spectrum_for(gaps, n):
    """eigenvalues realising a gap pattern among the first len(gaps)+1 (lowest) eigenvalues; the rest well separated"""
    lam = [0.5]
    for gflag in gaps:
        lam.append(lam[-1] if gflag else lam[-1] + 0.7)
    while len(lam) < n:
        lam.append(lam[-1] + 0.9)
    return np.array(lam)


def build(n, lam, withM, g, complex_=False):
    dtype = torch.complex128 if complex_ else DT
    q = torch.randn(n, n, generator=g, dtype=DT)
    if complex_:
        q = q + 1j * torch.randn(n, n, generator=g, dtype=DT)
    Q, _ = torch.linalg.qr(q.to(dtype))
    A0 = (Q * torch.tensor(lam, dtype=DT).to(dtype)) @ Q.transpose(-2, -1).conj()
    if not withM:
        return A0, None
    qm = torch.randn(n, n, generator=g, dtype=DT)
    Qm, _ = torch.linalg.qr(qm)
    Mm = ((Qm * torch.linspace(0.8, 1.4, n, dtype=DT)) @ Qm.T).to(dtype)
    # generalised problem with the same eigenvalues: A = L A0 L^H
    L = torch.linalg.cholesky(Mm)
    return L @ A0 @ L.transpose(-2, -1).conj(), Mm


def blocks_of(gaps):
    bl = [[0]]
    for i, gflag in enumerate(gaps):
        if gflag:
            bl[-1].append(i + 1)
        else:
            bl.append([i + 1])
    return bl


def loss_fn(evals, evecs, blocks, G, Mm):
    """basis-independent inside every block: sum_b c_b sum_{i in b} lambda_i + w_b tr(P_b G) with P_b = sum_i v_i v_i^H (M-orthonormal v)"""
    L = 0.0
    for bi, b in enumerate(blocks):
        c_b, w_b = 1.0 + 0.3 * bi, 0.7 - 0.2 * bi
        V = evecs[..., b]
        L = L + c_b * evals[..., b].sum() + w_b * torch.einsum("ia,ij,ja->", V.conj(), G.to(V.dtype), V).real
    return L


def dense_loss(Am, Mm, neig, blocks, G):
    if Mm is None:
        ev, evec = torch.linalg.eigh(Am)
    else:
        Lc = torch.linalg.cholesky(Mm)
        Li = torch.linalg.inv(Lc)
        ev, y = torch.linalg.eigh(Li @ Am @ Li.transpose(-2, -1).conj())
        evec = Li.transpose(-2, -1).conj() @ y
    return loss_fn(ev[:neig], evec[:, :neig], blocks, G, Mm)


def sym(D):
    return 0.5 * (D + D.transpose(-2, -1).conj())


def xi_grad(Am, Mm, neig, blocks, G, method, opkind, bck=None, create_graph=False):
    Ap = Am.clone().requires_grad_()
    Mp = Mm.clone().requires_grad_() if Mm is not None else None
    As = sym(Ap)
    Ms = sym(Mp) if Mp is not None else None
    A = LinearOperator.m(As, is_hermitian=True) if opkind == "dense" else HermOp(As)
    M = (LinearOperator.m(Ms, is_hermitian=True) if opkind == "dense" else HermOp(Ms)) if Ms is not None else None
    kw = {}
    if bck is not None:
        kw["bck_options"] = bck
    if method == "davidson":
        kw["min_eps"] = 1e-11
    ev, evec = xitorch.linalg.symeig(A, neig=neig, mode="lowest", M=M, method=method, **kw)
    L = loss_fn(ev, evec, blocks, G, Mm)
    leaves = [Ap] + ([Mp] if Mp is not None else [])
    gr = torch.autograd.grad(L, leaves, create_graph=create_graph, allow_unused=True)
    return gr, leaves, (ev.detach(), evec.detach())


def forward_accurate(Am, Mm, ev, evec, tol=1e-9):
    """are the returned pairs accurate enough for a gradient comparison? (forward accuracy is C05's business; davidson loses
    orthogonality on some degenerate spectra - see the C05 finding)"""
    MX = (Mm @ evec) if Mm is not None else evec
    res = Am @ evec - MX * ev.unsqueeze(-2)
    Gm = evec.transpose(-2, -1).conj() @ MX
    return float(res.abs().max()) < tol and float((Gm - torch.eye(Gm.shape[-1], dtype=Gm.dtype)).abs().max()) < tol


def fd_directional(Am, Mm, neig, blocks, G, DA, DM, h=1e-5):
    f = lambda s: float(dense_loss(sym(Am + s * DA), sym(Mm + s * DM) if Mm is not None else None, neig, blocks, G))
    return (f(h) - f(-h)) / (2 * h)


def run(ctx):
    thorough = ctx.tier == "thorough"
    g = torch.Generator().manual_seed(ctx.seed + 11)
    base = dict(MaxNeig=4, FirstOrthoUsesBlock=True, SecondOrthoUsesBlock=True)
    t, cf = tlcmod.gen_mc(ctx.work, "Degen", "MC_Degen", base, invariants=["Solvable", "NoGarbageUsed"])
    dot = os.path.join(ctx.work, "dg.dot")
    ctx.model_check(t, cf, workers=8, dump_dot=dot, label="degenerate-block dataflow", timeout=600)
    nodes, inits, edges = tlcmod.parse_dot(dot)
    os.remove(dot)
    for sw, inv in (("FirstOrthoUsesBlock", "Solvable"), ("SecondOrthoUsesBlock", "NoGarbageUsed")):
        c = dict(base)
        c[sw] = False
        t, cf = tlcmod.gen_mc(ctx.work, "Degen", "MC_Degen_dev_" + sw, c, invariants=["Solvable", "NoGarbageUsed"])
        ctx.expect_violation(t, cf, inv=inv, label="deviation " + sw, workers=4, timeout=300)
    # ---- spec -> code: garbage injection for every (gap pattern, column, garbage set) at pc = "ortho2"
    cases = set()
    for st in nodes.values():
        if st["pc"] == "ortho2":
            neig = int(st["neig"])
            gaps = tuple(bool(st["gaps"][i]) if not isinstance(st["gaps"], dict) else bool(st["gaps"][i + 1]) for i in range(neig - 1)) if neig > 1 else ()
            cases.add((neig, gaps, int(st["col"]), tuple(sorted(int(x) for x in st["garbage"]))))
    cases = sorted(cases)
    ninj = 0
    with warnings.catch_warnings():
        warnings.simplefilter("ignore")
        ref_cache = {}
        for (neig, gaps, col, gset) in cases:
            if not gset:
                continue
            if not thorough and (len(gset) > 2 or (neig == 4 and col not in (1, 3))):
                continue
            for withM in ((False, True) if (thorough or (neig + col) % 2 == 0) else (False,)):
                n = neig + 2
                ninj += 1
                ctx.case(key=("inject", neig, gaps, col, gset, withM),
                         sample={"neig": neig, "coincide": list(gaps), "column": col, "garbage_along": list(gset), "M": withM} if ninj % 40 == 1 else None)
                key = (neig, gaps, withM)
                if key not in ref_cache:
                    Am, Mm = build(n, spectrum_for(gaps, n), withM, g)
                    G = sym(torch.randn(n, n, generator=g, dtype=DT))
                    ref_cache[key] = (Am, Mm, G)
                Am, Mm, G = ref_cache[key]
                blocks = blocks_of(gaps)
                store = {}

                def probe(A_, B_, E_, M_, **kw):
                    # a valid solution of every (possibly singular) shifted system, plus the chosen kernel components
                    Af = A_.fullmatrix()
                    Mf = M_.fullmatrix() if M_ is not None else torch.eye(Af.shape[-1], dtype=Af.dtype)
                    cols = []
                    for c_ in range(B_.shape[-1]):
                        K = Af - E_[c_] * Mf
                        cols.append(torch.linalg.pinv(K, hermitian=True, rtol=1e-9) @ B_[:, c_])
                    X = torch.stack(cols, dim=-1)
                    if store.get("inject"):
                        V = store["evecs"]
                        for j in gset:
                            X[:, col - 1] = X[:, col - 1] + (0.37 + 0.1 * j) * V[:, j - 1]
                    return X
                try:
                    store["inject"] = False
                    g0, _, (ev, evec) = xi_grad(Am, Mm, neig, blocks, G, "custom_exacteig", "dense", bck={"method": probe})
                    store["evecs"] = evec
                    store["inject"] = True
                    g1, _, _ = xi_grad(Am, Mm, neig, blocks, G, "custom_exacteig", "dense", bck={"method": probe})
                    dev = max(float((a - b).abs().max()) for a, b in zip(g0, g1))
                    scale = max(1.0, max(float(a.abs().max()) for a in g0))
                    if dev > 1e-8 * scale:
                        blk = [b for b in blocks if (col - 1) in b][0]
                        mates = sorted(set(j - 1 for j in gset) & set(blk) - {col - 1})
                        ctx.violation("eiggrad/degenerate-block-garbage-reaches-gradient" if mates else "eiggrad/own-eigenvector-component-not-removed",
                                      "symeig backward, %d eigenvalues with coincidences %s%s: adding kernel components along eigenvectors %s to the backward solver's solution "
                                      "for column %d changes the gradient by %.2e (the specification removes every component inside the degenerate block)"
                                      % (neig, list(gaps), ", with M" if withM else "", list(gset), col, dev), {"neig": neig, "gaps": list(gaps), "col": col, "gset": list(gset), "M": withM})
                except Exception as e:
                    ctx.violation("eiggrad/inject/raise", "garbage-injection run (neig=%d gaps=%s col=%d gset=%s M=%s) raised %s: %s" % (neig, gaps, col, gset, withM, type(e).__name__, str(e)[:120]),
                                  {"neig": neig})
        # ---- case table: gradients against references
        ntab = 0
        skipped = [0]
        patterns = [(), (False,), (True,), (False, False), (True, False), (False, True), (True, True), (True, False, True), (False, True, True)]
        for gaps in patterns:
            neig = len(gaps) + 1
            for full in (False, True):
                n = neig if full else neig + 2
                if n < 2:
                    continue
                for withM in (False, True):
                    for method, opkind in (("exacteig", "dense"), ("custom_exacteig", "dense"), ("custom_exacteig", "free"), ("davidson", "free")):
                        for cplx in ((False, True) if (method == "exacteig" and thorough) else (False,)):
                            ntab += 1
                            degenerate = any(gaps)
                            ctx.case(key=("table", gaps, full, withM, method, opkind, cplx))
                            Am, Mm = build(n, spectrum_for(gaps, n), withM, g, cplx)
                            G = sym(torch.randn(n, n, generator=g, dtype=DT))
                            blocks = blocks_of(gaps)
                            why = None
                            try:
                                order2 = (not degenerate) and method in ("exacteig", "custom_exacteig") and not cplx
                                gr, leaves, (ev_, evec_) = xi_grad(Am, Mm, neig, blocks, G, method, opkind, create_graph=order2)
                                if method == "davidson" and not forward_accurate(Am, Mm, ev_, evec_):
                                    skipped[0] += 1
                                    continue
                                if not all(bool(torch.isfinite(x).all()) for x in gr if x is not None):
                                    why = "non-finite gradient"
                                else:
                                    # directional derivatives along generic (degeneracy-breaking) symmetric directions
                                    for trial in range(2):
                                        DA = sym(torch.randn(n, n, generator=g, dtype=DT)).to(Am.dtype)
                                        DM = sym(torch.randn(n, n, generator=g, dtype=DT)).to(Am.dtype) * 0.3 if withM else None
                                        fd = fd_directional(Am, Mm, neig, blocks, G, DA, DM)
                                        an = float((gr[0] * DA.conj()).sum().real) + (float((gr[1] * DM.conj()).sum().real) if withM else 0.0)
                                        tol = 2e-5 if method != "davidson" else 2e-4
                                        if abs(an - fd) > tol * max(1.0, abs(fd)):
                                            why = "directional derivative %.8f, central difference of the dense eigendecomposition %.8f" % (an, fd)
                                            break
                                if why is None and order2:
                                    # second order against autograd through the dense eigendecomposition
                                    Ad = Am.clone().requires_grad_()
                                    Md = Mm.clone().requires_grad_() if withM else None
                                    Ld = dense_loss(sym(Ad), sym(Md) if withM else None, neig, blocks, G)
                                    lv = [Ad] + ([Md] if withM else [])
                                    gd = torch.autograd.grad(Ld, lv, create_graph=True)
                                    cw = [torch.cos(torch.arange(x.numel(), dtype=DT)).reshape(x.shape) for x in lv]
                                    s1 = sum((a * c_).sum() for a, c_ in zip(gr, cw))
                                    s2 = sum((a * c_).sum() for a, c_ in zip(gd, cw))
                                    h1 = torch.autograd.grad(s1, leaves, allow_unused=True)
                                    h2 = torch.autograd.grad(s2, lv, allow_unused=True)
                                    for a, b in zip(h1, h2):
                                        a = torch.zeros_like(b) if a is None else a
                                        if not torch.allclose(sym(a), sym(b), atol=1e-6, rtol=1e-6):
                                            why = "second-order gradient differs from autograd through torch.linalg.eigh by %.2e" % float((sym(a) - sym(b)).abs().max())
                            except Exception as e:
                                why = "raised %s: %s" % (type(e).__name__, str(e)[:140])
                            if why:
                                kk = "eiggrad/degenerate-block-garbage-reaches-gradient" if (degenerate and method != "exacteig" and "directional" in why) else \
                                     "eiggrad/table/%s/%s" % (method, "degenerate" if degenerate else "separated")
                                ctx.violation(kk, "symeig gradient, coincidences %s, neig %d of n %d, M=%s, method %s, %s operator%s: %s"
                                              % (list(gaps), neig, n, withM, method, opkind, ", complex" if cplx else "", why), {"gaps": list(gaps), "method": method, "M": withM})
        # ---- batches mixing elements with and without coinciding eigenvalues: each element's gradient equals its unbatched one
        for gaps in ((True,), (True, False), (False, True)):
            neig = len(gaps) + 1
            n = neig + 2
            blocks = blocks_of(gaps)
            for withM in (False, True):
                for method, opkind in (("custom_exacteig", "dense"), ("davidson", "free"), ("exacteig", "dense")):
                    for order in ((0, 1), (1, 0)):
                        ntab += 1
                        ctx.case(key=("mixed-batch", gaps, withM, method, order))
                        A_deg, M_deg = build(n, spectrum_for(gaps, n), withM, g)
                        A_sep, M_sep = build(n, spectrum_for(tuple(False for _ in gaps), n), withM, g)
                        G = sym(torch.randn(n, n, generator=g, dtype=DT))
                        elems = [(A_deg, M_deg), (A_sep, M_sep)]
                        elems = [elems[i] for i in order]
                        why = None
                        try:
                            Ab = torch.stack([a_ for a_, _ in elems]).requires_grad_()
                            Mb = torch.stack([m_ for _, m_ in elems]).requires_grad_() if withM else None
                            A = LinearOperator.m(sym(Ab), is_hermitian=True) if opkind == "dense" else HermOp(sym(Ab))
                            M = (LinearOperator.m(sym(Mb), is_hermitian=True) if opkind == "dense" else HermOp(sym(Mb))) if withM else None
                            kw = {"min_eps": 1e-11} if method == "davidson" else {}
                            ev, evec = xitorch.linalg.symeig(A, neig=neig, mode="lowest", M=M, method=method, **kw)
                            L = sum(loss_fn(ev[i], evec[i], blocks, G, None) for i in range(2))
                            gb = torch.autograd.grad(L, [Ab] + ([Mb] if withM else []), allow_unused=True)
                            if method == "davidson" and not all(forward_accurate(elems[i][0], elems[i][1], ev[i].detach(), evec[i].detach()) for i in range(2)):
                                skipped[0] += 1
                                continue
                            for i in range(2):
                                DA = sym(torch.randn(n, n, generator=g, dtype=DT))
                                DM = sym(torch.randn(n, n, generator=g, dtype=DT)) * 0.3 if withM else None
                                fd = fd_directional(elems[i][0], elems[i][1], neig, blocks, G, DA, DM)
                                an = float((sym(gb[0][i]) * DA).sum()) + (float((sym(gb[1][i]) * DM).sum()) if withM else 0.0)
                                tol = 2e-5 if method != "davidson" else 2e-4
                                if abs(an - fd) > tol * max(1.0, abs(fd)):
                                    why = "directional derivative %.8f of batch element %d (%s) differs from the central difference %.8f of that matrix alone" % (
                                        an, i, "coinciding eigenvalues" if order[i] == 0 else "separated spectrum", fd)
                        except Exception as e:
                            why = "raised %s: %s" % (type(e).__name__, str(e)[:140])
                        if why:
                            ctx.violation("eiggrad/mixed-batch/%s" % method, "symeig(%s) on a batch mixing a matrix with coincidences %s and one with a separated spectrum%s: %s"
                                          % (method, list(gaps), ", with M" if withM else "", why),
                                          {"gaps": list(gaps), "method": method, "M": withM, "order": list(order), "G": G.tolist(),
                                           "A": [a_.tolist() for a_, _ in elems], "Mm": [m_.tolist() if m_ is not None else None for _, m_ in elems]})
        # ---- spectra of very small / large magnitude with well separated RELATIVE gaps, and the degeneracy thresholds switched off:
        #      eigenvalues that are distinct at the scale of the problem are not to be treated as coinciding
        for scale in (1e-7, 1.0, 1e4):
            for method, opkind in (("custom_exacteig", "dense"), ("davidson", "free")):
                for bck in ({}, {"degen_atol": 0.0, "degen_rtol": 0.0}):
                    ntab += 1
                    ctx.case(key=("scaled-spectrum", scale, method, tuple(sorted(bck))))
                    n, neig = 5, 3
                    A0, _ = build(n, spectrum_for((False, False), n), False, g)
                    G = sym(torch.randn(n, n, generator=g, dtype=DT))
                    blocks = [[0], [1], [2]]
                    why = None
                    try:
                        Al = (A0 * scale).clone().requires_grad_()
                        A = LinearOperator.m(sym(Al), is_hermitian=True) if opkind == "dense" else HermOp(sym(Al))
                        kw = {"min_eps": 1e-12 * scale} if method == "davidson" else {}
                        ev, evec = xitorch.linalg.symeig(A, neig=neig, mode="lowest", method=method, bck_options=dict(bck), **kw)
                        if method == "davidson" and not forward_accurate(A0 * scale, None, ev.detach(), evec.detach(), ) and scale == 1.0:
                            skipped[0] += 1
                            continue
                        # eigenvector part only (scaled so that the loss is O(1) whatever the magnitude of the spectrum)
                        L = loss_fn(ev / scale, evec, blocks, G, None)
                        Al2 = (A0 * scale).clone().requires_grad_()
                        Ld = dense_loss(sym(Al2), None, neig, blocks, G)
                        ev_d = torch.linalg.eigvalsh(sym(Al2))
                        Ld = Ld - sum((1.0 + 0.3 * bi) * ev_d[b].sum() for bi, b in enumerate(blocks)) + sum((1.0 + 0.3 * bi) * ev_d[b].sum() for bi, b in enumerate(blocks)) / scale
                        ga, = torch.autograd.grad(L, Al)
                        gr, = torch.autograd.grad(Ld, Al2)
                        rel = float((sym(ga) - sym(gr)).abs().max()) / max(float(sym(gr).abs().max()), 1e-300)
                        if not rel <= (1e-5 if method != "davidson" else 1e-3):
                            why = "gradient differs from the dense eigendecomposition by a relative %.2e" % rel
                    except Exception as e:
                        why = "raised %s: %s" % (type(e).__name__, str(e)[:140])
                    if why:
                        ctx.violation("eiggrad/scaled-spectrum/%s" % method, "symeig(%s, bck_options %s) on a well separated spectrum scaled by %g: %s" % (method, bck, scale, why),
                                      {"scale": scale, "method": method, "bck": bck})
        # ---- the forward decomposition runs while the operator's parameters are substituted (uselinopparams); differentiation happens
        #      after the block has ended, and the operator object is used again with other parameters in between
        from props.c02 import NonlinOp as _NonlinOp
        for method in ("custom_exacteig", "davidson"):
            for withM in (False, True):
                ntab += 1
                ctx.case(key=("substituted-forward", method, withM))
                n, neig = 5, 2
                S0, _ = build(n, spectrum_for((False,), n), False, g)
                p_orig = (torch.randn(n, generator=g, dtype=DT) * 0.3).requires_grad_()
                p_sub = (torch.randn(n, generator=g, dtype=DT) * 0.3).requires_grad_()
                M0 = None
                if withM:
                    Qm, _ = torch.linalg.qr(torch.randn(n, n, generator=g, dtype=DT))
                    M0 = (Qm * torch.linspace(0.8, 1.4, n, dtype=DT)) @ Qm.T
                G = sym(torch.randn(n, n, generator=g, dtype=DT))
                blocks = [[0], [1]]
                why = None
                try:
                    A = _NonlinOp(S0, p_orig, torch.exp)
                    M = LinearOperator.m(M0, is_hermitian=True) if withM else None
                    kw = {"min_eps": 1e-12} if method == "davidson" else {}
                    with A.uselinopparams(p_sub):
                        ev, evec = xitorch.linalg.symeig(A, neig=neig, mode="lowest", M=M, method=method, **kw)
                    # the operator is used again, with its own parameter, before the first result is differentiated
                    ev_b, evec_b = xitorch.linalg.symeig(A, neig=neig, mode="lowest", M=M, method=method, **kw)
                    L = loss_fn(ev, evec, blocks, G, None)
                    ga = torch.autograd.grad(L, [p_sub, p_orig], allow_unused=True)
                    Ld = dense_loss(S0 + torch.diag(torch.exp(p_sub)), M0, neig, blocks, G)
                    gr, = torch.autograd.grad(Ld, p_sub)
                    tol = 1e-6 if method != "davidson" else 1e-4
                    if ga[1] is not None and float(ga[1].abs().max()) > 0:
                        why = "the operator's own parameter, which did not enter this decomposition, received a non-zero gradient"
                    elif ga[0] is None or not torch.allclose(ga[0], gr, atol=tol, rtol=tol):
                        why = "gradient w.r.t. the substituted parameter differs from the dense reference by %s" % ("(absent)" if ga[0] is None else "%.2e" % float((ga[0] - gr).abs().max()))
                except Exception as e:
                    why = "raised %s: %s" % (type(e).__name__, str(e)[:140])
                if why:
                    ctx.violation("eiggrad/substituted-forward/%s" % method, "symeig(%s%s) run inside uselinopparams, differentiated after the block: %s" % (method, ", with M" if withM else "", why),
                                  {"method": method, "M": withM})
        # ---- operators that are diagonal / block-decoupled at the evaluation point: the shifted systems (A - lambda_i M) of the backward
        #      pass are EXACTLY singular in floating point (a random basis only makes them ill-conditioned); both ends of the spectrum,
        #      spectra of either sign, dense and matrix-free operators, with a (diagonal) metric
        for basis in ("diagonal", "two-blocks", "rotated"):
            for mode in ("lowest", "uppest"):
                for sign in ("positive", "negative", "mixed"):
                    for method, opkind, withM in (("custom_exacteig", "dense", False), ("custom_exacteig", "matrix-free", False), ("davidson", "dense", False),
                                                  ("custom_exacteig", "dense", True)):
                        ntab += 1
                        ctx.case(key=("decoupled", basis, mode, sign, method, opkind, withM))
                        n, neig = 5, 2
                        lam = torch.tensor([1.0, 2.5, 3.0, 4.7, 6.0], dtype=DT)
                        lam = {"positive": lam, "negative": -lam.flip(0), "mixed": lam - 3.2}[sign]
                        if basis == "diagonal":
                            Qb = torch.eye(n, dtype=DT)
                        elif basis == "two-blocks":
                            Qb = torch.zeros(n, n, dtype=DT)
                            Qb[:2, :2] = torch.linalg.qr(torch.randn(2, 2, generator=g, dtype=DT))[0]
                            Qb[2:, 2:] = torch.linalg.qr(torch.randn(3, 3, generator=g, dtype=DT))[0]
                            Qb = Qb[:, [0, 2, 1, 3, 4]]          # eigenvalues interleaved over the two blocks
                        else:
                            Qb = torch.linalg.qr(torch.randn(n, n, generator=g, dtype=DT))[0]
                        A0 = (Qb * lam) @ Qb.T
                        M0 = torch.diag(torch.linspace(0.8, 1.4, n, dtype=DT)) if withM else None
                        G = sym(torch.randn(n, n, generator=g, dtype=DT))
                        why = None
                        try:
                            Ap = A0.clone().requires_grad_()
                            Mp = M0.clone().requires_grad_() if withM else None
                            As = sym(Ap)
                            Aop = LinearOperator.m(As, is_hermitian=True) if opkind == "dense" else HermOp(As)
                            Mop = LinearOperator.m(sym(Mp), is_hermitian=True) if withM else None
                            kw = {"min_eps": 1e-12} if method == "davidson" else {}
                            ev, evec = xitorch.linalg.symeig(Aop, neig=neig, mode=mode, M=Mop, method=method, **kw)
                            lossx = (ev ** 2).sum() + ((evec @ evec.T) * G).sum()
                            leaves = [Ap] + ([Mp] if withM else [])
                            gx = torch.autograd.grad(lossx, leaves)
                            Ar = A0.clone().requires_grad_()
                            Mr = M0.clone().requires_grad_() if withM else None
                            if withM:
                                Li = torch.linalg.inv(torch.linalg.cholesky(sym(Mr)))
                                evr, yr = torch.linalg.eigh(Li @ sym(Ar) @ Li.T)
                                vr = Li.T @ yr
                            else:
                                evr, vr = torch.linalg.eigh(sym(Ar))
                            sel = slice(0, neig) if mode == "lowest" else slice(n - neig, n)
                            lossr = (evr[sel] ** 2).sum() + ((vr[:, sel] @ vr[:, sel].T) * G).sum()
                            gr = torch.autograd.grad(lossr, [Ar] + ([Mr] if withM else []))
                            tol = 1e-7 if method != "davidson" else 1e-5
                            for nm, a_, b_ in zip(("A", "M"), gx, gr):
                                if not torch.allclose(a_, b_, atol=tol, rtol=tol):
                                    why = "gradient w.r.t. %s differs from the dense reference by %.2e" % (nm, float((a_ - b_).abs().max()))
                        except Exception as e:
                            why = "raised %s: %s" % (type(e).__name__, str(e)[:140])
                        if why:
                            ctx.violation("eiggrad/decoupled/%s/%s" % (basis, mode), "symeig(%s, %s operator%s, mode %s) on a %s spectrum in a %s basis: %s"
                                          % (method, opkind, ", diagonal M" if withM else "", mode, sign, basis, why), {"basis": basis, "mode": mode, "sign": sign, "method": method})
        # ---- operators that depend non-linearly on their own parameter tensor (second order needs the explicit d2A/dp2 term)
        from props.c02 import NonlinOp
        for method in ("custom_exacteig", "davidson"):
            for withM in (False, True):
                ntab += 1
                ctx.case(key=("nonlinear-op", method, withM))
                n, neig = 5, 2
                S0, _ = build(n, spectrum_for((False,), n), False, g)
                M0 = None
                pl = (torch.randn(n, generator=g, dtype=DT) * 0.3).requires_grad_()
                ql = (torch.randn(n, generator=g, dtype=DT) * 0.2).requires_grad_() if withM else None
                if withM:
                    Qm, _ = torch.linalg.qr(torch.randn(n, n, generator=g, dtype=DT))
                    M0 = (Qm * torch.linspace(0.8, 1.4, n, dtype=DT)) @ Qm.T
                G = sym(torch.randn(n, n, generator=g, dtype=DT))
                blocks = [[0], [1]]
                why = None
                try:
                    A = NonlinOp(S0, pl, torch.exp)
                    M = NonlinOp(M0, ql, lambda q_: q_ ** 2) if withM else None
                    ev, evec = xitorch.linalg.symeig(A, neig=neig, mode="lowest", M=M, method=method, **({"min_eps": 1e-12} if method == "davidson" else {}))
                    leaves = [pl] + ([ql] if withM else [])
                    L = loss_fn(ev, evec, blocks, G, None)
                    Ld = dense_loss(S0 + torch.diag(torch.exp(pl)), (M0 + torch.diag(ql ** 2)) if withM else None, neig, blocks, G)
                    g1 = torch.autograd.grad(L, leaves, create_graph=True)
                    r1 = torch.autograd.grad(Ld, leaves, create_graph=True)
                    tol = 1e-6 if method != "davidson" else 1e-4
                    for a, b in zip(g1, r1):
                        if not torch.allclose(a, b, atol=tol, rtol=tol):
                            why = "first-order gradient differs from the dense reference by %.2e" % float((a - b).abs().max())
                    if why is None:
                        cw = [torch.cos(torch.arange(x.numel(), dtype=DT)) for x in leaves]
                        h1 = torch.autograd.grad(sum((a * c_).sum() for a, c_ in zip(g1, cw)), leaves, allow_unused=True)
                        h2 = torch.autograd.grad(sum((a * c_).sum() for a, c_ in zip(r1, cw)), leaves, allow_unused=True)
                        for a, b in zip(h1, h2):
                            a = torch.zeros_like(b) if a is None else a
                            if not torch.allclose(a, b, atol=100 * tol, rtol=100 * tol):
                                why = "second-order gradient differs from the dense reference by %.2e" % float((a - b).abs().max())
                except Exception as e:
                    why = "raised %s: %s" % (type(e).__name__, str(e)[:140])
                if why:
                    ctx.violation("eiggrad/nonlinear-operator/%s" % method, "symeig(%s) of S + diag(exp(p))%s: %s" % (method, " with M0 + diag(q^2)" if withM else "", why), {"method": method, "M": withM})
        # ---- svd: singular values and rank-one terms
        for (m_, n_) in ((4, 3), (3, 5), (4, 4)):
            for k in (1, 2):
                ntab += 1
                ctx.case(key=("svd", m_, n_, k))
                Amat = torch.randn(m_, n_, generator=g, dtype=DT).requires_grad_()
                Gs = torch.randn(m_, n_, generator=g, dtype=DT)
                try:
                    u, s, vh = xitorch.linalg.svd(LinearOperator.m(Amat, is_hermitian=False), k=k, method="custom_exacteig")
                    L = (s * torch.tensor([1.3, 0.6][:k], dtype=DT)).sum() + sum((u[:, i] * s[i]) @ Gs @ vh[i] for i in range(k))
                    gx, = torch.autograd.grad(L, Amat)
                    U, S, Vh = torch.linalg.svd(Amat, full_matrices=False)
                    idx = list(range(k - 1, -1, -1))       # xitorch: ascending order of the k largest
                    Lr = (S[idx] * torch.tensor([1.3, 0.6][:k], dtype=DT)).sum() + sum((U[:, j] * S[j]) @ Gs @ Vh[j] for j in idx)
                    gr_, = torch.autograd.grad(Lr, Amat)
                    if not torch.allclose(gx, gr_, atol=1e-7, rtol=1e-7):
                        ctx.violation("eiggrad/svd", "svd(%dx%d, k=%d): gradient of singular values + rank-one terms differs from torch.linalg.svd autograd by %.2e"
                                      % (m_, n_, k, float((gx - gr_).abs().max())), {"m": m_, "n": n_, "k": k})
                except Exception as e:
                    ctx.violation("eiggrad/svd/raise", "svd gradient (%dx%d, k=%d) raised %s: %s" % (m_, n_, k, type(e).__name__, str(e)[:120]), {"m": m_, "n": n_})
    from vlib import operandpattern
    ctx.replayed = ninj + operandpattern.replay(ctx, ["symeig"], "eiggrad")
    from vlib import objstate
    ctx.replayed += objstate.replay(ctx, ["symeig", "symeig-davidson"], "eiggrad")
    from vlib import bwdreuse
    ctx.replayed += bwdreuse.replay(ctx, ["symeig", "symeig-davidson"], "eiggrad", sample=(120 if ctx.tier == "thorough" else 20))
    ctx.notes.update(davidson_cases_skipped_for_inaccurate_forward=skipped[0], injection_cases=ninj, table_cases=ntab, tlc_garbage_choices=len(cases))
    ctx.assumptions += [
        "losses are basis-independent inside every degenerate block: sum_b c_b sum_{i in b} lambda_i + w_b tr(P_b G)",
        "degenerate reference: central differences (h = 1e-5) of the same loss evaluated with torch.linalg.eigh of the dense (Cholesky-reduced) matrices along generic symmetric directions that break the degeneracy; tolerance 2e-5 (2e-4 davidson)",
        "second order is checked on non-degenerate spectra only (against autograd through torch.linalg.eigh)",
        "garbage injection: the probing backward solver returns pinv-solutions of the shifted systems plus 0.37.. x the chosen eigenvectors; exact solutions of a singular system differ by exactly such components",
        "TLC, SANY"]
    return ctx.finish(rule="case = (number of eigenvalues, coincidence pattern, column, garbage set) for the states TLC enumerates after the singular solve (quick: subsets) | (pattern, full/partial spectrum, M, method, operator kind) table | svd")


def replay(data):
    print(data["what"])
    return 1
