"""C07 - solve_ivp integrates the ODE with the declared scheme and accuracy.

Specs: Tableau.tla (order conditions, exact via modular arithmetic, on the tableaux EXTRACTED from the imported
code), FixedRK.tla (exact rational trajectories and evaluation sequences for y' = lam*y + mu*t), AdaptiveRK.tla
(step controller).  Spec -> code: TLC's rational predictions are compared with the real fixed-step methods (values to
a few ulps, (t, y) call log).  Code -> spec: ark.try hook traces of rk23/rk45 validated by TLC against
Trace_AdaptiveRK.tla with numeric verdicts (global error, prefix independence, time reversal, tuple states).
"""
import json
import math
import os
from fractions import Fraction

import torch
import xitorch
import xitorch.integrate
from xitorch._utils import verif_hooks as vh

from vlib import tlc as tlcmod
from vlib.tlc import RawTla
from vlib.ctx import Machinery

DT = torch.float64
PRIMES = [46337, 46327, 46309, 46307, 46301, 46279, 46273, 46271, 46261, 46237, 46229, 46219, 46199, 46187, 46183]


def frac(v):
    f = Fraction(float(v)).limit_denominator(10 ** 7)
    return f, float(f) == float(v)


def tla_signed(f):
    return "<<%d, %d, %d>>" % (1 if f < 0 else 0, abs(f.numerator), f.denominator)


def tla_rat(f):
    return "<<%d, %d>>" % (f.numerator, f.denominator)


def extract_tableaux():
    """rational tableaux of the five methods from the imported modules"""
    from xitorch._impls.integrate.ivp import explicit_rk as ek
    from xitorch._impls.integrate.ivp import adaptive_rk as ak
    out = {}
    bad = []

    def conv(name, mat):
        res = []
        for row in mat:
            r = []
            for v in row:
                f, ok = frac(v)
                if not ok:
                    bad.append("%s entry %r is not a rational with denominator <= 1e7" % (name, float(v)))
                r.append(f)
            res.append(r)
        return res
    for name, tb, order in (("rk4", ek.rk4_tableau, 4), ("rk38", ek.rk38_tableau, 4), ("euler", ek.fwd_euler_tableau, 1)):
        A = conv(name + ".a", tb.a)
        out[name] = dict(A=A, B=conv(name + ".b", [tb.b])[0], C=conv(name + ".c", [tb.c])[0], order=order, Bhat=None, orderhat=0)
    for name, cls, order, oh in (("rk23", ak.RK23, 3, 2), ("rk45", ak.RK45, 5, 4)):
        s = cls.n_stages
        A0 = conv(name + ".A", cls.A.tolist())
        A = [row + [Fraction(0)] * (s - len(row)) for row in A0]
        B = conv(name + ".B", [cls.B.tolist()])[0]
        C = conv(name + ".C", [cls.C.tolist()])[0]
        E = conv(name + ".E", [cls.E.tolist()])[0]
        # FSAL extension: stage s+1 = f(t+h, ynew) has row B and c = 1; error = h * K^T E  =>  bhat = [B, 0] - E
        Aext = [r + [Fraction(0)] for r in A] + [B + [Fraction(0)]]
        Bext = B + [Fraction(0)]
        Cext = C + [Fraction(1)]
        Bhat = [b - e for b, e in zip(Bext, E)]
        out[name] = dict(A=Aext, B=Bext, C=Cext, order=order, Bhat=Bhat, orderhat=oh, cls=cls, nstages=s, eorder=cls.error_estimator_order)
    return out, bad


def check_tableaux(ctx, tabs):
    for name, tb in tabs.items():
        s = len(tb["B"])
        c = dict(A=RawTla("<<" + ", ".join("<<" + ", ".join(tla_signed(v) for v in row) + ">>" for row in tb["A"]) + ">>"),
                 B=RawTla("<<" + ", ".join(tla_signed(v) for v in tb["B"]) + ">>"),
                 C=RawTla("<<" + ", ".join(tla_signed(v) for v in tb["C"]) + ">>"),
                 Order=tb["order"],
                 Bhat=RawTla("<<" + ", ".join(tla_signed(v) for v in (tb["Bhat"] or tb["B"])) + ">>"),
                 OrderHat=tb["orderhat"], Primes=set(PRIMES))
        t, cf = tlcmod.gen_mc(ctx.work, "Tableau", "MC_Tab_" + name, c, invariants=["PrimesOK", "OrderConditions", "EmbeddedConditions", "Consistent"])
        try:
            r = tlcmod.run(t, cf, ctx.work, workers=8, timeout=600, deadlock=False)
        except tlcmod.TlcError as e:
            raise Machinery(str(e))
        ctx.states += r.distinct
        ctx.transitions += r.generated
        ctx.tlc_runs.append({"spec": "Tableau.tla", "tableau": name, "distinct": r.distinct, "violated": r.violated})
        ctx.case(key=("tableau", name), sample={"tableau": name, "order": tb["order"], "b": [str(v) for v in tb["B"]], "embedded_order": tb["orderhat"]})
        if r.violated:
            tree = r.trace[-1][1].get("t") if r.trace else None
            ctx.violation("ivp/tableau/%s/%s" % (name, r.violated),
                          "the %s tableau found in the code violates %s (tree %s): it is not a scheme of the declared order" % (name, r.violated, tree), {"tableau": name})
        if tb["orderhat"] and "eorder" in tb and tb["eorder"] != tb["orderhat"]:
            ctx.violation("ivp/tableau/%s/error-exponent" % name, "%s: error_estimator_order %s, embedded order %s" % (name, tb["eorder"], tb["orderhat"]), {"tableau": name})
    # non-vacuity: a perturbed rk4 weight must be caught
    tb = tabs["rk4"]
    Bbad = list(tb["B"])
    Bbad[1] = Bbad[1] + Fraction(1, 1000)
    c = dict(A=RawTla("<<" + ", ".join("<<" + ", ".join(tla_signed(v) for v in row) + ">>" for row in tb["A"]) + ">>"),
             B=RawTla("<<" + ", ".join(tla_signed(v) for v in Bbad) + ">>"), C=RawTla("<<" + ", ".join(tla_signed(v) for v in tb["C"]) + ">>"),
             Order=4, Bhat=RawTla("<<" + ", ".join(tla_signed(v) for v in Bbad) + ">>"), OrderHat=0, Primes=set(PRIMES))
    t, cf = tlcmod.gen_mc(ctx.work, "Tableau", "MC_Tab_dev", c, invariants=["OrderConditions"])
    ctx.expect_violation(t, cf, inv="OrderConditions", label="deviation: rk4 weight + 1/1000", workers=4, timeout=300)


# ------------------------------------------------------------------ fixed-step exact replay
def fixed_cases(thorough):
    R = Fraction
    # at most two intervals with small denominators: TLC's integers are 32-bit
    grids = [[R(0), R(1, 2), R(1)], [R(0), R(1, 4)], [R(1), R(1, 2), R(0)], [R(1, 2)], [R(-1, 2), R(0), R(1, 4)], [R(0), R(1, 3)], [R(2), R(1)]]
    lams = [R(-1), R(1, 2), R(1), R(0)]
    mus = [R(0), R(1), R(-1, 2)]
    y0s = [R(1), R(-1, 2)]
    out = []
    for g in grids:
        for lam in lams:
            for mu in mus:
                for y0 in (y0s if thorough else y0s[:1]):
                    out.append(dict(lam=lam, mu=mu, y0=y0, ts=g))
    return out


def fixed_replay(ctx, tabs, thorough):
    n = 0
    cases = fixed_cases(thorough)
    for name in ("rk4", "rk38", "euler"):
        tb = tabs[name]
        caseset = RawTla("{" + ", ".join("[lam |-> %s, mu |-> %s, y0 |-> %s, ts |-> <<%s>>]" % (tla_rat(c["lam"]), tla_rat(c["mu"]), tla_rat(c["y0"]),
                                                                                               ", ".join(tla_rat(t) for t in c["ts"])) for c in cases) + "}")
        c = dict(A=RawTla("<<" + ", ".join("<<" + ", ".join(tla_rat(v) for v in row) + ">>" for row in tb["A"]) + ">>"),
                 B=RawTla("<<" + ", ".join(tla_rat(v) for v in tb["B"]) + ">>"), C=RawTla("<<" + ", ".join(tla_rat(v) for v in tb["C"]) + ">>"), Cases=caseset)
        t, cf = tlcmod.gen_mc(ctx.work, "FixedRK", "MC_FRK_" + name, c, invariants=["Shape", "Trivial"])
        dot = os.path.join(ctx.work, "frk.dot")
        ctx.model_check(t, cf, workers=8, dump_dot=dot, label="exact trajectories " + name, timeout=900)
        nodes, inits, edges = tlcmod.parse_dot(dot)
        os.remove(dot)
        for st in nodes.values():
            cs, pred = st["case"], st["pred"]
            lam, mu = Fraction(*cs["lam"]), Fraction(*cs["mu"])
            ts = torch.tensor([float(Fraction(*x)) for x in cs["ts"]], dtype=DT)
            y0 = torch.tensor([float(Fraction(*cs["y0"]))], dtype=DT)
            calls = []

            def f(t_, y_):
                calls.append((float(t_), float(y_.reshape(-1)[0])))
                return float(lam) * y_ + float(mu) * t_
            n += 1
            ctx.case(key=("fixed", name, str(lam), str(mu), json.dumps(cs["ts"]), json.dumps(cs["y0"])),
                     sample={"method": name, "lam": str(lam), "mu": str(mu), "ts": [str(Fraction(*x)) for x in cs["ts"]],
                             "spec_ys": [str(Fraction(*x)) for x in pred["ys"]]} if n % 40 == 1 else None)
            try:
                yt = xitorch.integrate.solve_ivp(f, ts, y0, method=name)
            except Exception as e:
                ctx.violation("ivp/fixed/%s/%s" % (name, "single-time" if len(ts) == 1 else "raise"),
                              "solve_ivp(method=%s) on ts=%s raised %s: %s" % (name, ts.tolist(), type(e).__name__, str(e)[:100]), {"method": name, "ts": ts.tolist()})
                continue
            exp = [float(Fraction(*x)) for x in pred["ys"]]
            got = yt.reshape(-1).tolist()
            why = None
            if len(got) != len(exp):
                why = "returned %d values for %d times" % (len(got), len(exp))
            elif got[0] != exp[0]:
                why = "y(ts[0]) = %r is not y0 = %r exactly" % (got[0], exp[0])
            else:
                for i, (a, b) in enumerate(zip(got, exp)):
                    if abs(a - b) > 64 * 2.2e-16 * max(1.0, abs(b)) * len(exp):
                        why = "value at ts[%d]: %r, the scheme gives exactly %s = %r" % (i, a, Fraction(*pred["ys"][i]), b)
                        break
            if why is None:
                pe = [(float(Fraction(*e[0])), float(Fraction(*e[1]))) for e in pred["evals"]]
                if len(calls) != len(pe):
                    why = "right-hand side evaluated %d times, the scheme takes %d (one step of %d stages per interval)" % (len(calls), len(pe), len(tb["B"]))
                else:
                    for k, ((ta, ya), (tb_, yb)) in enumerate(zip(calls, pe)):
                        if abs(ta - tb_) > 1e-14 * max(1.0, abs(tb_)) or abs(ya - yb) > 1e-13 * max(1.0, abs(yb)):
                            why = "evaluation %d at (t, y) = (%r, %r), the scheme evaluates at (%r, %r)" % (k, ta, ya, tb_, yb)
                            break
            if why:
                ctx.violation("ivp/fixed/%s/value" % name, "solve_ivp(method=%s), y' = %s y + %s t, y0 = %s, ts = %s: %s"
                              % (name, lam, mu, Fraction(*cs["y0"]), [str(Fraction(*x)) for x in cs["ts"]], why), {"method": name})
    return n


# ------------------------------------------------------------------ adaptive: traces + numeric verdicts
FAMILIES = {
    "decay": dict(f=lambda t, y, a: -a * y, sol=lambda t, y0, a, t0: y0 * torch.exp(-a * (t - t0)), L=1.5, a=1.5, y0=[1.0, -0.5]),
    # explicit time dependence without any symmetry in t (an even or odd coefficient hides a wrong sign of t on decreasing grids)
    "growcos": dict(f=lambda t, y, a: a * torch.cos(t + 0.4) * y, sol=lambda t, y0, a, t0: y0 * torch.exp(a * (torch.sin(t + 0.4) - math.sin(t0 + 0.4))), L=0.8, a=0.8, y0=[0.7]),
    "logistic": dict(f=lambda t, y, a: a * y * (1 - y), sol=lambda t, y0, a, t0: 1 / (1 + (1 / y0 - 1) * torch.exp(-a * (t - t0))), L=2.0, a=2.0, y0=[0.2, 0.6]),
    "oscillator": dict(f=lambda t, y, a: torch.stack([y[1], -a * a * y[0]]),
                       sol=lambda t, y0, a, t0: torch.stack([y0[0] * math.cos(a * (t - t0)) + y0[1] / a * math.sin(a * (t - t0)),
                                                             -a * y0[0] * math.sin(a * (t - t0)) + y0[1] * math.cos(a * (t - t0))]), L=2.0, a=2.0, y0=[1.0, 0.3]),
}
GRIDS = {"uniform": [0.0, 0.5, 1.0, 1.5], "ragged": [0.0, 0.01, 0.7, 0.75, 1.9], "decreasing": [1.0, 0.6, 0.55, -0.2], "two": [0.3, 0.9], "long": [0.0, 4.0],
         # monotone but not strictly: a requested time may be repeated (also as the first interval); times far from the origin with a
         # spacing that is tiny relative to their magnitude
         "verylong": [0.0, 3.0, 8.0],
         "repeated": [0.0, 0.5, 0.5, 1.2], "repeated-first": [0.3, 0.3, 0.9], "offset": [1000.0, 1000.004, 1000.3, 1000.31], "offset-decreasing": [-500.0, -500.2, -500.201]}


def rk_step_ref(func, t0, y0, f0, h, A, B, C, E=None):
    """one explicit RK step with the tableau (A, B, C), written independently of the library; with E also the embedded error estimate"""
    ks = [f0]
    for s_ in range(1, len(C)):
        yi = y0 + h * sum(A[s_][j] * ks[j] for j in range(s_))
        ks.append(func(t0 + C[s_] * h, yi))
    ynew = y0 + h * sum(B[j] * ks[j] for j in range(len(B)))
    if E is None:
        return ynew
    ks.append(func(t0 + h, ynew))
    return ynew, h * sum(E[j] * ks[j] for j in range(len(E)))


class TrySink(object):
    def __init__(self, ts_internal, ref_func=None, req_tol=None):
        self.req_tol = req_tol        # (atol, rtol) the caller asked for (None: solver defaults 1e-8, 1e-5)
        self.ref_func = ref_func      # the user's right-hand side in the solver's internal time (written by the harness, not taken from the solver)
        self.ev = []
        self.tsi = ts_internal
        self.naccept = 0

    def __call__(self, event, f):
        if event != "ark.try":
            return
        t1 = float(f["t1"])
        # index of the requested time this trial heads for; a repeated time has several indices: the first one not yet reached
        dmin = min(abs(x - t1) for x in self.tsi)
        cands = [i + 1 for i, x in enumerate(self.tsi) if abs(x - t1) == dmin]
        nxt = getattr(self, "_landed", 0) + 2
        tgt = nxt if nxt in cands else cands[0]
        t0, h_in, hstep, tnew, h_out = float(f["t0"]), float(f["h_in"]), float(f["hstep"]), float(f["tnew"]), float(f["h_out"])
        acc, over = bool(f["accepted"]), bool(f["t1_achieved"])
        sol = f["solver"]
        if acc and over:
            grow = "same" if h_out == h_in else ("up" if h_out > h_in else "down")
            fac_ok = True
        elif acc:
            grow = "same" if h_out == h_in else ("up" if h_out > h_in else "down")
            fac_ok = h_out <= h_in * sol.max_factor * (1 + 1e-12) and h_out > 0
        else:
            grow = "down" if h_out < hstep else ("same" if h_out == hstep else "up")
            fac_ok = h_out >= hstep * sol.min_factor * (1 - 1e-12)
        # every trial is one step of the declared scheme from (t0, y0) with first stage f(t0, y0) (FSAL re-use must be the true derivative)
        func = self.ref_func if self.ref_func is not None else sol.func
        with torch.no_grad():
            f_true = func(f["t0"], f["y0"])
            y_ref, err_ref = rk_step_ref(func, f["t0"], f["y0"], f_true, f["hstep"], sol.A.tolist(), sol.B.tolist(), sol.C.tolist(), sol.E.tolist())
            sc = 1.0 + float(f["y0"].abs().max())
            # the acceptance decision against the REQUESTED tolerances, from the independently recomputed error estimate
            atol_r, rtol_r = self.req_tol if self.req_tol is not None else (1e-8, 1e-5)
            scale_r = atol_r + max(float(f["y0"].norm()), float(y_ref.norm())) * rtol_r
            ratio = float(err_ref.norm()) / scale_r if scale_r > 0 else float("inf")
            accept_ok = True if abs(ratio - 1.0) < 1e-6 else (acc == (ratio < 1.0))
            stage_ok = bool(torch.allclose(f["f0"], f_true, atol=1e-12 * sc, rtol=1e-12)) and bool(torch.allclose(f["ynew"], y_ref, atol=1e-12 * sc, rtol=1e-12)) \
                and bool(torch.allclose(f["fnew"], func(f["tnew"], f["ynew"]), atol=1e-12 * sc, rtol=1e-12))
        if acc:
            self.naccept += 1
            if over:
                self._landed = getattr(self, "_landed", 0) + 1
        slack = 4 * 2.3e-16 * max(1.0, abs(t0), abs(t1))       # t0 + (t1 - t0) may differ from t1 by a rounding error
        self.ev.append({"a": "try", "tgt": tgt, "accept": acc, "over": over, "grow": grow, "prev_rejected": bool(f["prev_rejected"]),
                        "stage_ok": stage_ok, "accept_ok": bool(accept_ok), "landed_exact": (abs(tnew - t1) <= slack) if over else True, "factor_ok": bool(fac_ok), "not_past": tnew <= t1 + slack})


def adaptive_case(tid, method, fam, gridname, atol, rtol):
    F = FAMILIES[fam]
    ts = torch.tensor(GRIDS[gridname], dtype=DT)
    y0 = torch.tensor(F["y0"], dtype=DT)
    a = torch.tensor(F["a"], dtype=DT)
    tsi = [float(x) for x in (ts if ts[-1] > ts[0] else -ts)]
    sgn = 1.0 if ts[-1] > ts[0] else -1.0
    sink = TrySink(tsi, lambda t, y: sgn * F["f"](sgn * t, y.reshape(y0.shape), a).reshape(-1), req_tol=(atol, rtol))
    vh.set_sink(sink)
    exc = None
    try:
        from vlib.ctx import TimeLimit
        with TimeLimit(10):
            yt = xitorch.integrate.solve_ivp(F["f"], ts, y0, params=(a,), method=method, atol=atol, rtol=rtol)
    except (Exception, TimeoutError) as e:
        exc = e
    finally:
        vh.set_sink(None)
    cfg = {"method": method, "family": fam, "grid": gridname, "atol": atol, "rtol": rtol, "nt": len(ts)}
    ev = sink.ev
    if exc is not None:
        ev.append({"a": "raise", "exc": "%s: %s" % (type(exc).__name__, str(exc)[:100])})
        return {"tid": tid, "cfg": cfg, "ev": ev}
    verd = []
    verd.append(["first_value_is_y0", bool(torch.equal(yt[0], y0))])
    ref = torch.stack([F["sol"](t, y0, F["a"], float(ts[0])) if fam != "oscillator" else F["sol"](float(t), y0, F["a"], float(ts[0])) for t in ts])
    T = float((ts[-1] - ts[0]).abs())
    ymax = float(ref.abs().max())
    bound = 3.0 * max(sink.naccept, 1) * (atol + rtol * ymax) * math.exp(F["L"] * T)
    err = float((yt - ref).abs().max())
    verd.append(["global_error_within_bound", err <= bound])
    if fam == "decay":
        # pure decay: a local error committed at time s shrinks like the solution itself, so the error at every requested time is
        # bounded RELATIVE to the solution there (this is what a relative tolerance promises; an absolute bound cannot see it)
        relb = 3.0 * max(sink.naccept, 1) * (atol + rtol * ref.abs())
        verd.append(["error_relative_to_the_decayed_solution", bool(torch.all((yt - ref).abs() <= relb))])
    # values at a time do not depend on times requested after it
    ok = True
    for i in range(2, len(ts)):
        yp = xitorch.integrate.solve_ivp(F["f"], ts[:i], y0, params=(a,), method=method, atol=atol, rtol=rtol)
        ok = ok and bool(torch.equal(yp, yt[:i]))
    verd.append(["prefix_independent", ok])
    # list-of-tensors state = concatenated state
    if y0.numel() == 2:
        ftup = lambda t, ys, a_: tuple(x.reshape(1) for x in F["f"](t, torch.cat([ys[0], ys[1]]), a_))
        ytup = xitorch.integrate.solve_ivp(ftup, ts, (y0[:1], y0[1:]), params=(a,), method=method, atol=atol, rtol=rtol)
        verd.append(["tuple_state_equals_concatenated", bool(torch.equal(torch.cat([ytup[0], ytup[1]], dim=-1), yt))])
    cfg["err"] = err
    cfg["bound"] = bound
    cfg["accepted_steps"] = sink.naccept
    ev.append({"a": "ret", "verdicts": verd})
    return {"tid": tid, "cfg": cfg, "ev": ev}


def precision_histories(ctx):
    """QuadHistory.tla read generically (configuration key x precision): every history of three adaptive solves over
    {float32, float64} x {rk45, rk23} in one process; a float64 solve is as accurate as its tolerances ask whatever ran before
    (the tableau constants live on the solver classes: nothing a call does may change them)"""
    from vlib.ctx import TimeLimit
    base = dict(MaxLen=3, KeyedByPrecision=True)
    t, cf = tlcmod.gen_mc(ctx.work, "QuadHistory", "MC_QH_ivp", base, invariants=["RuleInCallPrecision"])
    dot = os.path.join(ctx.work, "qh_ivp.dot")
    ctx.model_check(t, cf, workers=4, dump_dot=dot, label="call histories (precision x method)", timeout=300)
    hnodes, _, _ = tlcmod.parse_dot(dot)
    os.remove(dot)
    full = sorted([h_["hist"] for h_ in hnodes.values() if len(h_["hist"]) == 3], key=lambda h_: [(c_["call"]["dtype"], c_["call"]["n"]) for c_ in h_])
    meth = {"na": "rk45", "nb": "rk23"}
    TD = {"f32": torch.float32, "f64": torch.float64}
    opts = {("rk45", "f64"): (1e-11, 1e-12, 2e-9), ("rk23", "f64"): (1e-10, 1e-11, 8e-9), ("rk45", "f32"): (1e-4, 1e-5, 2e-3), ("rk23", "f32"): (1e-4, 1e-5, 2e-3)}
    n = 0
    for hist in full:
        n += 1
        ctx.case(key=("ivp-history", tuple((c_["call"]["dtype"], meth[c_["call"]["n"]]) for c_ in hist)))
        for pos, c_ in enumerate(hist):
            dn, m = c_["call"]["dtype"], meth[c_["call"]["n"]]
            dt_ = TD[dn]
            rtol, atol, tol = opts[(m, dn)]
            why = None
            try:
                ts = torch.tensor([0.0, 0.4, 1.1], dtype=dt_)
                y0 = torch.tensor([1.0, -0.5], dtype=dt_)
                a = torch.tensor(1.3, dtype=dt_)
                yt = xitorch.integrate.solve_ivp(lambda t_, y_, a_: -a_ * y_ + torch.cos(t_ + 0.4), ts, y0, params=(a,), method=m, rtol=rtol, atol=atol)
                # closed form of y' = -a y + cos(t + 0.4)
                tt, aa = ts.double(), 1.3
                part = lambda s_: (aa * torch.cos(s_ + 0.4) + torch.sin(s_ + 0.4)) / (aa * aa + 1.0)
                ref = part(tt)[:, None] + (y0.double()[None, :] - part(tt[:1])[:, None]) * torch.exp(-aa * tt)[:, None]
                err = float((yt.double() - ref).abs().max())
                if yt.dtype != dt_:
                    why = "result dtype %s for a %s solve" % (yt.dtype, dt_)
                elif not err <= tol:
                    why = "error %.2e against the closed form, the requested tolerances (rtol %g) allow %.0e" % (err, rtol, tol)
            except Exception as e:
                why = "raised %s: %s" % (type(e).__name__, str(e)[:100])
            if why:
                desc = [(p_["call"]["dtype"], meth[p_["call"]["n"]]) for p_ in hist]
                ctx.violation("ivp/history/%s-after-%s" % (dn, "+".join(sorted(set(p_["call"]["dtype"] for p_ in hist[:pos]))) or "nothing"),
                              "solve_ivp(%s, %s) as call %d of the history %s: %s" % (m, dn, pos + 1, desc, why), {"history": desc})
                break
    # precision of the state x position of the (double precision) time grid: an autonomous system is translation invariant, so the
    # solution on T0 + tau is the closed-form rotation in tau whatever T0 and whatever the precision of the state; allowed error = the
    # bound used above for the precision of the state (2e-3 for float32 at rtol 1e-5, 1e-4 for float64 at rtol 1e-9: the time increments
    # themselves are rounded relative to T0)
    for sdn, sd in TD.items():
        for T0 in (0.0, 1e3, -1e3, 1e6):
            for m in ("rk45", "rk23", "rk4"):
                n += 1
                ctx.case(key=("ivp-mixed-precision", sdn, T0, m))
                w = 10.0 if m != "rk4" else 1.0
                Wm = torch.tensor([[0.0, w], [-w, 0.0]], dtype=sd)
                tau = torch.linspace(0.0, 2.0, 5 if m != "rk4" else 41, dtype=torch.float64)
                y0 = torch.tensor([1.0, 0.0], dtype=sd)
                kw = {} if m == "rk4" else (dict(rtol=1e-5, atol=1e-6) if sdn == "f32" else dict(rtol=1e-9, atol=1e-10))
                why = None
                try:
                    with TimeLimit(60):
                        yt = xitorch.integrate.solve_ivp(lambda t_, y_: y_ @ Wm.T, T0 + tau, y0, method=m, **kw)
                    ref = torch.stack([torch.cos(w * tau), -torch.sin(w * tau)], -1)
                    err = float((yt.double() - ref).abs().max())
                    allowed = 2e-3 if sdn == "f32" else 1e-4
                    if yt.dtype != sd:
                        why = "result dtype %s for a %s state" % (yt.dtype, sd)
                    elif not torch.equal(yt[0], y0):
                        why = "the first entry is not the initial state"
                    elif not err <= allowed:
                        why = "error %.2e against the closed-form rotation (allowed %.0e)" % (err, allowed)
                except Exception as e:
                    why = "raised %s: %s" % (type(e).__name__, str(e)[:100])
                if why:
                    ctx.violation("ivp/mixed-precision/%s" % m, "solve_ivp(%s) of a %s harmonic oscillator on the double-precision grid %g + linspace(0, 2): %s" % (m, sdn, T0, why),
                                  {"method": m, "state": sdn, "T0": T0})
    # right-hand sides with a limited domain (sqrt, log): a trial step that leaves the domain yields a non-finite error estimate and must
    # be rejected like any other failed trial; y' = sqrt(1 - y^2), y(0) = 0 has the solution sin t on [0, pi/2)
    for m in ("rk45", "rk23"):
        for gname, grid in (("one long interval", [0.0, 1.5]), ("fine start", [0.0, 0.1, 0.2, 1.5]), ("two intervals", [0.0, 1.2, 1.5]), ("long then short", [0.0, 1.45, 1.5])):
            n += 1
            ctx.case(key=("ivp-limited-domain", m, gname))
            why = None
            try:
                tsd = torch.tensor(grid, dtype=torch.float64)
                with TimeLimit(60):
                    yt = xitorch.integrate.solve_ivp(lambda t_, y_: torch.sqrt(1.0 - y_ * y_), tsd, torch.zeros(1, dtype=torch.float64), method=m, rtol=1e-7, atol=1e-9)
                err = float((yt[:, 0] - torch.sin(tsd)).abs().max())
                if not bool(torch.isfinite(yt).all()):
                    why = "non-finite values returned without any error"
                elif not err <= 1e-4:
                    why = "error %.2e against sin t (rtol 1e-7, atol 1e-9; allowed 1e-4)" % err
            except Exception as e:
                why = "raised %s: %s" % (type(e).__name__, str(e)[:100])
            if why:
                ctx.violation("ivp/limited-domain/%s" % m, "solve_ivp(%s) of y' = sqrt(1 - y^2) on the grid %s (%s): %s" % (m, grid, gname, why), {"method": m, "grid": grid})
    return n


def fixed_numeric(ctx):
    """fixed-step methods: convergence order on a smooth problem, decreasing grids, tuple states, y(ts[0]) = y0"""
    n = 0
    F = FAMILIES["growcos"]
    a = torch.tensor(F["a"], dtype=DT)
    y0 = torch.tensor(F["y0"], dtype=DT)
    for method, order in (("euler", 1), ("rk4", 4), ("rk38", 4)):
        errs = []
        for m in (8, 16, 32):
            ts = torch.linspace(0.0, 1.0, m + 1, dtype=DT)
            yt = xitorch.integrate.solve_ivp(F["f"], ts, y0, params=(a,), method=method)
            errs.append(float((yt[-1] - F["sol"](ts[-1], y0, F["a"], 0.0)).abs().max()))
        n += 1
        ctx.case(key=("order", method))
        rate = math.log2(errs[1] / errs[2])
        if not (order - 0.4 <= rate <= order + 0.9):
            ctx.violation("ivp/fixed/%s/order" % method, "%s: observed convergence rate %.2f, declared order %d (errors %s)" % (method, rate, order, errs), {"method": method})
        for gname in ("decreasing", "ragged"):
            n += 1
            ctx.case(key=("fixed-dir", method, gname))
            ts = torch.tensor(GRIDS[gname], dtype=DT)
            tsf = torch.cat([torch.linspace(float(ts[i]), float(ts[i + 1]), 41, dtype=DT)[:-1] for i in range(len(ts) - 1)] + [ts[-1:]])
            yt = xitorch.integrate.solve_ivp(F["f"], tsf, y0, params=(a,), method=method)
            ref = F["sol"](tsf[-1], y0, F["a"], float(tsf[0]))
            tol = {1: 5e-2, 4: 1e-7}[order]
            if float((yt[-1] - ref).abs().max()) > tol or not torch.equal(yt[0], y0):
                ctx.violation("ivp/fixed/%s/%s" % (method, gname), "%s on the %s grid: final error %.2e (tolerance %.0e) or first value != y0"
                              % (method, gname, float((yt[-1] - ref).abs().max()), tol), {"method": method})
        # grids far from the origin and grids that are fine relative to where they lie (|h| << |t|): still one step of the scheme
        # per interval (reference: the textbook tableau stepped by the harness)
        TAB = {"euler": ([[0.0]], [1.0], [0.0]),
               "rk4": ([[0.0], [0.5], [0.0, 0.5], [0.0, 0.0, 1.0]], [1 / 6, 1 / 3, 1 / 3, 1 / 6], [0.0, 0.5, 0.5, 1.0]),
               "rk38": ([[0.0], [1 / 3], [-1 / 3, 1.0], [1.0, -1.0, 1.0]], [1 / 8, 3 / 8, 3 / 8, 1 / 8], [0.0, 1 / 3, 2 / 3, 1.0])}[method]
        for gname, tsg in (("offset", 1000.0 + torch.linspace(0.0, 0.1, 21, dtype=DT)), ("offset-decreasing", 1000.0 - torch.linspace(0.0, 0.1, 21, dtype=DT)),
                           ("fine", 1.0 + torch.linspace(0.0, 2e-4, 21, dtype=DT)), ("fine-negative", -3.0 + torch.linspace(0.0, 4e-5, 9, dtype=DT))):
            n += 1
            ctx.case(key=("fixed-relative-grid", method, gname))
            rhs = lambda t_, y_, a_: -a_ * y_ + torch.cos(5.0 * t_) * 40.0
            yt = xitorch.integrate.solve_ivp(rhs, tsg, y0, params=(a,), method=method)
            yr = [y0]
            for i_ in range(len(tsg) - 1):
                h_ = tsg[i_ + 1] - tsg[i_]
                yr.append(rk_step_ref(lambda t_, y_: rhs(t_, y_, a), tsg[i_], yr[-1], rhs(tsg[i_], yr[-1], a), h_, TAB[0], TAB[1], TAB[2]))
            yr = torch.stack(yr)
            if tuple(yt.shape) != tuple(yr.shape) or not torch.allclose(yt, yr, atol=1e-13, rtol=1e-12):
                ctx.violation("ivp/fixed/%s/relative-grid" % method, "%s on the %s grid [%r .. %r] (%d points): differs from one step of the scheme per interval by %.2e"
                              % (method, gname, float(tsg[0]), float(tsg[-1]), len(tsg), float((yt - yr).abs().max()) if yt.shape == yr.shape else float("nan")), {"method": method, "grid": gname})
        O = FAMILIES["oscillator"]
        ts = torch.linspace(0.0, 1.0, 9, dtype=DT)
        yo = torch.tensor(O["y0"], dtype=DT)
        ao = torch.tensor(O["a"], dtype=DT)
        ycat = xitorch.integrate.solve_ivp(O["f"], ts, yo, params=(ao,), method=method)
        ftup = lambda t, ys, a_: tuple(x.reshape(1) for x in O["f"](t, torch.cat([ys[0], ys[1]]), a_))
        ytup = xitorch.integrate.solve_ivp(ftup, ts, (yo[:1], yo[1:]), params=(ao,), method=method)
        n += 1
        ctx.case(key=("fixed-tuple", method))
        if not torch.equal(torch.cat([ytup[0], ytup[1]], dim=-1), ycat):
            ctx.violation("ivp/fixed/%s/tuple" % method, "%s: list-of-tensors state differs from the concatenated state" % method, {"method": method})
    return n


def run(ctx):
    thorough = ctx.tier == "thorough"
    tabs, bad = extract_tableaux()
    for b in bad:
        ctx.violation("ivp/tableau/non-rational", b, {"entry": b})
    check_tableaux(ctx, tabs)
    nfix = fixed_replay(ctx, tabs, thorough)
    # controller model
    base = dict(NTimes=3, MaxTries=6 if not thorough else 8, LandExactly=True, NoGrowAfterReject=True, HoldOnLanding=True)
    t, cf = tlcmod.gen_mc(ctx.work, "AdaptiveRK", "MC_ARK", base, invariants=["NeverPast", "InOrder", "RejectShrinks", "Done"])
    r = ctx.model_check(t, cf, workers=8, coverage=True, label="step controller", timeout=600)
    ctx.check_coverage(r, ["Try"])
    ctx.check_proof("AdaptiveRK_proofs")       # the same invariants for every number of requested times and trials
    c = dict(base)
    c["LandExactly"] = False
    t, cf = tlcmod.gen_mc(ctx.work, "AdaptiveRK", "MC_ARK_dev", c, invariants=["NeverPast"])
    ctx.expect_violation(t, cf, inv="NeverPast", label="deviation LandExactly", workers=4, timeout=300)
    traces = []
    tid = 0
    tols = [(1e-8, 1e-5), (1e-10, 1e-8)] if not thorough else [(1e-8, 1e-5), (1e-10, 1e-8), (1e-6, 1e-3), (1e-12, 1e-10)]
    for method in ("rk23", "rk45"):
        for fam in FAMILIES:
            for gname in GRIDS:
                # (a tolerance of exactly zero is a legal request: purely absolute / purely relative error control)
                for (atol, rtol) in tols + ([(1e-14, 1e-6)] if fam == "decay" and gname in ("long", "verylong", "uniform") else []) \
                        + ([(1e-9, 0.0), (0.0, 1e-7)] if gname == "uniform" else []):
                    if method == "rk23" and rtol < 1e-9:
                        continue
                    if gname.startswith("repeated") and (atol, rtol) != tols[0]:
                        continue
                    if gname == "verylong" and fam != "decay":
                        continue
                    tid += 1
                    traces.append(adaptive_case(tid, method, fam, gname, atol, rtol))
                    ctx.case(key=("adaptive", method, fam, gname, atol, rtol))
    # single requested time
    for method in ("rk23", "rk45"):
        ctx.case(key=("adaptive-single", method))
        try:
            y = xitorch.integrate.solve_ivp(FAMILIES["decay"]["f"], torch.tensor([0.5], dtype=DT), torch.tensor([1.0, 2.0], dtype=DT),
                                            params=(torch.tensor(1.5, dtype=DT),), method=method)
            if not torch.equal(y, torch.tensor([[1.0, 2.0]], dtype=DT)):
                ctx.violation("ivp/adaptive/single-time", "%s with a single requested time does not return y0" % method, {"method": method})
        except Exception as e:
            ctx.violation("ivp/adaptive/single-time", "%s with a single requested time raised %s: %s (the fixed-step methods return y0)" % (method, type(e).__name__, str(e)[:80]), {"method": method})
    rej = ctx.validate_traces("Trace_AdaptiveRK.tla", "Trace_AdaptiveRK.cfg", traces, shards=12)

    def m_field(name, val, cond=lambda e: True):
        def m(t):
            for e in t["ev"]:
                if e["a"] == "try" and cond(e) and e.get(name) != val:
                    e[name] = val
                    return t
        return m

    def m_drop_landing(t):
        ls = [j for j, e in enumerate(t["ev"]) if e["a"] == "try" and e["accept"] and e["over"]]
        if ls:
            del t["ev"][ls[0]]                               # one requested time is never reached
            return t
    ctx.binding_selftest("Trace_AdaptiveRK.tla", "Trace_AdaptiveRK.cfg", traces, rej,
                         [("stage not a step of the scheme", m_field("stage_ok", False)), ("acceptance not by the requested tolerances", m_field("accept_ok", False)), ("past the target", m_field("not_past", False)),
                          ("landing inexact", m_field("landed_exact", False, lambda e: e["accept"] and e["over"])),
                          ("rejected step grows", m_field("grow", "up", lambda e: not e["accept"])), ("landing missing", m_drop_landing)])
    bytid = {t["tid"]: t for t in traces}
    for tid_, matched, total in rej:
        t_ = bytid[tid_]
        ev = t_["ev"][matched] if matched < len(t_["ev"]) else None
        failed = [n for n, ok in ev["verdicts"] if not ok] if ev and ev["a"] == "ret" else []
        key = "ivp/adaptive/%s/%s" % (t_["cfg"]["method"], "+".join(failed) if failed else (ev["a"] if ev else "incomplete"))
        ctx.violation(key, "solve_ivp %s not explained by AdaptiveRK at event %d/%d: %s" % (json.dumps(t_["cfg"]), matched + 1, total, json.dumps(ev)[:400]), {"cfg": t_["cfg"]})
    nnum = fixed_numeric(ctx)
    nhist = precision_histories(ctx)
    # states with a leading batch dimension: the solver acts on the state as a whole, rows of a row-wise right-hand side evolve independently
    Wb = torch.tensor([[0.2, -0.3, 0.1], [0.4, 0.1, -0.2], [-0.1, 0.3, 0.2]], dtype=DT)
    fb = lambda t_, y_, a_: -a_ * y_ + 0.3 * torch.tanh(y_ @ Wb.T) * torch.cos(t_ + 0.4)
    for method in ("rk4", "rk38", "euler", "rk23", "rk45"):
        for gname in ("uniform", "decreasing"):
            nhist += 1
            ctx.case(key=("batched-state", method, gname))
            kw = {} if method in ("rk4", "rk38", "euler") else {"rtol": 1e-9, "atol": 1e-11}
            tsb = torch.tensor(GRIDS[gname], dtype=DT)
            y0b = torch.tensor([[0.5, -0.2, 0.1], [1.0, 0.3, -0.7]], dtype=DT)
            ab = torch.tensor(0.8, dtype=DT)
            try:
                ytb = xitorch.integrate.solve_ivp(fb, tsb, y0b, params=(ab,), method=method, **kw)
                rows = torch.stack([xitorch.integrate.solve_ivp(fb, tsb, y0b[i], params=(ab,), method=method, **kw) for i in range(2)], dim=1)
                if tuple(ytb.shape) != (len(tsb), 2, 3) or not torch.allclose(ytb, rows, atol=1e-8 if kw else 1e-13, rtol=0):
                    ctx.violation("ivp/batched-state/%s" % method, "solve_ivp(%s) on a (2, 3) state, %s grid: shape %s / rows differ from the row-wise solves by %.2e"
                                  % (method, gname, tuple(ytb.shape), float((ytb - rows).abs().max()) if ytb.shape == rows.shape else float("nan")), {"method": method})
            except Exception as e:
                ctx.violation("ivp/batched-state/%s" % method, "solve_ivp(%s) on a (2, 3) state raised %s: %s" % (method, type(e).__name__, str(e)[:120]), {"method": method})
    from vlib import resulthistory
    nhist += resulthistory.replay(ctx, ["solve_ivp:rk4", "solve_ivp:rk45", "solve_ivp:rk23", "solve_ivp:alias", "solve_ivp:alias45"], "ivp")
    from vlib import layoutinv
    nhist += layoutinv.replay(ctx, ["solve_ivp:rk4", "solve_ivp:rk45", "solve_ivp:rk23"], "ivp")
    from vlib import bufferreuse
    nhist += bufferreuse.replay(ctx, ["solve_ivp:rk4", "solve_ivp:rk45"], "ivp")
    ctx.samples.append({"cfg": traces[0]["cfg"], "events": traces[0]["ev"][:6]})
    ctx.replayed = nfix + nhist
    ctx.notes.update(fixed_exact_cases=nfix, adaptive_runs=len(traces), try_events=sum(len(t_["ev"]) for t_ in traces), fixed_numeric_cases=nnum)
    ctx.assumptions += [
        "tableau entries are read from the imported modules and converted with Fraction.limit_denominator(1e7); an entry that does not round-trip is reported",
        "order conditions are decided modulo %d primes just below 46341 (product > 1e69, larger than any numerator over the common denominator lcm^5 ~ 1e57)" % len(PRIMES),
        "FSAL: the adaptive schemes are checked as (s+1)-stage methods with last row b and embedded weights [b,0] - E",
        "global error bound: 3 * accepted_steps * (atol + rtol*max|y|) * exp(L*T) with the family's Lipschitz constant L",
        "fixed-step values are compared with TLC's exact rationals to 64 ulps x number of steps",
        "TLC, SANY, hook ark.try"]
    return ctx.finish(
        rule="case = tableau (5) | (fixed method, lam, mu, y0, grid) exact replay | (adaptive method, family, grid, tolerances) trace | numeric side checks")


def replay(data):
    print(data["what"])
    return 1
