"""C20 - Packer round-trips any nested structure.

Spec: spec/Packer.tla (exhaustive TLC), replay of TLC's state graph and simulated behaviours on the real Packer
(spec -> code), recorded executions on random structures validated by spec/Trace_Packer.tla (code -> spec).
"""
import json
import os
import random
import copy

import torch

from vlib import tlc as tlcmod
from vlib.ctx import Machinery, SPEC


# ------------------------------------------------------------------ concretisation of abstract structures
class Obj(object):
    pass


class FrozenObj(Obj):
    """an attribute-bearing object that refuses attribute assignment once built (like a frozen dataclass): its state lives in
    __dict__ all the same, which is what the Packer documents to read and rebuild"""

    def __setattr__(self, name, value):
        raise AttributeError("cannot assign to field %r of a frozen object" % name)


class ConvertingObj(Obj):
    """an attribute-bearing object whose attribute assignment normalises what it is given (here: tensors are detached copies);
    rebuilding it slot by slot through __dict__ keeps the supplied tensor objects"""

    def __setattr__(self, name, value):
        object.__setattr__(self, name, value.detach().clone() if isinstance(value, torch.Tensor) else value)


_NLEAVES = [lambda: 3, lambda: "s", lambda: {1, 2}, lambda: None, lambda: bytearray(b"ab"), lambda: 2.5]


def alias_shape(a):
    return [(1,), (2,), (3, 1), (2, 2), (1, 1, 2), (4,), (5,)][(a - 1) % 7]


class Builder(object):
    """builds a real python structure from an abstract tree; keeps the tensors per alias id"""

    def __init__(self, rng, share=False):
        self.tensors = {}
        self.nl = 0
        self.rng = rng
        # share: structurally identical containers that hold a tensor are realised as ONE python object referred to from several places
        self.share = share
        self.memo = {}
        self.nshared = 0
        # how distinct tensor ids are realised: separate storages | distinct tensor OBJECTS that are views of one storage
        # starting at the same address (w, w.detach(), w.view(...): identity, not storage, is what makes a tensor unique)
        self.mode = rng.choice(["separate", "separate", "shared", "shared+empty"])
        self.base = torch.randn(8, dtype=torch.float64)

    def tensor(self, a):
        if a not in self.tensors:
            shape = alias_shape(a)
            if self.mode == "shared+empty" and a % 3 == 0:
                shape = (0,) if a % 2 else (0, 2)
            n_ = 1
            for s_ in shape:
                n_ *= s_
            if self.mode == "separate":
                self.tensors[a] = torch.randn(shape, dtype=torch.float64)
            elif n_ == 0:
                self.tensors[a] = torch.zeros(shape, dtype=torch.float64)
            else:
                self.tensors[a] = self.base[:n_].view(shape)
        return self.tensors[a]

    def build(self, t):
        k = t["k"]
        if k == "T":
            return self.tensor(t["a"])
        if k == "N":
            self.nl += 1
            return _NLEAVES[self.nl % len(_NLEAVES)]()
        if k == "Tup":
            return (7, torch.tensor([9.0]), "x")
        key = None
        if self.share and '"T"' in json.dumps(t) and '"N"' not in json.dumps(t):
            key = json.dumps(t, sort_keys=True)
            if key in self.memo:
                self.nshared += 1
                return self.memo[key]
        o = self._build_container(t, k)
        if key is not None:
            self.memo[key] = o
        return o

    def _build_container(self, t, k):
        kids = [self.build(c) for c in t["c"]]
        if k == "L":
            return kids
        if k == "D":
            return {"k%d" % i: c for i, c in enumerate(kids)}
        if k == "O":
            # plain object | objects that intercept attribute assignment (their state is filled through __dict__)
            o = self.rng.choice([Obj, Obj, FrozenObj, ConvertingObj])()
            for i, c in enumerate(kids):
                o.__dict__["a%d" % i] = c
            return o
        raise Machinery("bad tree kind %r" % k)


def project(obj, t, leaf):
    """independent traversal of a real structure along the abstract tree t; leaf(tensor) -> projected leaf dict.
    Returns abstract tree or raises AssertionError if the structure's shape differs."""
    k = t["k"]
    if k == "T":
        assert isinstance(obj, torch.Tensor), "tensor slot holds %r" % type(obj)
        return leaf(obj)
    if k == "N":
        assert not isinstance(obj, torch.Tensor)
        return {"k": "N"}
    if k == "Tup":
        assert isinstance(obj, tuple) and len(obj) == 3
        return {"k": "Tup"}
    if k == "L":
        assert type(obj) is list and len(obj) == len(t["c"])
        kids = obj
    elif k == "D":
        assert type(obj) is dict and list(obj.keys()) == ["k%d" % i for i in range(len(t["c"]))]
        kids = list(obj.values())
    else:
        assert isinstance(obj, Obj) and list(vars(obj).keys()) == ["a%d" % i for i in range(len(t["c"]))]
        kids = list(vars(obj).values())
    return {"k": k, "c": [project(o, c, leaf) for o, c in zip(kids, t["c"])]}


def containers(obj, t, acc):
    """ids of every container / mutable non-tensor leaf object (to check that content was copied)"""
    k = t["k"]
    if k in ("T", "Tup"):
        return acc
    if k == "N":
        if isinstance(obj, (set, bytearray)):
            acc.append((id(obj), copy.copy(obj)))
        return acc
    acc.append((id(obj), None))
    kids = obj if k == "L" else (list(obj.values()) if k == "D" else list(vars(obj).values()))
    for o, c in zip(kids, t["c"]):
        containers(o, c, acc)
    return acc


def values_equal(a, b, t):
    k = t["k"]
    if k == "T":
        return True
    if k == "N":
        return type(a) is type(b) and a == b
    if k == "Tup":
        return a[0] == b[0] and a[2] == b[2] and torch.equal(a[1], b[1])
    ka = a if k == "L" else (list(a.values()) if k == "D" else list(vars(a).values()))
    kb = b if k == "L" else (list(b.values()) if k == "D" else list(vars(b).values()))
    return all(values_equal(x, y, c) for x, y, c in zip(ka, kb, t["c"]))


def snapshot(obj, t):
    """identity snapshot of a structure: (container ids, tensor ids in order)"""
    ids = []
    project(obj, t, lambda x: ids.append(id(x)) or {"k": "T"})
    return (tuple(c[0] for c in containers(obj, t, [])), tuple(ids))


def packer_snapshot(pk, t):
    d = vars(pk)
    memo = tuple(sorted((k, tuple(sorted(repr(q) for q in v.keys()))) for k, v in d.items() if isinstance(v, dict)))     # content of dict-valued state (tensor memo)
    return (memo, tuple(sorted((k, id(v) if not isinstance(v, (list, type(None), int)) else repr(
        [tuple(x) if isinstance(x, torch.Size) else (id(x) if isinstance(x, torch.Tensor) else x) for x in v]
        if isinstance(v, list) else v)) for k, v in d.items())), snapshot(pk._obj, t))


class Driver(object):
    """drives one real Packer along abstract actions and projects the outcomes"""

    def __init__(self, tree, rng, share=False):
        from xitorch import Packer
        self.tree = tree
        self.b = Builder(rng, share)
        self.obj = self.b.build(tree)
        self.alias_of = {id(v): a for a, v in self.b.tensors.items()}
        self.orig_snap = snapshot(self.obj, tree)
        self.pk = Packer(self.obj)
        self.flat_shape = {}
        self.results = []        # earlier rebuilt structures with their identity snapshots: later calls must leave them intact

    def listed_ids(self, lst):
        return [self.alias_of.get(id(x), 0) for x in lst]

    def call(self, act, u, sk=None):
        """returns event dict (trace format)"""
        pk_before = packer_snapshot(self.pk, self.tree) if act in ("CList", "CTensor") else None
        ev = {"a": act, "u": u}
        if sk is not None:
            ev["sk"] = sk
        try:
            if act == "GetList":
                lst = self.pk.get_param_tensor_list(unique=u)
                ev["listed"] = self.listed_ids(lst)
            elif act == "GetTensor":
                lst_ids = self.listed_ids(self._listing(u))
                r = self.pk.get_param_tensor(unique=u)
                ev["listed"] = lst_ids
                ev["none"] = r is None
                if r is not None:
                    exp = torch.cat([x.reshape(-1) for x in self._listing(u)])
                    if not torch.equal(r.reshape(-1), exp):
                        ev["listed"] = [-1]
                    self.flat_shape[u] = tuple(r.shape)
            elif act == "CList":
                listing = self._listing(u)
                sup = [torch.full_like(x, float(i + 1)) for i, x in enumerate(listing)]
                if sk == "short":
                    sup = sup[:-1]
                elif sk == "long":
                    sup = sup + [torch.zeros(7)]
                elif sk == "badshape":
                    sup[-1] = torch.zeros(tuple(sup[-1].shape) + (3,))
                sup_in = list(sup)
                res = self.pk.construct_from_tensor_list(sup, unique=u)
                ev.update(self._built(res, lambda x: _index_by_identity(sup_in, x)))
                if len(sup) != len(sup_in) or any(a is not b for a, b in zip(sup, sup_in)):
                    ev["orig_same"] = False        # the caller's list was consumed / modified
            elif act == "CTensor":
                listing = self._listing(u)
                numel = sum(x.numel() for x in listing)
                offs = []
                o = 0
                for x in listing:
                    offs.append(o)
                    o += x.numel()
                n = numel + (3 if sk == "badnumel" else 0)
                a = torch.arange(n, dtype=torch.float64) + 1000.0
                if sk == "good" and len(listing) == 1:
                    a = a.reshape(listing[0].shape)       # single tensor: get_param_tensor returned it unflattened
                res = self.pk.construct_from_tensor(a, unique=u)
                ev.update(self._built(res, (lambda used_: (lambda x: _index_by_value(offs, listing, x, used_)))(set())))
        except (RuntimeError, AssertionError, TypeError, IndexError, ValueError, AttributeError, KeyError) as e:
            ev["kind"] = "raise"
            ev["exc"] = type(e).__name__
        ev.setdefault("orig_same", True)
        ev["orig_same"] = ev["orig_same"] and snapshot(self.obj, self.tree) == self.orig_snap
        ev["packer_same"] = True if pk_before is None else packer_snapshot(self.pk, self.tree) == pk_before
        return ev

    def _listing(self, u):
        """the harness' own listing (independent traversal): tensors in order, first occurrences if unique"""
        lst = []
        project(self.obj, self.tree, lambda x: lst.append(x) or {"k": "T"})
        if u:
            seen = set()
            out = []
            for x in lst:
                if id(x) not in seen:
                    seen.add(id(x))
                    out.append(x)
            return out
        return lst

    def _built(self, res, index_of):
        if res is self.pk._obj:
            return {"kind": "inner"}
        out = self._built0(res, index_of)
        if out.get("copied"):
            mine = {c[0] for c in containers(res, self.tree, [])}
            for old, snap in self.results:
                if snapshot(old, self.tree) != snap or (mine & {c[0] for c in containers(old, self.tree, [])}):
                    out["copied"] = False
                    out["note"] = "an earlier rebuilt structure was overwritten by / shares containers with this one"
        self.results.append((res, snapshot(res, self.tree)))
        return out

    def _built0(self, res, index_of):
        try:
            result = project(res, self.tree, lambda x: {"k": "T", "s": index_of(x)})
        except AssertionError as e:
            return {"kind": "built", "result": {"k": "N"}, "copied": False, "note": str(e)}
        fresh = {c[0] for c in containers(res, self.tree, [])}
        orig = {c[0] for c in containers(self.obj, self.tree, [])} | {c[0] for c in
                                                                       containers(self.pk._obj, self.tree, [])}
        copied = not (fresh & orig) and values_equal(res, self.obj, self.tree)
        out = {"kind": "built", "result": result, "copied": copied}
        if self.b.nshared:
            # a container referred to from several places is ONE object in the rebuilt structure too (and only then)
            io = [c[0] for c in containers(self.obj, self.tree, [])]
            ir = [c[0] for c in containers(res, self.tree, [])]
            if len(io) != len(ir) or any((io[i] == io[j]) != (ir[i] == ir[j]) for i in range(len(io)) for j in range(i)):
                out["copied"] = False
                out["note"] = "containers shared between positions of the original are not shared in the same way in the rebuilt structure"
        return out


def _index_by_identity(sup, x):
    for i, s in enumerate(sup):
        if s is x:
            return i + 1
    return 0


def _index_by_value(offs, listing, x, used=None):
    if x.numel() == 0:
        # an empty tensor carries no values: identified by its shape among the empty entries of the listing; several empty entries
        # of one shape cannot be told apart, so the slots visited in order are given the matching entries in order (`used`), and
        # the last matching one again when they are exhausted (a tensor listed once that fills several slots)
        cands = [i + 1 for i, l in enumerate(listing) if l.numel() == 0 and tuple(x.shape) == tuple(l.shape)]
        if not cands:
            return 0
        if used is None:
            return cands[0]
        for i in cands:
            if i not in used:
                used.add(i)
                return i
        return cands[-1]
    v = float(x.reshape(-1)[0]) - 1000.0
    for i, (o, l) in enumerate(zip(offs, listing)):
        if v == o and tuple(x.shape) == tuple(l.shape) and torch.equal(
                x.reshape(-1), torch.arange(o, o + l.numel(), dtype=torch.float64) + 1000.0):
            return i + 1
    return 0


# ------------------------------------------------------------------ comparing a TLC `last` with a real event
def parse_label(label):
    """'GetList(TRUE) line ...' -> (act, u, sk)"""
    import re
    m = re.match(r'(\w+)\((\w+)(?:,\s*\\?"?(\w+)\\?"?)?\)', label)
    if not m:
        return None
    name, u, sk = m.group(1), m.group(2) == "TRUE", m.group(3)
    act = {"GetList": "GetList", "GetTensor": "GetTensor", "ConstructList": "CList", "ConstructTensor": "CTensor"}[name]
    return act, u, sk


def canon_ids(seq):
    """alias ids -> canonical numbering by first occurrence (the spec's ids are arbitrary labels)"""
    m = {}
    return [m.setdefault(x, len(m) + 1) for x in seq]


def compare(last, ev, tree_ids):
    """returns None if the real outcome `ev` equals TLC's predicted `last`, else a description"""
    kind = last["kind"]
    if kind in ("listed", "flat"):
        if ev.get("kind") == "raise":
            return "getter raised %s" % ev.get("exc")
        if list(last["listed"]) != list(ev["listed"]):
            return "listed %s, spec %s" % (ev["listed"], last["listed"])
        if kind == "flat" and last["none"] != ev["none"]:
            return "None-ness of flat tensor differs"
    elif kind == "raise":
        if ev.get("kind") != "raise":
            return "spec: rejected (%s); code returned %s" % (last.get("why"), ev.get("kind"))
    elif kind == "inner":
        if ev.get("kind") != "inner":
            return "spec: returns the (empty) inner copy; code: %s" % ev.get("kind")
    elif kind == "built":
        if ev.get("kind") != "built":
            return "spec: rebuilt structure; code: %s %s" % (ev.get("kind"), ev.get("exc"))
        if _norm(last["result"]) != _norm(ev["result"]):
            return "rebuilt structure differs: code %s spec %s" % (json.dumps(ev["result"]), json.dumps(_norm(last["result"])))
        if not ev["copied"]:
            return "non-tensor content not copied / not equal"
    if not ev["orig_same"]:
        return "the original structure (or the caller's list) was modified"
    if not ev["packer_same"]:
        return "the Packer was modified by a construct call"
    return None


def _norm(t):
    if "c" in t:
        return {"k": str(t["k"]), "c": [_norm(c) for c in t["c"]]}
    d = {"k": str(t["k"])}
    if "s" in t:
        d["s"] = int(t["s"])
    if "a" in t:
        d["a"] = int(t["a"])
    return d


def tree_key(t):
    return json.dumps(_norm(t), sort_keys=True)


# ------------------------------------------------------------------ random structures for code -> spec traces
def random_tree(rng, depth, maxkids, maxalias):
    r = rng.random()
    if depth == 0 or r < 0.35:
        q = rng.random()
        if q < 0.6:
            return {"k": "T", "a": rng.randint(1, maxalias)}
        return {"k": "N"} if q < 0.85 else {"k": "Tup"}
    k = rng.choice(["L", "D", "O"])
    return {"k": k, "c": [random_tree(rng, depth - 1, maxkids, maxalias) for _ in range(rng.randint(0, maxkids))]}


def canon_tree(t, m):
    if t["k"] == "T":
        return {"k": "T", "a": m.setdefault(t["a"], len(m) + 1)}
    if "c" in t:
        return {"k": t["k"], "c": [canon_tree(c, m) for c in t["c"]]}
    return dict(t)


ACTIONS = [("GetList", None), ("GetTensor", None), ("CList", "good"), ("CList", "short"), ("CList", "long"),
           ("CList", "badshape"), ("CTensor", "good"), ("CTensor", "badnumel")]


def n_listed(tree, u):
    ids = []

    def walk(t):
        if t["k"] == "T":
            ids.append(t["a"])
        for c in t.get("c", []):
            walk(c)
    walk(tree)
    return len(set(ids)) if u else len(ids)


def shared_tree(rng):
    """a structure in which one container holding tensors occurs at several positions, with further content around / after it"""
    def leafs(n, maxalias):
        return [random_tree(rng, 0, 0, maxalias) for _ in range(n)]
    while True:
        S = random_tree(rng, rng.choice([1, 2]), 3, 3)
        if "c" in S and '"T"' in json.dumps(S) and '"N"' not in json.dumps(S):
            break
    second = S if rng.random() < 0.5 else {"k": rng.choice(["L", "D", "O"]), "c": [S] + leafs(rng.randint(0, 2), 5)}
    kids = leafs(rng.randint(0, 1), 5) + [S] + leafs(rng.randint(0, 2), 5) + [second] + leafs(rng.randint(0, 2), 5)
    return {"k": rng.choice(["L", "D", "O"]), "c": kids}


def record_trace(tid, tree, rng, nev, share=False):
    tree = canon_tree(tree, {})
    d = Driver(tree, rng, share)
    evs = []
    for _ in range(nev):
        act, sk = rng.choice(ACTIONS)
        # (a shared container is written once per reference: position-wise refilling is only meaningful through the unique interface)
        u = True if share and act in ("CList", "CTensor") else rng.random() < 0.5
        if act == "CList" and sk in ("short", "badshape") and n_listed(tree, u) == 0:
            sk = "good"
        evs.append(d.call(act, u, sk))
    return {"tid": tid, "cfg": {"tree": tree}, "ev": evs}


# ------------------------------------------------------------------ the check
def replay_graph(ctx, cfg, rng):
    dot = os.path.join(ctx.work, "packer.dot")
    r = ctx.model_check("Packer.tla", cfg, dump_dot=dot, workers=8, label="graph for replay")
    nodes, inits, edges = tlcmod.parse_dot(dot)
    os.remove(dot)
    out = {}
    for s, d, lab in edges:
        out.setdefault(s, []).append((d, lab))
    nedges = 0
    for init in inits:
        tree = _norm(nodes[init]["tree"])
        # DFS over the component, re-creating the Packer by replaying the path of getter calls
        seen = {init}
        stack = [(init, [])]
        while stack:
            node, path = stack.pop()
            for dst, lab in out.get(node, []):
                pl = parse_label(lab)
                if pl is None:
                    raise Machinery("unparseable edge label %r" % lab)
                drv = Driver(tree, rng)
                for (a, u, sk) in path:
                    drv.call(a, u, sk)
                ev = drv.call(*pl)
                nedges += 1
                last = nodes[dst]["last"]
                why = compare(last, ev, None)
                ctx.case(key=(tree_key(tree), tuple(path), pl),
                         sample={"tree": tree, "path": path, "call": pl, "spec_last": _norm_last(last), "code": ev})
                if why:
                    ctx.violation("packer/%s/%s" % (pl[0], last["kind"]),
                                  "Packer.%s%s on %s after %s: %s" % (pl[0], pl[1:], json.dumps(tree), path, why),
                                  {"tree": tree, "path": path, "call": pl})
                if dst not in seen:
                    seen.add(dst)
                    if pl[0] in ("GetList", "GetTensor"):
                        stack.append((dst, path + [pl]))
                    else:
                        stack.append((dst, path))
    return len(nodes), nedges


def _norm_last(last):
    d = {k: v for k, v in last.items() if k != "result"}
    if "result" in last:
        d["result"] = _norm(last["result"])
    return d


def replay_sim(ctx, cfg, n, depth, rng):
    simdir = os.path.join(ctx.work, "sim")
    os.makedirs(simdir, exist_ok=True)
    try:
        tlcmod.run(os.path.join(SPEC, "Packer.tla"), os.path.join(SPEC, cfg), ctx.work, workers=1,
                   simulate="file=%s/b,num=%d" % (simdir, n), depth=depth, seed=ctx.seed + 11, deadlock=False)
    except tlcmod.TlcError as e:
        raise Machinery(str(e))
    nb = 0
    for fn in sorted(os.listdir(simdir)):
        beh = tlcmod.parse_sim_file(os.path.join(simdir, fn))
        if not beh:
            continue
        nb += 1
        tree = _norm(beh[0][1]["tree"])
        drv = Driver(tree, rng)
        path = []
        for lab, st in beh[1:]:
            pl = parse_label(lab)
            if pl is None:
                raise Machinery("unparseable simulate label %r" % lab)
            ev = drv.call(*pl)
            why = compare(st["last"], ev, None)
            ctx.case(key=(tree_key(tree), tuple(path), pl))
            if why:
                ctx.violation("packer/%s/%s" % (pl[0], st["last"]["kind"]),
                              "Packer.%s%s on %s after %s: %s" % (pl[0], pl[1:], json.dumps(tree), path, why),
                              {"tree": tree, "path": path, "call": pl})
            path.append(pl)
    if nb == 0:
        raise Machinery("no simulated behaviours produced")
    return nb


def run(ctx):
    rng = random.Random(ctx.seed)
    torch.manual_seed(ctx.seed)
    thorough = ctx.tier == "thorough"
    # 1. design level: exhaustive model check, intended instance
    r = ctx.model_check("Packer.tla", "MC_Packer_deep.cfg" if thorough else "MC_Packer.cfg", workers=16,
                        label="exhaustive")
    # non-vacuity: every deviation switch must be caught by an invariant
    for dev in ("MC_Packer_dev1.cfg", "MC_Packer_dev2.cfg", "MC_Packer_dev3.cfg"):
        ctx.expect_violation("Packer.tla", dev, label="deviation")
    # 2. spec -> code: every edge of the state graph of the replay configuration
    nn, ne = replay_graph(ctx, "MC_Packer.cfg" if thorough else "MC_Packer_replay.cfg", rng)
    nb = replay_sim(ctx, "MC_Packer_deep.cfg", 1500 if thorough else 250, 7, rng)
    # 3. code -> spec: random larger structures, recorded call sequences validated by TLC
    traces = []
    ntr = 1500 if thorough else 300
    for tid in range(1, ntr + 1):
        tree = random_tree(rng, rng.choice([1, 2, 3, 3]), 3, rng.choice([1, 2, 3, 4]))
        traces.append(record_trace(tid, tree, rng, rng.randint(3, 8)))
    # the same with containers that are shared between several positions of the structure (unique interface for the refill)
    rng2 = random.Random(ctx.seed * 31 + 5)
    for tid in range(ntr + 1, ntr + 1 + (400 if thorough else 100)):
        traces.append(record_trace(tid, shared_tree(rng2), rng2, rng2.randint(3, 6), share=True))
    rej = ctx.validate_traces("Trace_Packer.tla", "Trace_Packer.cfg", traces)
    bytid = {t["tid"]: t for t in traces}
    for tid, matched, total in rej:
        t = bytid[tid]
        evb = t["ev"][matched] if matched < len(t["ev"]) else None
        ctx.violation("packer/trace/%s" % (evb["a"] if evb else "?"),
                      "recorded Packer execution not explained by the specification at event %d/%d: %s on %s"
                      % (matched + 1, total, json.dumps(evb), json.dumps(t["cfg"]["tree"])), t)
    for t in traces:
        ctx.case(key=("trace", tree_key(t["cfg"]["tree"]), json.dumps([(e["a"], e["u"], e.get("sk")) for e in t["ev"]])))
    ctx.samples.append({"validated_trace": traces[0]})
    # binding demonstration: a corrupted trace must be rejected
    bad = copy.deepcopy([t for t in traces if any(e.get("kind") == "built" and n_listed(t["cfg"]["tree"], False) >= 2
                                                  for e in t["ev"])][:20])
    nbad = 0
    for t in bad:
        for e in t["ev"]:
            if e.get("kind") == "built":
                _corrupt(e["result"])
                nbad += 1
                break
    if bad:
        rej2 = ctx.validate_traces("Trace_Packer.tla", "Trace_Packer.cfg", bad, expect_reject=True)
        if len(rej2) != len(bad):
            raise Machinery("binding self-test: %d corrupted traces but %d rejected" % (len(bad), len(rej2)))
    ctx.replayed = ne + nb
    ctx.notes["replayed_graph_nodes"] = nn
    ctx.notes["replayed_graph_edges"] = ne
    ctx.notes["replayed_simulated_behaviours"] = nb
    ctx.notes["corrupted_traces_rejected"] = len(bad)
    ctx.exhaustive = True
    ctx.assumptions += [
        "structures: lists, dicts, plain attribute objects, tensors, opaque leaves (numbers, strings, sets, bytearrays, tuples); containers shared between positions only in the dedicated traces (refilled through the unique interface)",
        "an unmet call-order precondition may raise any exception (weakest reading)",
        "for a structure without tensors construct_from_tensor accepts any tensor (no valid flat tensor exists)",
        "TLC, SANY, the projection functions in harness/props/c20.py"]
    return ctx.finish(
        rule="case = (abstract structure, getter history, call); TLC enumerates all structures within the bounds of the cfg and all call sequences; "
             "every edge of the replay graph and every step of the simulated behaviours is executed on a real Packer and compared field by field; "
             "distinct = distinct (structure, history, call) triples")


def _corrupt(t):
    if t.get("k") == "T":
        t["s"] = t["s"] + 1
        return True
    for c in t.get("c", []):
        if _corrupt(c):
            return True
    return False


def replay(data):
    rp = data["replay"]
    rng = random.Random(0)
    if "ev" in rp:
        print(json.dumps(rp, indent=1))
        return 1
    drv = Driver(rp["tree"], rng)
    for (a, u, sk) in rp["path"]:
        print(drv.call(a, u, sk))
    print(drv.call(*rp["call"]))
    print(data["what"])
    return 1
