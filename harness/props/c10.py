"""C10 - functionals never leave the caller's objects modified, even on failure.

Spec: spec/ParamSubst.tla.  (1) TLC: exhaustive, every nesting / crash index within the bounds; each deviation switch
is caught.  (2) spec -> code: every edge of TLC's state graph (and simulated deeper behaviours) is executed on real
PureFunction / _Jac / debug context managers, full projected state compared after every step.  (3) code -> spec:
every functional x representation x {forward, backward, double backward} x crash index k recorded through the
hooks and validated by TLC against spec/Trace_ParamSubst.tla.
"""
import contextlib
import copy
import json
import os
import random
import warnings

import torch
import xitorch

from vlib import tlc as tlcmod
from vlib.tlc import RawTla
from vlib.ctx import Machinery, SPEC
from vlib.problems import Repr, Boom, Abort, base_tensors, run_functional, contraction, FUNCTIONALS, METHOD_OPTS
from vlib.substrace import Recorder
from vlib.substreplay import Replayer

INTENDED = dict(PushAlways=True, UseFinally=True, DbgFinally=True, DisFinally=True, LinFinally=True,
                JacOwnList=True, ExposeAll=True)
INVS = ["TypeOK", "Quiescent", "LIFO", "EvalSeesRequested", "UniqueRoundTrip", "BeliefCoherent"]

# alias patterns of the object's slots (ids 0.. ; equal ids = one tensor under several names) with candidate lists
PATTERNS = {
    "edit-11": dict(Kind="edit", NS=2, Slots0=[0, 0], Cands={(0,), (1,), (2,)}),
    "edit-12": dict(Kind="edit", NS=2, Slots0=[0, 1], Cands={(0, 1), (2, 1), (2, 3)}),
    "edit-121": dict(Kind="edit", NS=3, Slots0=[0, 1, 0], Cands={(0, 1), (2, 1), (2, 3)}),
    "nn-12": dict(Kind="nn", NS=2, Slots0=[0, 1], Cands={(0, 1), (2, 1), (4, 5)}),
    "nn-121": dict(Kind="nn", NS=3, Slots0=[0, 1, 0], Cands={(0, 1), (2, 1), (4, 5)}),      # tied parameters
}
PARAM_IDS = {0, 1, 2, 3}      # tensors 4, 5 are plain tensors (not nn.Parameter)


def consts(pat, **over):
    c = dict(INTENDED)
    c.update(ParamIds=PARAM_IDS, Views={"pf"}, MaxDepth=3, MaxLists=8, MaxEvals=2)
    c.update(PATTERNS[pat])
    c.update(over)
    return c


def model_checks(ctx, thorough):
    n = 0
    for pat in PATTERNS:
        c = consts(pat, MaxDepth=3 if not thorough else 4, MaxEvals=2)
        t, cf = tlcmod.gen_mc(ctx.work, "ParamSubst", "MC_PS_%s" % pat.replace("-", "_"), c, invariants=INVS)
        r = ctx.model_check(t, cf, workers=16, coverage=True, label="exhaustive " + pat, timeout=900)
        ctx.check_coverage(r, ["NewView", "NewJac", "EnterUse", "RefusedUse", "EnterDisable", "EnterDebug", "EnterLinop",
                               "Exit", "Unwind", "Propagated", "Eval", "JacProduct"])
        n += 1
    # two views over one object (sibling / second get_pure_function): restoration and LIFO still hold;
    # EvalSeesRequested is not guaranteed by the design (see DESIGN.md) and is not demanded here
    c = consts("edit-12", Views={"pf", "sib"}, MaxDepth=3, MaxEvals=1)
    t, cf = tlcmod.gen_mc(ctx.work, "ParamSubst", "MC_PS_two", c, invariants=["TypeOK", "Quiescent", "LIFO", "UniqueRoundTrip"])
    ctx.model_check(t, cf, workers=16, label="exhaustive two views", timeout=900)
    # non-vacuity: every deviation is caught
    for sw, inv in [("PushAlways", None), ("UseFinally", None), ("DbgFinally", "Quiescent"), ("DisFinally", "Quiescent"),
                    ("LinFinally", "Quiescent"), ("JacOwnList", None)]:
        c = consts("edit-12", **{sw: False})
        t, cf = tlcmod.gen_mc(ctx.work, "ParamSubst", "MC_PS_dev_%s" % sw, c, invariants=INVS)
        ctx.expect_violation(t, cf, inv=inv, label="deviation " + sw, workers=8, timeout=300)
    c = consts("nn-121", ExposeAll=False)
    t, cf = tlcmod.gen_mc(ctx.work, "ParamSubst", "MC_PS_dev_Expose", c, invariants=INVS)
    ctx.expect_violation(t, cf, inv="Quiescent", label="deviation ExposeAll (tied nn parameters)", workers=8, timeout=300)


def replay_path(pat, path, nodes):
    c = PATTERNS[pat]
    rp = Replayer(c["Kind"], c["Slots0"], PARAM_IDS)
    try:
        for (lab, dst) in path:
            rp.do(lab, nodes[dst])
        return rp, None
    except Machinery:
        raise
    except Exception as e:
        return rp, "%s: %s" % (type(e).__name__, e)


def graph_replay(ctx, pat, depth, evals, budget):
    c = consts(pat, MaxDepth=depth, MaxEvals=evals, MaxLists=6)
    name = "MC_PSR_%s" % pat.replace("-", "_")
    t, cf = tlcmod.gen_mc(ctx.work, "ParamSubst", name, c, invariants=["TypeOK"])
    dot = os.path.join(ctx.work, name + ".dot")
    ctx.model_check(t, cf, workers=8, dump_dot=dot, label="graph for replay " + pat, timeout=600)
    nodes, inits, edges = tlcmod.parse_dot(dot)
    os.remove(dot)
    out = {}
    for s, d, lab in edges:
        out.setdefault(s, []).append((d, lab))
    # shortest path to every node
    path = {i: [] for i in inits}
    order = list(inits)
    for s in order:
        for d, lab in out.get(s, []):
            if d not in path:
                path[d] = path[s] + [(lab, d)]
                order.append(d)
    n = 0
    bad = {}
    for s in order:
        for d, lab in out.get(s, []):
            if n >= budget:
                break
            n += 1
            rp, err = replay_path(pat, path[s] + [(lab, d)], nodes)
            why = err if err else rp.compare(nodes[d], lab)
            rp.cleanup()
            acts = [l for l, _ in path[s]] + [lab]
            ctx.case(key=(pat, tuple(acts)), sample={"pattern": pat, "actions": acts, "spec_state": {k: nodes[d][k] for k in ("slots", "stack", "frames", "unwinding")}} if n % 997 == 1 else None)
            if why:
                k = violation_key(pat, lab, why)
                bad.setdefault(k, 0)
                bad[k] += 1
                ctx.violation(k, "spec->code replay on %s after %s: %s" % (pat, acts, why), {"mode": "graph", "pattern": pat, "actions": acts, "depth": depth, "evals": evals})
    return len(nodes), n


# ------------------------------------------------------------------ views created while a substitution is active (NestedViews.tla)
class _NVEdit(xitorch.EditableModule):
    def __init__(self, a, b):
        self.a = a
        self.b = b

    def f(self, x):
        return self.a * x + self.b

    def getparamnames(self, methodname, prefix=""):
        return [prefix + "a", prefix + "b"]


class _NVNN(torch.nn.Module):
    def __init__(self, a, b):
        super().__init__()
        self.a = torch.nn.Parameter(a)
        self.b = torch.nn.Parameter(b)

    def f(self, x):
        return self.a * x + self.b


def nested_views(ctx, budget):
    import re
    from xitorch._core.pure_function import get_pure_function
    base = dict(Views={"v1", "v2", "v3"}, Slots0=RawTla("<<0, 1>>"), Cands=RawTla("{<<0, 1>>, <<2, 3>>, <<4, 1>>}"), MaxDepth=3, RefreshAtSet=True)
    t, cf = tlcmod.gen_mc(ctx.work, "NestedViews", "MC_NV", base, invariants=["Quiescent", "LIFO"])
    dot = os.path.join(ctx.work, "nv.dot")
    ctx.model_check(t, cf, workers=8, dump_dot=dot, label="views created inside substitutions", timeout=600)
    nodes, inits, edges = tlcmod.parse_dot(dot)
    os.remove(dot)
    t2, cf2 = tlcmod.gen_mc(ctx.work, "NestedViews", "MC_NV_dev", dict(base, RefreshAtSet=False), invariants=["Quiescent", "LIFO"])
    ctx.expect_violation(t2, cf2, inv="Quiescent", label="deviation RefreshAtSet", workers=4, timeout=300)
    out = {}
    for s, d, lab in edges:
        out.setdefault(s, []).append((d, lab))
    path = {i: [] for i in inits}
    order = list(inits)
    for s in order:
        for d, lab in out.get(s, []):
            if d not in path:
                path[d] = path[s] + [(lab, d)]
                order.append(d)
    todo = [(s, d, lab) for s in order for d, lab in out.get(s, [])]
    rng = random.Random(ctx.seed)
    rng.shuffle(todo)
    n = 0
    for kind in ("edit", "nn"):
        for s, d, lab in todo[:budget]:
            n += 1
            acts = [l for l, _ in path[s]] + [lab]
            ctx.case(key=("nested-views", kind, tuple(acts)))
            pool = {i: torch.tensor(float(i), dtype=torch.float64, requires_grad=True) for i in range(2, 6)}
            obj = (_NVEdit if kind == "edit" else _NVNN)(torch.tensor(0.5, dtype=torch.float64, requires_grad=True), torch.tensor(-0.5, dtype=torch.float64, requires_grad=True))
            pool[0], pool[1] = obj.a, obj.b
            ident = {id(v): k for k, v in pool.items()}
            views, cms = {}, []
            why = None
            try:
                for (l, dst) in path[s] + [(lab, d)]:
                    m = re.match(r'(\w+)(?:\((.*)\))?', l)
                    act, args = m.group(1), (m.group(2) or "")
                    if act == "NewView":
                        v = re.search(r'"(\w+)"', args).group(1)
                        views[v] = get_pure_function(obj.f) if v != "v3" else get_pure_function(xitorch.make_sibling(obj.f)(lambda x: obj.f(x) * 1.0))
                    elif act == "EnterUse":
                        v = re.search(r'"(\w+)"', args).group(1)
                        P = [int(x) for x in re.search(r'<<([^>]*)>>', args).group(1).split(",")]
                        # the caller hands the tensors over in the order in which the view lists the object's parameters
                        # (an nn.Module view lists the names registered at its creation first)
                        vw = views[v]
                        names = getattr(vw, "names", None) or getattr(getattr(vw, "pfunc", None), "names", None) or ["a", "b"]
                        cm = vw.useobjparams([pool[P[["a", "b"].index(nm_)]] for nm_ in names])
                        cm.__enter__()
                        cms.append(cm)
                    elif act == "Exit":
                        cms.pop().__exit__(None, None, None)
                    else:
                        raise Machinery("unknown action label %r" % l)
                    got = [ident.get(id(obj.a), -1), ident.get(id(obj.b), -1)]
                    exp = [int(x) for x in nodes[dst]["slots"]]
                    if got != exp:
                        why = "after %s the object holds tensors %s, specification %s" % (l, got, exp)
                        break
            except Machinery:
                raise
            except Exception as e:
                why = "raised %s: %s" % (type(e).__name__, str(e)[:120])
            finally:
                while cms:
                    try:
                        cms.pop().__exit__(None, None, None)
                    except Exception:
                        pass
            if why:
                ctx.violation("subst/nested-views/%s" % kind, "spec->code replay (%s object) of %s: %s" % (kind, acts, why), {"kind": kind, "actions": acts})
    return len(nodes), n


def violation_key(pat, lab, why):
    if "Parameter registration order" in why or ("nn-121" in pat and ("object holds" in why or "believes" in why or "restore stack" in why)):
        return "subst/%s/tied-parameters" % pat
    if "Jacobian operator" in why or "believes" in why:
        return "subst/jac-shares-belief-list"
    return "subst/%s/%s" % (pat, lab.split("(")[0])


def sim_replay(ctx, pat, num, depth):
    c = consts(pat, MaxDepth=4, MaxEvals=3, MaxLists=8)
    name = "MC_PSS_%s" % pat.replace("-", "_")
    t, cf = tlcmod.gen_mc(ctx.work, "ParamSubst", name, c, invariants=["TypeOK"])
    simdir = os.path.join(ctx.work, "sim_" + pat)
    os.makedirs(simdir, exist_ok=True)
    try:
        tlcmod.run(t, cf, ctx.work, workers=1, simulate="file=%s/b,num=%d" % (simdir, num), depth=depth,
                   seed=ctx.seed + 5, deadlock=False, timeout=600)
    except tlcmod.TlcError as e:
        raise Machinery(str(e))
    nb = 0
    for fn in sorted(os.listdir(simdir)):
        beh = tlcmod.parse_sim_file(os.path.join(simdir, fn))
        if len(beh) < 2:
            continue
        nb += 1
        cc = PATTERNS[pat]
        rp = Replayer(cc["Kind"], cc["Slots0"], PARAM_IDS)
        acts = []
        for lab, st in beh[1:]:
            lab = lab.split(" line ")[0]
            acts.append(lab)
            try:
                rp.do(lab, st)
                why = rp.compare(st, lab)
            except Machinery:
                raise
            except Exception as e:
                why = "%s: %s" % (type(e).__name__, e)
            ctx.case(key=(pat, tuple(acts)))
            if why:
                ctx.violation(violation_key(pat, lab, why), "spec->code replay (simulated behaviour) on %s after %s: %s" % (pat, acts, why),
                              {"mode": "sim", "pattern": pat, "actions": acts})
                break
        rp.cleanup()
    if nb == 0:
        raise Machinery("no simulated behaviours")
    return nb


# ------------------------------------------------------------------ code -> spec
def record(fname, kind, opts, bck, phase, crash_at, debug, seed, tid, abort=False, warn_error=False):
    W, c = base_tensors(seed)
    R = Repr(kind, W, c)
    rec = Recorder(R.objects)
    R.ticker.on_eval = rec.on_eval
    R.ticker.crash_at = crash_at
    if abort:
        R.ticker.crash_exc = Abort
    exc = None
    dbg0 = xitorch.is_debug_enabled()
    import io
    with rec, warnings.catch_warnings(), contextlib.redirect_stdout(io.StringIO()):
        # (warn_error: the caller runs with warnings as errors - the failure then comes from the library's own convergence
        # warning, raised after the iteration loop / inside the backward solve, not from the user's function)
        warnings.simplefilter("error" if warn_error else "ignore")
        try:
            with (xitorch.enable_debug() if debug else contextlib.nullcontext()):
                out = run_functional(fname, R, opts=opts, bck=bck)
                if phase >= 1:
                    g = torch.autograd.grad(contraction(out), R.leaves, create_graph=(phase >= 2), allow_unused=True)
                if phase >= 2:
                    L2 = sum((gi ** 2).sum() for gi in g if gi is not None)
                    torch.autograd.grad(L2, R.leaves, allow_unused=True)
        except (Boom, Abort) as e:
            exc = e
        except Exception as e:          # other failures of the call itself are not C10's business, restoration is
            exc = e
        rec.final(exc)
    xitorch.set_debug_mode(dbg0)
    if rec.errors:
        raise Machinery("recorder failed: " + rec.errors[0])
    cfg = {"f": fname, "kind": kind, "opts": {k: (v if isinstance(v, (int, float, str)) else "<callable>") for k, v in opts.items()},
           "bck": bck or {}, "phase": phase, "k": crash_at or 0, "debug": debug, "seed": seed,
           "exc": type(exc).__name__ if exc is not None else ""}
    return rec.trace(tid, cfg), R.ticker.count


class CrashOp(xitorch.LinearOperator):
    """user-defined matrix-free operator holding a derived tensor; its products go through a Ticker (may raise at product k)"""

    def __init__(self, mat0, ticker):
        self.mat = mat0 * 1.0
        super().__init__(shape=self.mat.shape, is_hermitian=True, dtype=self.mat.dtype, device=self.mat.device)
        self._ticker = ticker

    def _mv(self, x):
        self._ticker.tick()
        return torch.matmul(self.mat, x.unsqueeze(-1)).squeeze(-1)

    def _getparamnames(self, prefix=""):
        return [prefix + "mat"]


def record_linop(which, method, phase, crash_at, seed, tid):
    """solve / symeig on a user-defined operator whose k-th product raises"""
    import xitorch.linalg
    from vlib.problems import Ticker
    g = torch.Generator().manual_seed(300 + seed)
    Q, _ = torch.linalg.qr(torch.randn(4, 4, generator=g, dtype=torch.float64))
    mat0 = ((Q * torch.linspace(1.0, 2.5, 4, dtype=torch.float64)) @ Q.T).requires_grad_()
    B = torch.randn(4, 2, generator=g, dtype=torch.float64).requires_grad_()
    tk = Ticker()
    with warnings.catch_warnings():
        warnings.simplefilter("ignore")
        A = CrashOp(mat0, tk)
    rec = Recorder([A])
    tk.on_eval = rec.on_eval
    tk.crash_at = crash_at
    exc = None
    with rec, warnings.catch_warnings():
        warnings.simplefilter("ignore")
        try:
            if which == "solve":
                out = xitorch.linalg.solve(A, B, method=method)
            else:
                ev, evec = xitorch.linalg.symeig(A, neig=2, method=method)
                out = torch.cat([ev, (evec ** 2).reshape(-1)])
            if phase >= 1:
                g1 = torch.autograd.grad(out.sum(), [mat0], create_graph=(phase >= 2), allow_unused=True)
            if phase >= 2 and g1[0] is not None:
                torch.autograd.grad((g1[0] ** 2).sum(), [mat0], allow_unused=True)
        except Exception as e:
            exc = e
        rec.final(exc)
    if rec.errors:
        raise Machinery("recorder failed: " + rec.errors[0])
    cfg = {"f": which, "kind": "linop", "opts": {"method": method}, "bck": {}, "phase": phase, "k": crash_at or 0, "debug": False, "seed": seed,
           "exc": type(exc).__name__ if exc is not None else ""}
    return rec.trace(tid, cfg), tk.count


def crash_traces(ctx, thorough):
    kinds = ["nn", "edit", "editnn", "mixed", "sib", "msib", "msib3"]
    traces = []
    tid = [0]

    def add(fname, kind, opts, bck, phase, k, debug=False, abort=False, warn_error=False):
        tid[0] += 1
        tr, cnt = record(fname, kind, opts, bck, phase, k, debug, ctx.seed, tid[0], abort=abort, warn_error=warn_error)
        traces.append(tr)
        return cnt
    for fname in FUNCTIONALS:
        optsets = METHOD_OPTS[fname] if thorough else METHOD_OPTS[fname][:2]
        for oi, opts in enumerate(optsets):
            bcks = [None]
            if fname in ("rootfinder", "equilibrium", "minimize") and oi == 0:
                bcks = [None, {"method": "bicgstab"}]
            for bck in bcks:
                for kind in (kinds if (thorough or oi == 0) else kinds[:2]):
                    for phase in (0, 1, 2):
                        if fname in ("jac", "hess") and phase == 2 and not thorough:
                            continue
                        K = add(fname, kind, opts, bck, phase, None)
                        if thorough:
                            ks = range(1, K + 1)
                        else:
                            ks = sorted(set([1, 2, 3, K // 3, K // 2, (2 * K) // 3, K - 2, K - 1, K]))
                        for k in ks:
                            if 1 <= k <= K:
                                add(fname, kind, opts, bck, phase, k)
                        # the same fault points with a failure that is not an Exception (quick: first option set, a subset of points)
                        if oi == 0 and bck is None and phase >= 1:
                            for k in (ks if thorough else sorted(set([K // 2, K - 2, K - 1, K]))):
                                if 1 <= k <= K:
                                    add(fname, kind, opts, bck, phase, k, abort=True)
    # warnings as errors: the library's own convergence warning is the failure (starved forward budget; starved backward solve)
    for fname in ("rootfinder", "equilibrium", "minimize"):
        for kind in (kinds if thorough else ["nn", "edit", "msib3"]):
            add(fname, kind, dict(METHOD_OPTS[fname][0], maxiter=1), None, 0, None, warn_error=True)
            for phase in (1, 2):
                add(fname, kind, METHOD_OPTS[fname][0], {"method": "cg", "max_niter": 1}, phase, None, warn_error=True)
    # a LinearOperator product raises (solve / symeig on a user-defined operator)
    for which, methods in (("solve", ("cg", "bicgstab") if not thorough else ("cg", "bicgstab", "gmres", "broyden1", "custom_exactsolve")),
                           ("symeig", ("davidson",) if not thorough else ("davidson", "custom_exacteig"))):
        for method in methods:
            for phase in (0, 1, 2):
                tid[0] += 1
                tr, K = record_linop(which, method, phase, None, ctx.seed, tid[0])
                traces.append(tr)
                ks = range(1, K + 1) if thorough else sorted(set([1, 2, K // 3, K // 2, (2 * K) // 3, K - 1, K]))
                for k in ks:
                    if 1 <= k <= K:
                        tid[0] += 1
                        traces.append(record_linop(which, method, phase, k, ctx.seed, tid[0])[0])
    # debug mode: the parameter check of EditableModule methods substitutes copies while it probes the method
    for fname in ("rootfinder", "quad", "mcquad", "equilibrium", "minimize"):
        for kind in ("edit", "editnn", "mixed"):
            K = add(fname, kind, METHOD_OPTS[fname][0], None, 0, None, debug=True)
            for k in range(1, min(K, 8) + 1):
                add(fname, kind, METHOD_OPTS[fname][0], None, 0, k, debug=True)
    return traces


def trace_key(t, ev):
    c = t["cfg"]
    if c["debug"]:
        return "trace/debug-probe/%s" % c["kind"]
    if c["kind"] == "linop":
        return "trace/linop/%s/%s/phase%d/%s" % (c["f"], c["opts"].get("method"), c["phase"], ev["a"] if ev else "?")
    if ev is not None and ev["a"] == "set" and any(e["a"] == "linuse" for e in t["ev"]):
        return "subst/jac-shares-belief-list"
    return "trace/%s/%s/phase%d/%s" % (c["f"], c["kind"], c["phase"], ev["a"] if ev else "?")


def run(ctx):
    thorough = ctx.tier == "thorough"
    torch.manual_seed(ctx.seed)
    model_checks(ctx, thorough)
    # spec -> code
    tot_nodes = tot_edges = 0
    for pat in PATTERNS:
        nn_, ne = graph_replay(ctx, pat, 3 if thorough else 2, 2 if thorough else 1, 200000 if thorough else 6000)
        tot_nodes += nn_
        tot_edges += ne
    nb = 0
    for pat in PATTERNS:
        nb += sim_replay(ctx, pat, 400 if thorough else 60, 14)
    # code -> spec
    nvn, nve = nested_views(ctx, 100000 if thorough else 1500)
    tot_nodes += nvn
    tot_edges += nve
    traces = crash_traces(ctx, thorough)
    rej = ctx.validate_traces("Trace_ParamSubst.tla", "Trace_ParamSubst.cfg", traces, shards=16)
    bytid = {t["tid"]: t for t in traces}
    for tid, matched, total in rej:
        t = bytid[tid]
        ev = t["ev"][matched] if matched < len(t["ev"]) else None
        prev = [e for e in t["ev"][:matched] if e["a"] != "eval"][-4:]
        ctx.violation(trace_key(t, ev),
                      "recorded execution %s not explained by ParamSubst at event %d/%d %s (previous: %s)"
                      % (json.dumps(t["cfg"]), matched + 1, total, json.dumps(ev), json.dumps(prev)),
                      {"mode": "trace", "cfg": t["cfg"]})
    for t in traces:
        c = t["cfg"]
        ctx.case(key=("trace", c["f"], c["kind"], json.dumps(c["opts"], sort_keys=True), json.dumps(c["bck"]), c["phase"], c["k"], c["debug"]))
    ctx.samples.append({"validated_trace_cfg": traces[5]["cfg"], "events": [e for e in traces[5]["ev"] if e["a"] != "eval"][:12]})
    # binding demonstration: corrupt one field / drop one event -> must be rejected
    good = [t for t in traces if t["tid"] not in {r[0] for r in rej} and sum(e["a"] == "set" and not e["ident"] for e in t["ev"]) >= 1][:24]
    bad = []
    for i, t in enumerate(good):
        t2 = copy.deepcopy(t)
        idx = [j for j, e in enumerate(t2["ev"]) if e["a"] == "set" and not e["ident"]][0]
        if i % 3 == 0:
            t2["ev"][idx]["held"][0] += 50              # the object did not receive the requested tensor
        elif i % 3 == 1:
            j = [j for j, e in enumerate(t2["ev"]) if j > idx and e["a"] == "restore"][0]
            del t2["ev"][j]                               # a restore is missing
        else:
            t2["ev"][-1]["seen"][0][1] += 50             # the object is left modified
        bad.append(t2)
    if bad:
        rej2 = ctx.validate_traces("Trace_ParamSubst.tla", "Trace_ParamSubst.cfg", bad, shards=4, expect_reject=True)
        if len(rej2) != len(bad):
            raise Machinery("binding self-test: %d corrupted traces, %d rejected" % (len(bad), len(rej2)))
    ctx.replayed = tot_edges + nb
    ctx.notes.update(replayed_graph_nodes=tot_nodes, replayed_graph_edges=tot_edges, replayed_simulated_behaviours=nb,
                     recorded_traces=len(traces), crash_traces=sum(1 for t in traces if t["cfg"]["k"]),
                     corrupted_traces_rejected=len(bad),
                     trace_events=sum(len(t["ev"]) for t in traces))
    ctx.exhaustive = thorough
    ctx.assumptions += [
        "crash = the user's function raises an exception of its own at evaluation k (every k in thorough; first/last three and thirds in quick)",
        "disable_state_change and the debug context managers carry no hook: their restoration is observed at the end of the call",
        "objects are observed through an independent traversal (attributes, lists, dicts, nn.Module parameters)",
        "TLC, SANY, projection code in harness/vlib/substrace.py and substreplay.py"]
    return ctx.finish(
        rule="TLC: all behaviours of ParamSubst within the bounds for 5 aliasing patterns; spec->code: one case per (pattern, action sequence) "
             "edge of the TLC graph executed on real objects with the whole projected state compared; code->spec: one case per "
             "(functional, method, backward method, representation, phase, crash index, debug mode) recorded and validated by TLC")


def replay(data):
    rp = data["replay"]
    print(data["what"])
    if rp.get("mode") == "trace":
        c = rp["cfg"]
        tr, _ = record(c["f"], c["kind"], {k: v for k, v in c["opts"].items() if v != "<callable>"}, c["bck"] or None,
                       c["phase"], c["k"] or None, c["debug"], c["seed"], 1)
        for e in tr["ev"]:
            if e["a"] != "eval":
                print(json.dumps(e))
    else:
        c = PATTERNS[rp["pattern"]]
        r = Replayer(c["Kind"], c["Slots0"], PARAM_IDS)
        print("pattern", rp["pattern"], "actions", rp["actions"])
    return 1
