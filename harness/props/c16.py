"""C16 - mcquad returns the weighted sample mean it documents, with its gradient.

Spec: McChain.tla (burn-in / collect protocol of the three samplers, backward on the same samples).  TLC: exhaustive
for nsamples, nburnout <= 4; four deviation switches.  Code -> spec: API-boundary observers (wrappers around
log_pfcn, custom_step, the integrand) record every call; with the deterministic step x -> x+1 the chain position is
the value of x.  Traces are validated by TLC against Trace_McChain.tla; the ret event carries numeric verdicts
(explicit sample mean, score-function gradients to first and second order via a self-normalised surrogate).
"""
import json
import math
import warnings

import torch
import xitorch
import xitorch.integrate
from xitorch import EditableModule

from vlib import tlc as tlcmod
from vlib.ctx import Machinery

DT = torch.float64
INVS = ["CountOK", "AfterBurnIn", "Continuous", "BackwardOnSamples"]
INTENDED = dict(CollectFrom="burned", CollectCount="nsamples", BurnSteps="n", BwdOnSamples=True)


def f_math(x, a, b):
    return a * x.sum() + b * (x ** 2).sum() + torch.sin(a * b)


def logp_math(x, mu, s):
    return (-0.5 * (x - mu) ** 2 * s ** 2).sum()


class Holder(EditableModule):
    """object-held parameters: a (used by f), mu (used by log p), junk (used by neither)"""

    def __init__(self, a, mu, junk):
        self.a = a
        self.mu = mu
        self.junk = junk

    def f(self, x, b):
        return f_math(x, self.a, b)

    def logp(self, x, s):
        return logp_math(x, self.mu, s)

    def getparamnames(self, methodname, prefix=""):
        if methodname == "f":
            return [prefix + "a", prefix + "junk"]
        if methodname == "logp":
            return [prefix + "mu", prefix + "junk"]
        raise KeyError(methodname)


def surrogate(fvals, lps, w):
    """self-normalised estimator whose derivatives of every order reproduce the score-function rule"""
    r = torch.exp(lps - lps.detach()) * w
    return (r.reshape(-1, *([1] * (fvals.dim() - 1))) * fvals).sum(0) / r.sum()


def mh_continuity(x0, logp_pts, sample_pts, lp_of, nburn, nsamples):
    """Metropolis chain with unknown accept decisions: a proposal that does not lower log p is accepted with certainty, so after every
    step the set of positions the chain can be at is {proposal} + {earlier possible positions with a strictly higher log p}.  Returns
    None if the observed calls are consistent with ONE chain that burns in from x0 and is then collected (McChain.Continuous), else why not.
    Observed: log p at x0, one proposal per burn-in step, log p at the position collection starts from, one proposal per collected sample."""
    if len(logp_pts) != nburn + nsamples + 2 or len(sample_pts) != nsamples:
        return None                      # another call structure: left to the protocol part of the trace
    lp = lambda x: float(lp_of(x))
    S = [x0]
    for p in logp_pts[1:1 + nburn]:
        S = [p] + [s_ for s_ in S if lp(s_) > lp(p)]
    start = logp_pts[1 + nburn]
    if not any(torch.equal(start, s_) for s_ in S):
        return "collection starts at %s, which the burned-in chain cannot be at (possible: %s)" % (start.tolist(), [s_.tolist() for s_ in S][:4])
    S = [start]
    for j, p in enumerate(logp_pts[2 + nburn:]):
        S = [p] + [s_ for s_ in S if lp(s_) > lp(p)]
        if not any(torch.equal(sample_pts[j], s_) for s_ in S):
            return "sample %d is %s, which the chain cannot be at after that step (possible: %s)" % (j + 1, sample_pts[j].tolist(), [s_.tolist() for s_ in S][:4])
    return None


def run_case(tid, sampler, nsamples, nburn, placement, seed, tuple_out=False, bck=False, x0val=0.0):
    g = torch.Generator().manual_seed(seed)
    a = (torch.randn(2, generator=g, dtype=DT) * 0.5).requires_grad_()
    b = (torch.randn(2, generator=g, dtype=DT) * 0.3).requires_grad_()
    mu = (torch.randn(1, generator=g, dtype=DT) * 0.3).requires_grad_()
    s = (torch.rand(1, generator=g, dtype=DT) * 0.3 + 0.3).requires_grad_()
    junk = torch.randn(2, generator=g, dtype=DT).requires_grad_()
    log = []          # raw calls: (name, position or None, phase marker)
    in_bwd = [False]

    def posn(x):
        if sampler == "mhcustom":
            return int(round(float(x.reshape(-1)[0])))
        return -1

    if placement == "explicit":
        def ff(x, a_, b_, junk_):
            log.append(("f", posn(x), x.detach().clone()))
            v = f_math(x, a_, b_)
            return (v, 2.0 * v) if tuple_out else v

        def lp(x, mu_, s_, junk_):
            log.append(("logp", posn(x), x.detach().clone()))
            return logp_math(x, mu_, s_)
        fparams, pparams = (a, b, junk), (mu, s, junk)
        leaves_f, leaves_p = [a, b], [mu, s]
    else:
        H = Holder(a * 1.0, mu * 1.0, junk * 1.0)
        orig_f, orig_lp = H.f, H.logp

        class H2(Holder):
            def f(self, x, b_):
                log.append(("f", posn(x), x.detach().clone()))
                v = Holder.f(self, x, b_)
                return (v, 2.0 * v) if tuple_out else v

            def logp(self, x, s_):
                log.append(("logp", posn(x), x.detach().clone()))
                return Holder.logp(self, x, s_)
        H.__class__ = H2
        ff, lp = H.f, H.logp
        fparams, pparams = (b,), (s,)
        leaves_f, leaves_p = [a, b], [mu, s]

    def step(x, *p):
        log.append(("step", posn(x), None))
        return x + 1.0
    opts = {"method": sampler, "nsamples": nsamples}
    if sampler == "mhcustom":
        opts.update(nburnout=nburn, custom_step=step)
    elif sampler == "mh":
        opts.update(nburnout=nburn, step_size=0.7)
    else:
        opts.update(method="_dummy1d", lb=-4.0, ub=4.0)
    if bck:
        # backward options naming OTHER sampler settings: they configure the backward pass only - the forward chain is the one
        # the forward options ask for, and the backward pass re-uses the forward samples
        opts["bck_options"] = {"nsamples": nsamples + 2, "nburnout": nburn + 1, "step_size": 0.1, "lb": -1.0, "ub": 1.0}
    x0 = torch.full((1,), float(x0val), dtype=DT)
    torch.manual_seed(seed)
    cfg = {"sampler": sampler if sampler != "_dummy1d" else "dummy1d", "nsamples": nsamples, "nburn": nburn, "placement": placement,
           "seed": seed, "tuple": tuple_out, "bck_options_given": bool(bck), "x0": float(x0val)}
    ev = []
    verd = []
    exc = None
    try:
        with warnings.catch_warnings():
            warnings.simplefilter("ignore")
            out = xitorch.integrate.mcquad(ff, lp, x0, fparams=fparams, pparams=pparams, **opts)
    except Exception as e:
        exc = e
    fwd = list(log)
    # ---- forward events: first f call is the output-structure probe of mcquad
    fcalls = [c for c in fwd if c[0] == "f"]
    seq = [c for c in fwd if c[0] != "f"]
    first = True
    nlogp = 0
    for c in seq:
        if c[0] == "logp":
            nlogp += 1
            if sampler == "dummy1d":
                continue
            if first:
                ev.append({"a": "begin", "at": c[1]})
                first = False
            else:
                ev.append({"a": "logp", "at": c[1]})
        else:
            ev.append({"a": "step", "from": c[1]})
    if sampler == "dummy1d":
        ev.append({"a": "quad", "n": nlogp})
    if exc is not None:
        ev.append({"a": "raise", "exc": "%s: %s" % (type(exc).__name__, str(exc)[:100])})
        return {"tid": tid, "cfg": cfg, "ev": ev}
    pts = fcalls[1:]
    ev.append({"a": "integrate", "n": len(pts), "at": [c[1] for c in pts]})
    # ---- numeric verdicts on the observed points
    xs = [c[2] for c in pts]
    outs = out if tuple_out else (out,)
    if sampler == "dummy1d":
        # weights documented: quadrature weights x p, normalised: recompute independently
        import numpy as np
        tl, tu = math.atan(-4.0), math.atan(4.0)
        tg, wg = np.polynomial.legendre.leggauss(nsamples)
        ts = torch.tensor(tg, dtype=DT) * 0.5 * (tu - tl) + 0.5 * (tu + tl)
        wq = torch.tensor(wg, dtype=DT) * 0.5 * (tu - tl) / torch.cos(ts) ** 2
        xq = torch.tan(ts)
        nodes_ok = len(xs) == nsamples and all(abs(float(x_.reshape(-1)[0]) - float(q)) < 1e-12 * (1 + abs(float(q))) for x_, q in zip(xs, xq))
        verd.append(["quadrature_nodes", bool(nodes_ok)])
        w0 = wq * torch.exp(torch.stack([logp_math(x_, mu, s) for x_ in xs]).detach())
        w0 = w0 / w0.sum()
    else:
        w0 = torch.full((max(len(xs), 1),), 1.0 / max(len(xs), 1), dtype=DT)

    def ref_value(k):
        fv = torch.stack([f_math(x_, a, b) * (2.0 if k == 1 else 1.0) for x_ in xs])
        lps = torch.stack([logp_math(x_, mu, s) for x_ in xs])
        return surrogate(fv, lps, w0)
    if sampler == "mh":
        with torch.no_grad():
            whym = mh_continuity(x0, [c[2] for c in fwd if c[0] == "logp"], xs, lambda x_: logp_math(x_, mu, s), nburn, nsamples)
        verd.append(["mh_samples_continue_the_burned_in_chain", whym is None])
        if whym:
            cfg["mh_chain"] = whym
    if len(xs) > 0:
        for k, o in enumerate(outs):
            rv = ref_value(k)
            verd.append(["value_is_weighted_mean_%d" % k, bool(torch.allclose(o, rv, atol=1e-12, rtol=1e-10)) and o.shape == rv.shape])
        verd.append(["weights_sum_to_one", abs(float(w0.sum()) - 1.0) < 1e-12])
    # ---- gradients
    del log[:]
    leaves = leaves_f + leaves_p + [junk]
    wv = torch.tensor([0.7, -1.1], dtype=DT)
    bexc = None
    g1 = None
    try:
        L = sum((o * wv).sum() for o in outs)
        g1 = torch.autograd.grad(L, leaves, create_graph=True, allow_unused=True)
    except Exception as e:
        bexc = e
    bwd = list(log)
    if bexc is not None:
        verd.append(["backward_without_error", False])
        cfg["bexc"] = "%s: %s" % (type(bexc).__name__, str(bexc)[:120])
    else:
        bf = [c for c in bwd if c[0] == "f"][1:]          # first call: structure probe of the inner mcquad
        bl = [c for c in bwd if c[0] == "logp"][1:]
        ev.append({"a": "backward", "nf": len(bf), "nlogp": len(bl), "at": [c[1] for c in bf],
                   "same_points": all(torch.equal(c[2], x_) for c, x_ in zip(bf, xs)) and all(torch.equal(c[2], x_) for c, x_ in zip(bl, xs))})
        if len(xs) > 0:
            Lr = sum((ref_value(k) * wv).sum() for k in range(len(outs)))
            r1 = torch.autograd.grad(Lr, leaves_f + leaves_p, create_graph=True)
            ok1f = all(torch.allclose(x if x is not None else torch.zeros_like(y), y, atol=1e-10, rtol=1e-8) for x, y in zip(g1[:2], r1[:2]))
            ok1p = all(torch.allclose(x if x is not None else torch.zeros_like(y), y, atol=1e-10, rtol=1e-8) for x, y in zip(g1[2:4], r1[2:4]))
            verd.append(["grad_f_is_mean_df", bool(ok1f)])
            verd.append(["grad_p_is_score_estimator", bool(ok1p)])
            verd.append(["unused_tensor_zero_grad", g1[4] is None or float(g1[4].detach().abs().max()) == 0.0])
            verd.append(["backward_on_same_points", bool(ev[-1]["same_points"])])
            try:
                c2 = [torch.cos(torch.arange(x.numel(), dtype=DT) + 1.0).reshape(x.shape) for x in r1]
                S = sum((x * c).sum() for x, c in zip(g1[:4], c2) if x is not None)
                Sr = sum((x * c).sum() for x, c in zip(r1, c2))
                g2 = torch.autograd.grad(S, leaves_f + leaves_p, allow_unused=True)
                r2 = torch.autograd.grad(Sr, leaves_f + leaves_p, allow_unused=True)
                # (absolute tolerance relative to the largest second-order entry: far from the mode the scores are O(100) and small entries
                # are differences of large terms)
                with torch.no_grad():
                    score = max(float(((x_ - mu) / s ** 2).abs().max()) for x_ in xs)
                sc2 = max([1.0, score ** 2] + [float(y.abs().max()) for y in r2 if y is not None])
                ok2 = all(torch.allclose(x if x is not None else torch.zeros_like(l), y if y is not None else torch.zeros_like(l), atol=1e-9 * sc2, rtol=1e-7)
                          for x, y, l in zip(g2, r2, leaves_f + leaves_p))
                verd.append(["second_order_matches_surrogate", bool(ok2)])
            except Exception as e:
                verd.append(["second_order_without_error", False])
                cfg["bexc2"] = "%s: %s" % (type(e).__name__, str(e)[:120])
    ev.append({"a": "ret", "verdicts": verd})
    return {"tid": tid, "cfg": cfg, "ev": ev}


def safe_case(tid, sampler, nsamples, nburn, placement, seed, **kw):
    """the verdict computation assumes the observed call sequence has the protocol's structure (e.g. as many integrand calls as
    samples); if it does not even have that, the run is reported as a trace whose return event fails (never a harness crash)"""
    try:
        return run_case(tid, sampler, nsamples, nburn, placement, seed, **kw)
    except Exception as e:
        cfg = {"sampler": sampler if sampler != "_dummy1d" else "dummy1d", "nsamples": nsamples, "nburn": nburn, "placement": placement, "seed": seed,
               "tuple": bool(kw.get("tuple_out")), "bck_options_given": bool(kw.get("bck")), "observation_error": "%s: %s" % (type(e).__name__, str(e)[:160])}
        return {"tid": tid, "cfg": cfg, "ev": [{"a": "ret", "verdicts": [["observed_calls_have_the_protocol_structure", False]]}]}


def extra_numeric(ctx):
    """constant integrand, linearity, mh statistics at 6 sigma"""
    n = 0
    x0 = torch.zeros(1, dtype=DT)
    step = lambda x, *p: x + 1.0
    cst = torch.tensor([1.5, -2.0], dtype=DT)
    lp = lambda x, mu: (-0.5 * (x - mu) ** 2).sum()
    mu = torch.tensor([0.3], dtype=DT)
    for sampler, o in (("mhcustom", dict(nsamples=5, nburnout=3, custom_step=step)), ("mh", dict(nsamples=40, nburnout=10)),
                       ("_dummy1d", dict(nsamples=20, lb=-3.0, ub=3.0))):
        n += 1
        ctx.case(key=("const", sampler))
        torch.manual_seed(3)
        out = xitorch.integrate.mcquad(lambda x: cst + 0 * x.sum(), lp, x0, pparams=(mu,), method=sampler, **o)
        if not torch.allclose(out, cst, atol=1e-12):
            ctx.violation("mc/%s/constant" % sampler, "constant integrand %s returned %s with sampler %s" % (cst.tolist(), out.tolist(), sampler), {"sampler": sampler})
        n += 1
        ctx.case(key=("linear", sampler))
        f1 = lambda x: torch.stack([x.sum(), (x ** 2).sum()])
        f2 = lambda x: torch.stack([torch.cos(x).sum(), x.sum() ** 3])
        torch.manual_seed(3)
        o1 = xitorch.integrate.mcquad(f1, lp, x0, pparams=(mu,), method=sampler, **o)
        torch.manual_seed(3)
        o2 = xitorch.integrate.mcquad(f2, lp, x0, pparams=(mu,), method=sampler, **o)
        torch.manual_seed(3)
        o3 = xitorch.integrate.mcquad(lambda x: 2.0 * f1(x) - 0.5 * f2(x), lp, x0, pparams=(mu,), method=sampler, **o)
        if not torch.allclose(o3, 2.0 * o1 - 0.5 * o2, atol=1e-10):
            ctx.violation("mc/%s/linearity" % sampler, "mcquad is not linear in the integrand with sampler %s" % sampler, {"sampler": sampler})
    # integrand and density are methods of ONE object and share a tensor (a model with its own sampling density): the same values and
    # first / second order gradients as the function form with explicit parameters
    def shared_f(x, a, c):
        return torch.stack([a * x.sum() + c ** 2, torch.sin(c * x.sum()) * a])

    def shared_lp(x, mu, c):
        return (-0.5 * (x - mu) ** 2 * c ** 2).sum()

    class SharedE(EditableModule):
        def __init__(self, a, mu, c):
            self.a, self.mu, self.c = a, mu, c

        def f(self, x):
            return shared_f(x, self.a, self.c)

        def logp(self, x):
            return shared_lp(x, self.mu, self.c)

        def getparamnames(self, methodname, prefix=""):
            return [prefix + "a", prefix + "c"] if methodname == "f" else [prefix + "mu", prefix + "c"]

    class SharedN(torch.nn.Module):
        def __init__(self, a, mu, c):
            super().__init__()
            self.a, self.mu, self.c = torch.nn.Parameter(a), torch.nn.Parameter(mu), torch.nn.Parameter(c)

        def f(self, x):
            return shared_f(x, self.a, self.c)

        def logp(self, x):
            return shared_lp(x, self.mu, self.c)

    hstep = lambda x, *p: x * 0.5 + 0.4
    wv = torch.tensor([0.7, -1.3], dtype=DT)
    for sampler, o in (("mhcustom", dict(nsamples=5, nburnout=2, custom_step=hstep)), ("_dummy1d", dict(nsamples=12, lb=-2.0, ub=2.0))):
        vals = [torch.tensor(0.8, dtype=DT), torch.tensor([0.3], dtype=DT), torch.tensor(0.6, dtype=DT)]
        lv = [v.clone().requires_grad_() for v in vals]
        oref = xitorch.integrate.mcquad(shared_f, shared_lp, x0, fparams=(lv[0], lv[2]), pparams=(lv[1], lv[2]), method=sampler, **o)
        gref = torch.autograd.grad((oref * wv).sum(), lv, create_graph=True)
        href = torch.autograd.grad(sum((g_ * g_).sum() for g_ in gref), lv)
        for kind in ("EditableModule", "nn.Module"):
            n += 1
            ctx.case(key=("shared-object", sampler, kind))
            try:
                if kind == "EditableModule":
                    l2 = [v.clone().requires_grad_() for v in vals]
                    obj = SharedE(*l2)
                else:
                    obj = SharedN(*[v.clone() for v in vals])
                    l2 = [obj.a, obj.mu, obj.c]
                out = xitorch.integrate.mcquad(obj.f, obj.logp, x0, method=sampler, **o)
                g = torch.autograd.grad((out * wv).sum(), l2, create_graph=True)
                h = torch.autograd.grad(sum((g_ * g_).sum() for g_ in g), l2)
                why = None
                if not torch.allclose(out, oref, atol=1e-10):
                    why = "value differs from the function form"
                for nm_, a_, b_ in zip(("a (integrand only)", "mu (density only)", "c (shared)"), g, gref):
                    if why is None and not torch.allclose(a_, b_, atol=1e-9, rtol=1e-8):
                        why = "first-order gradient w.r.t. %s is %s, the function form gives %s" % (nm_, a_.tolist(), b_.tolist())
                for nm_, a_, b_ in zip(("a (integrand only)", "mu (density only)", "c (shared)"), h, href):
                    if why is None and not torch.allclose(a_, b_, atol=1e-8, rtol=1e-7):
                        why = "second-order gradient w.r.t. %s is %s, the function form gives %s" % (nm_, a_.tolist(), b_.tolist())
                if why is None and any(x_ is not y_ for x_, y_ in zip((obj.a, obj.mu, obj.c), l2)):
                    why = "the object holds other tensors afterwards"
            except Exception as e:
                why = "raised %s: %s" % (type(e).__name__, str(e)[:160])
            if why:
                ctx.violation("mc/%s/shared-object" % sampler, "integrand and density as two methods of one %s sharing a tensor (sampler %s): %s" % (kind, sampler, why),
                              {"sampler": sampler, "kind": kind})
    # mh: E[x] and E[x^2] of N(mu, 1) within 6 sigma (effective sample size bounded below by nsamples/50 for step 1.0)
    for seed in range(ctx.seed, ctx.seed + (12 if ctx.tier == "thorough" else 3)):
        n += 1
        ctx.case(key=("mh-stat", seed))
        torch.manual_seed(seed)
        ns = 4000
        out = xitorch.integrate.mcquad(lambda x: torch.stack([x.sum(), (x ** 2).sum()]), lp, x0, pparams=(mu,), method="mh", nsamples=ns, nburnout=500, step_size=1.0)
        sig = 6.0 * math.sqrt(50.0 / ns)
        if abs(float(out[0]) - 0.3) > sig * 1.0 or abs(float(out[1]) - (1.0 + 0.09)) > sig * 1.5:
            ctx.violation("mc/mh/statistics", "mh estimate %s of (E x, E x^2) = (0.3, 1.09) outside 6 sigma (seed %d)" % (out.tolist(), seed), {"seed": seed})
    return n


def key_of(t, ev):
    c = t["cfg"]
    if ev is None:
        return "mc/%s/incomplete" % c["sampler"]
    if ev["a"] == "ret":
        failed = [n for n, ok in ev["verdicts"] if not ok]
        if "unused_tensor_zero_grad" in failed or "backward_without_error" in failed and "unused" in str(c.get("bexc", "")):
            return "mc/unused-tensor-raises-in-backward"
        if "backward_without_error" in failed:
            return "mc/%s/backward-raises" % c["sampler"]
        if failed:
            return "mc/%s/%s" % (c["sampler"], "+".join(failed))
        return "mc/%s/protocol-at-return" % c["sampler"]
    return "mc/%s/protocol/%s" % (c["sampler"], ev["a"])


def run(ctx):
    thorough = ctx.tier == "thorough"
    base = dict(Samplers={"mh", "mhcustom", "dummy1d"}, MaxN=4 if not thorough else 6)
    base.update(INTENDED)
    t, cf = tlcmod.gen_mc(ctx.work, "McChain", "MC_Mc", base, invariants=INVS)
    r = ctx.model_check(t, cf, workers=8, coverage=True, label="exhaustive", timeout=600)
    ctx.check_coverage(r, ["BurnStep", "StartCollect", "CollectStep", "Quadrature", "Integrate", "Backward"])
    ctx.check_proof("McChain_proofs")          # the same invariants for every nsamples and nburnout (chain samplers)
    for sw, val, inv in (("CollectFrom", "x0", None), ("CollectCount", "nburn", "CountOK"), ("BurnSteps", "n-1", "AfterBurnIn"), ("BwdOnSamples", False, "BackwardOnSamples")):
        c = dict(base)
        c[sw] = val
        t, cf = tlcmod.gen_mc(ctx.work, "McChain", "MC_Mc_dev_" + sw, c, invariants=INVS)
        ctx.expect_violation(t, cf, inv=inv, label="deviation %s=%s" % (sw, val), workers=4, timeout=300)
    traces = []
    tid = 0
    grid = [(ns, nb) for ns in (1, 2, 3, 4) for nb in (0, 1, 2, 3, 4)] + [(7, 5), (12, 9)]
    if thorough:
        grid += [(ns, nb) for ns in (5, 6, 20) for nb in (0, 5, 6, 11)]
    for sampler in ("mhcustom", "mh", "dummy1d"):
        for (ns, nb) in grid:
            if sampler == "dummy1d" and nb != 0:
                continue
            for placement in ("explicit", "object"):
                for tup in ((False, True) if (ns, nb) in ((3, 2), (4, 0)) else (False,)):
                    tid += 1
                    tr = safe_case(tid, sampler, ns, nb, placement, ctx.seed + tid, tuple_out=tup)
                    traces.append(tr)
                    ctx.case(key=(sampler, ns, nb, placement, tup))
                if placement == "explicit" and (ns, nb) in ((3, 2), (4, 0), (2, 1), (1, 0)):
                    tid += 1
                    traces.append(safe_case(tid, sampler, ns, nb, placement, ctx.seed + tid, bck=True))
                    ctx.case(key=(sampler, ns, nb, placement, "bck_options"))
    # mh started far from the typical set: the burn-in moves the chain (every uphill proposal is accepted with certainty), so where the
    # collection starts from is observable
    for (ns, nb) in ((1, 8), (3, 8), (5, 12)) + (((2, 20), (6, 6)) if thorough else ()):
        for placement in ("explicit", "object"):
            for x0v in (25.0, -40.0):
                tid += 1
                traces.append(safe_case(tid, "mh", ns, nb, placement, ctx.seed + tid, x0val=x0v))
                ctx.case(key=("mh-far-start", ns, nb, placement, x0v))
    rej = ctx.validate_traces("Trace_McChain.tla", "Trace_McChain.cfg", traces, shards=12)

    def m_verdict(t):
        if t["ev"][-1]["a"] == "ret":
            t["ev"][-1]["verdicts"][0][1] = False
            return t

    def m_drop_step(t):
        ss = [j for j, e in enumerate(t["ev"]) if e["a"] == "step"]
        if t["cfg"]["sampler"] == "mhcustom" and ss:
            del t["ev"][ss[0]]                               # one sampler step is missing
            return t

    def m_points(t):
        for e in t["ev"]:
            if e["a"] == "integrate" and t["cfg"]["sampler"] == "mhcustom" and e["at"]:
                e["at"][0] = int(e["at"][0]) + 1             # the integrand is averaged over another point than the recorded sample
                return t

    def m_bwd(t):
        for e in t["ev"]:
            if e["a"] == "backward" and t["cfg"]["sampler"] == "mhcustom" and e["at"]:
                e["at"][-1] = int(e["at"][-1]) + 1           # the backward pass evaluates on another point
                return t
    ctx.binding_selftest("Trace_McChain.tla", "Trace_McChain.cfg", traces, rej,
                         [("verdict false", m_verdict), ("step missing", m_drop_step), ("other sample point", m_points), ("backward on other point", m_bwd)])
    bytid = {t["tid"]: t for t in traces}
    for tid_, matched, total in rej:
        t = bytid[tid_]
        ev = t["ev"][matched] if matched < len(t["ev"]) else None
        ctx.violation(key_of(t, ev), "mcquad %s not explained by McChain at event %d/%d: %s; previous: %s"
                      % (json.dumps(t["cfg"]), matched + 1, total, json.dumps(ev)[:600], json.dumps(t["ev"][max(0, matched - 3):matched])[:400]), {"cfg": t["cfg"]})
    with warnings.catch_warnings():
        warnings.simplefilter("ignore")
        nx = extra_numeric(ctx)
    from vlib import gradpattern
    ctx.replayed = gradpattern.replay(ctx, ["mcquad"], "mc")
    from vlib import objstate
    ctx.replayed += objstate.replay(ctx, ["mcquad"], "mc")
    from vlib import bwdreuse
    ctx.replayed += bwdreuse.replay(ctx, ["mcquad"], "mc", sample=(120 if ctx.tier == "thorough" else 20))
    ctx.samples.append(traces[7])
    ctx.notes.update(executions=len(traces), extra_numeric_cases=nx)
    ctx.assumptions += [
        "deterministic custom_step x -> x + 1 from x0 = 0 makes chain positions observable as the values of x; for mh only the number and order of calls is bound",
        "'after nburnout burn-in steps' is read in its weakest form: the first recorded state has seen >= nburnout steps (step-then-record and record-then-step both accepted)",
        "gradient reference: self-normalised surrogate sum_i w_i r_i f_i / sum_i w_i r_i with r_i = exp(logp_i - stopgrad(logp_i)), whose derivatives of every order reproduce the score-function rule on fixed samples",
        "mh statistics at 6 sigma with an effective sample size bound nsamples/50",
        "TLC, SANY"]
    return ctx.finish(
        rule="case = (sampler, nsamples, nburnout, parameter placement, tuple output); every recorded call sequence must be a behaviour of McChain "
             "(positions bound for mhcustom) and the ret event's verdicts (weighted mean on the observed points, weights, gradients of first and second "
             "order, zero gradient for unused tensors, backward on the same points) must all hold")


def replay(data):
    print(data["what"])
    return 1
