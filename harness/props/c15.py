"""C15 - SQuad integrates the interpolant of the samples exactly.

Specs: SQuadW.tla (+Rat.tla): exact rational weight matrices of the trapezoid and Simpson cumulative rules on integer
grids; SQuadShape.tla: shape table of cumsum / integrate for every rank, dim and keepdim.  Every TLC-computed row /
shape case is executed on the real SQuad (weights obtained by integrating unit vectors); the cubic-spline rule is
compared with scipy's CubicSpline antiderivative.
"""
import os
import warnings
from fractions import Fraction

import numpy as np
import torch
import xitorch
import xitorch.integrate
from scipy.interpolate import CubicSpline

from vlib import tlc as tlcmod
from vlib.tlc import RawTla
from vlib.ctx import Machinery

DT = torch.float64
GRIDS = [[0, 1], [0, 2, 3], [0, 1, 3, 4], [-1, 0, 2, 3, 6], [0, 1, 2, 4, 5, 7], [0, 3, 4, 5, 7, 8, 9]]


def fr(p):
    return Fraction(int(p[0]), int(p[1]))


def run(ctx):
    thorough = ctx.tier == "thorough"
    c = dict(Grids=RawTla("{" + ", ".join(tlcmod.tla(g) for g in GRIDS) + "}"))
    t, cf = tlcmod.gen_mc(ctx.work, "SQuadW", "MC_SQW", c, invariants=["ConstantExact", "FirstZero", "LinearExact"])
    dot = os.path.join(ctx.work, "sq.dot")
    ctx.model_check(t, cf, workers=8, dump_dot=dot, label="exact weight rows", timeout=600)
    nodes, inits, edges = tlcmod.parse_dot(dot)
    os.remove(dot)
    n = 0
    cache = {}
    with warnings.catch_warnings():
        warnings.simplefilter("ignore")
        for st in sorted(nodes.values(), key=lambda s: (len(s["x"]), s["method"], s["i"])):
            x, method, i = list(st["x"]), st["method"], int(st["i"])
            n += 1
            ctx.case(key=("weights", tuple(x), method, i), sample={"x": x, "method": method, "row": i, "spec_weights": [str(fr(p)) for p in st["row"]]} if n % 23 == 1 else None)
            key = (tuple(x), method)
            if key not in cache:
                try:
                    sq = xitorch.integrate.SQuad(torch.tensor(x, dtype=DT), method=method)
                    W = sq.cumsum(torch.eye(len(x), dtype=DT), dim=-1).T        # W[i][j] = weight of y_j in cumsum[i]
                    I = sq.integrate(torch.eye(len(x), dtype=DT), dim=-1)
                    cache[key] = (W, I, None)
                except Exception as e:
                    cache[key] = (None, None, "%s: %s" % (type(e).__name__, str(e)[:100]))
            W, I, err = cache[key]
            if err:
                ctx.violation("squad/%s/raise" % method, "SQuad(%s) on x=%s raised %s" % (method, x, err), {"x": x, "method": method})
                continue
            exp = [float(fr(p)) for p in st["row"]]
            alt = [float(fr(p)) for p in st["rowAlt"]]
            got = W[i - 1].tolist() if W.dim() == 2 and W.shape == (len(x), len(x)) else None
            why = None
            if got is None:
                why = "weight matrix has shape %s" % (tuple(W.shape),)
            elif not (np.allclose(got, exp, atol=1e-13) or np.allclose(got, alt, atol=1e-13)):
                why = "cumsum weights of sample %d are %s, exact %s%s" % (i, [round(v, 12) for v in got], [str(fr(p)) for p in st["row"]],
                                                                       "" if exp == alt else " (or %s)" % [str(fr(p)) for p in st["rowAlt"]])
            elif i == len(x) and not np.allclose(I.reshape(-1).tolist(), got, atol=1e-13):
                why = "integrate differs from the last entry of cumsum"
            if why:
                ctx.violation("squad/%s/weights" % method, "SQuad(%s) x=%s: %s" % (method, x, why), {"x": x, "method": method, "i": i})
        # shape table
        c2 = dict(MaxRank=4, NX=5)
        t, cf = tlcmod.gen_mc(ctx.work, "SQuadShape", "MC_SQS", c2, invariants=["Sane"])
        dot = os.path.join(ctx.work, "sqs.dot")
        ctx.model_check(t, cf, workers=4, dump_dot=dot, label="shape table", timeout=300)
        snodes, _, _ = tlcmod.parse_dot(dot)
        os.remove(dot)
        xs = torch.tensor([0.0, 0.5, 1.5, 2.0, 3.5], dtype=DT)
        for st in snodes.values():
            rank, dim, keepdim, mismatch, pred = int(st["rank"]), int(st["dim"]), bool(st["keepdim"]), str(st["mismatch"]), st["pred"]
            unit = int(st["unit"])
            pos = dim + rank if dim < 0 else dim
            shape = [{"none": 5, "longer": 6, "shorter": 4, "one": 1}[mismatch] if k == pos else (1 if k + 1 == unit else k + 2) for k in range(rank)]
            for method in ("trapz", "simpson", "cspline"):
                n += 1
                ctx.case(key=("shape", rank, dim, keepdim, mismatch, unit, method))
                y = torch.randn(*shape, dtype=DT)
                sq = xitorch.integrate.SQuad(xs, method=method)
                why = None
                try:
                    if not pred["ok"]:
                        # each entry point on its own: a wrong length must be rejected by both
                        for nm_, fn_ in (("cumsum", lambda: sq.cumsum(y, dim=dim)), ("integrate", lambda: sq.integrate(y, dim=dim, keepdim=keepdim))):
                            try:
                                r_ = fn_()
                                why = "%s accepted a y of length %d along dim for %d sample positions (result shape %s)" % (nm_, shape[pos], 5, list(r_.shape))
                                break
                            except (RuntimeError, ValueError, IndexError, AssertionError):
                                pass
                    else:
                        cs = sq.cumsum(y, dim=dim)
                        it = sq.integrate(y, dim=dim, keepdim=keepdim)
                        if list(cs.shape) != list(pred["cumsum"]):
                            why = "cumsum shape %s, specification %s" % (list(cs.shape), list(pred["cumsum"]))
                        elif list(it.shape) != list(pred["integrate"]):
                            why = "integrate(keepdim=%s) shape %s, specification %s" % (keepdim, list(it.shape), list(pred["integrate"]))
                        else:
                            # acts independently on all other dimensions: compare with the 1-D rule applied fibre by fibre
                            ym = y.movedim(pos, -1).reshape(-1, 5)
                            ref_cs = torch.stack([sq.cumsum(r, dim=-1).reshape(5) for r in ym]).reshape(*y.movedim(pos, -1).shape).movedim(-1, pos)
                            last = cs.movedim(pos, -1)[..., -1]
                            first = cs.movedim(pos, -1)[..., 0]
                            itc = it.squeeze(pos) if keepdim else it
                            if not torch.allclose(cs, ref_cs, atol=1e-12):
                                why = "cumsum does not act independently on the other dimensions"
                            elif float(first.abs().max()) > 1e-13:
                                why = "first entry of cumsum is not zero"
                            elif not torch.allclose(last, itc, atol=1e-12):
                                why = "integrate differs from the last entry of cumsum (values in wrong positions?)"
                except RuntimeError as e:
                    if pred["ok"]:
                        why = "raised RuntimeError: %s" % str(e)[:100]
                except Exception as e:
                    why = "raised %s: %s" % (type(e).__name__, str(e)[:100])
                if why:
                    kk = "squad/shape/rank1" if (rank == 1 and method != "cspline") else ("squad/shape/integrate-keepdim-false" if ("integrate" in why and not keepdim) else "squad/shape/%s" % method)
                    ctx.violation(kk, "SQuad(%s) y shape %s dim=%d keepdim=%s: %s" % (method, shape, dim, keepdim, why), {"shape": shape, "dim": dim, "keepdim": keepdim, "method": method})
        # cubic spline rule against scipy's antiderivative, linearity
        rng = np.random.RandomState(ctx.seed)
        for nk in (4, 5, 8, 13) + ((30,) if thorough else ()):
            for bc, how in [(b_, h_) for b_ in ("natural", "not-a-knot", "clamped") for h_ in ("named", "default", "mixed-case")]:
                # the method named, left at its documented default (cspline), or named in another case
                n += 1
                ctx.case(key=("cspline", nk, bc, how))
                xk = np.sort(np.concatenate([[0.0, 1.0], rng.rand(nk - 2)]))
                yk = np.cos(3 * xk) + xk
                try:
                    mkw = {"named": {"method": "cspline"}, "default": {}, "mixed-case": {"method": "CSpline"}}[how]
                    sq = xitorch.integrate.SQuad(torch.tensor(xk, dtype=DT), bc_type=bc, **mkw)
                    cs = sq.cumsum(torch.tensor(yk, dtype=DT))
                    ref = CubicSpline(xk, yk, bc_type=bc).antiderivative()
                    refv = ref(xk) - ref(xk[0])
                    if not np.allclose(cs.numpy(), refv, atol=1e-10):
                        ctx.violation("squad/cspline/%s" % bc, "SQuad cspline(%s, method %s) on %d knots differs from scipy's spline antiderivative by %.2e" % (bc, how, nk, float(np.abs(cs.numpy() - refv).max())),
                                      {"bc": bc, "nk": nk, "how": how})
                    y2 = torch.tensor(np.sin(xk), dtype=DT)
                    lin = sq.cumsum(2.0 * torch.tensor(yk, dtype=DT) - 0.5 * y2)
                    if not torch.allclose(lin, 2.0 * cs - 0.5 * sq.cumsum(y2), atol=1e-11):
                        ctx.violation("squad/cspline/linearity", "SQuad cspline is not linear in y", {"bc": bc})
                except Exception as e:
                    ctx.violation("squad/cspline/%s/raise" % bc, "SQuad cspline(%s) on %d knots raised %s: %s" % (bc, nk, type(e).__name__, str(e)[:100]), {"bc": bc, "nk": nk})
        for dtype in (torch.float32,):
            n += 1
            ctx.case(key=("dtype", str(dtype)))
            xs32 = torch.tensor([0.0, 1.0, 3.0, 4.0], dtype=dtype)
            for method in ("trapz", "simpson", "cspline"):
                out = xitorch.integrate.SQuad(xs32, method=method).cumsum(torch.tensor([1.0, 2.0, 0.0, 1.0], dtype=dtype))
                if out.dtype != dtype:
                    ctx.violation("squad/dtype", "SQuad(%s) returns %s for %s input" % (method, out.dtype, dtype), {"method": method})
    from vlib import layoutinv
    nlay = layoutinv.replay(ctx, ["squad:simpson", "squad:cspline"], "squad")
    from vlib import bufferreuse
    nlay += bufferreuse.replay(ctx, ["squad-instance:cspline", "squad-instance:simpson", "squad:cspline"], "squad")
    ctx.replayed = len(nodes) + len(snodes) + nlay
    ctx.notes.update(cases=n, weight_rows=len(nodes), shape_rows=len(snodes))
    ctx.exhaustive = True
    ctx.assumptions += [
        "weights are observed by integrating the unit vectors (the rules are linear in y) and compared with TLC's exact rationals to 1e-13",
        "Simpson, second sample: trapezoid of the first interval or parabola through the first three points are both accepted (the statement does not decide)",
        "cubic spline rule: scipy CubicSpline(...).antiderivative() as reference (1e-10)",
        "TLC, SANY"]
    return ctx.finish(rule="case = (grid, method, row) exact weights | (rank, dim, keepdim, length mismatch, method) shape table | cubic spline (knots, boundary condition) | dtype")


def replay(data):
    print(data["what"])
    return 1
