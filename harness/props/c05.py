"""C05 - symeig and svd return the requested, correctly normalised spectral pairs.

Specs: EigSel.tla (which pairs: index arithmetic for every n, neig, mode; svd branch and default k), Davidson.tla
(subspace growth, stop reasons, best-pair return).  TLC enumerates; every EigSel row is executed on the real
functions with matrices of prescribed spectrum (incl. exact degeneracies) and compared with the dense generalised
eigendecomposition at the predicted indices; Davidson runs are observed through a counting operator and validated by
TLC against Trace_Davidson.tla, with the numeric verdicts in the final event.
"""
import json
import os
import warnings

import numpy as np
import scipy.linalg
import torch
import xitorch
import xitorch.linalg
from xitorch import LinearOperator

from vlib import tlc as tlcmod
from vlib.ctx import Machinery

DT = torch.float64
SPECTRA = {
    "separated": lambda n: np.linspace(-1.0, 2.0, n) + 0.05 * np.arange(n) ** 2,
    "clustered": lambda n: np.array([1.0 + 1e-4 * i if i < n // 2 + 1 else 2.0 + 0.7 * i for i in range(n)]),
    "degenerate": lambda n: np.array([0.5] * max(2, n // 2) + [1.5 + i for i in range(n - max(2, n // 2))])[:n],
    "mixedsign": lambda n: np.array([(-1.0) ** i * (0.3 + 0.4 * i) for i in range(n)]),
}


def herm(n, spec, batch, dtype, g):
    q = torch.randn(*batch, n, n, generator=g, dtype=torch.float64)
    if dtype.is_complex:
        q = q + 1j * torch.randn(*batch, n, n, generator=g, dtype=torch.float64)
    q, _ = torch.linalg.qr(q.to(dtype))
    d = torch.tensor(np.sort(spec), dtype=torch.float64).to(dtype)
    return (q * d) @ q.transpose(-2, -1).conj()


def spd(n, batch, dtype, g):
    return herm(n, np.linspace(0.7, 1.6, n), batch, dtype, g)


class HermOp(LinearOperator):
    """matrix-free Hermitian operator that counts the columns it is applied to"""

    def __init__(self, mat, log=None):
        super().__init__(shape=mat.shape, is_hermitian=True, dtype=mat.dtype, device=mat.device)
        self.mat = mat
        self.log = log

    def _mv(self, x):
        if self.log is not None:
            self.log.append(1)
        return torch.matmul(self.mat, x.unsqueeze(-1)).squeeze(-1)

    def _mm(self, x):
        if self.log is not None:
            self.log.append(int(x.shape[-1]))
        return torch.matmul(self.mat, x)

    def _getparamnames(self, prefix=""):
        return [prefix + "mat"]


def dense_ref(Am, Mm):
    """ascending generalised eigenvalues / M-orthonormal vectors, batch by batch"""
    A = Am.reshape(-1, *Am.shape[-2:]).numpy()
    if Mm is None:
        return [np.linalg.eigvalsh(a) for a in A]
    bshape = torch.broadcast_shapes(Am.shape[:-2], Mm.shape[:-2])
    A = Am.expand(*bshape, *Am.shape[-2:]).reshape(-1, *Am.shape[-2:]).numpy()
    M = Mm.expand(*bshape, *Mm.shape[-2:]).reshape(-1, *Mm.shape[-2:]).numpy()
    return [scipy.linalg.eigh(a, m, eigvals_only=True) for a, m in zip(A, M)]


def verdicts_symeig(evals, evecs, Am, Mm, idx, tol):
    n = Am.shape[-1]
    bshape = torch.broadcast_shapes(Am.shape[:-2], Mm.shape[:-2]) if Mm is not None else Am.shape[:-2]
    k = len(idx)
    v = []
    v.append(["shape", tuple(evals.shape) == (*bshape, k) and tuple(evecs.shape) == (*bshape, n, k)])
    if not v[-1][1]:
        return v
    ref = dense_ref(Am, Mm)
    ev = evals.reshape(-1, k).numpy()
    ok_sel = all(np.allclose(e, r[[i - 1 for i in idx]], atol=tol * 10, rtol=tol * 10) for e, r in zip(ev, ref))
    v.append(["are_the_requested_extreme_eigenvalues", bool(ok_sel)])
    v.append(["ascending", bool(np.all(np.diff(ev.real, axis=-1) >= -tol))])
    AX = Am @ evecs
    MX = (Mm @ evecs) if Mm is not None else evecs
    resid = AX - MX * evals.unsqueeze(-2)
    v.append(["AX_equals_MXE", float(resid.abs().max()) <= tol * 50 * (1 + float(Am.abs().max()))])
    G = evecs.transpose(-2, -1).conj() @ MX
    v.append(["XH_M_X_is_identity", bool(torch.allclose(G, torch.eye(k, dtype=G.dtype).expand_as(G), atol=tol * 50))])
    return v


def run(ctx):
    thorough = ctx.tier == "thorough"
    g = torch.Generator().manual_seed(ctx.seed + 3)
    # ---- EigSel table
    c = dict(MaxN=5 if not thorough else 6, UppestTakesLast=True, LowestTakesFirst=True)
    t, cf = tlcmod.gen_mc(ctx.work, "EigSel", "MC_EigSel", c, invariants=["Ascending", "Extreme"])
    dot = os.path.join(ctx.work, "es.dot")
    ctx.model_check(t, cf, workers=8, dump_dot=dot, label="selection table", timeout=600)
    nodes, _, _ = tlcmod.parse_dot(dot)
    os.remove(dot)
    for sw in ("UppestTakesLast", "LowestTakesFirst"):
        c2 = dict(c)
        c2[sw] = False
        t, cf = tlcmod.gen_mc(ctx.work, "EigSel", "MC_EigSel_dev_" + sw, c2, invariants=["Ascending", "Extreme"])
        ctx.expect_violation(t, cf, inv="Extreme", label="deviation " + sw, workers=4, timeout=300)
    nrows = 0
    with warnings.catch_warnings():
        warnings.simplefilter("ignore")
        for st in sorted(nodes.values(), key=lambda s: (s["fn"], s["m"], s["n"], s["k"], s["kGiven"], s["mode"])):
            fn, m, n, k, kGiven, mode, pred = st["fn"], int(st["m"]), int(st["n"]), int(st["k"]), bool(st["kGiven"]), st["mode"], st["pred"]
            idx = [int(i) for i in pred["idx"]]
            if fn == "symeig":
                if n < 2:
                    continue
                combos = [("exacteig", False, "dense", (), DT), ("custom_exacteig", True, "dense", (), DT), ("davidson", False, "free", (), DT)]
                if (n + k) % 2 == 0 or thorough:
                    combos += [("exacteig", True, "dense", (2,), torch.complex128), ("davidson", True, "free", (), DT), ("custom_exacteig", False, "free", (2, 1), DT)]
                for (method, withM, opkind, batch, dtype) in combos:
                    spname = list(SPECTRA)[(n + k + len(method)) % len(SPECTRA)]
                    nrows += 1
                    ctx.case(key=("symeig", n, k, kGiven, mode, method, withM, opkind, batch, str(dtype), spname),
                             sample={"fn": fn, "n": n, "neig": k if kGiven else None, "mode": mode, "method": method, "M": withM, "spec_indices": idx, "spectrum": spname} if nrows % 60 == 1 else None)
                    Am = herm(n, SPECTRA[spname](n), batch, dtype, g)
                    Mm = spd(n, batch[-1:] if batch else (), dtype, g) if withM else None
                    A = LinearOperator.m(Am, is_hermitian=True) if opkind == "dense" else HermOp(Am)
                    M = (LinearOperator.m(Mm, is_hermitian=True) if opkind == "dense" else HermOp(Mm)) if withM else None
                    tol = 1e-9 if method != "davidson" else 1e-7
                    opts = {"min_eps": 1e-10} if method == "davidson" else {}
                    try:
                        with torch.no_grad():
                            if kGiven and nrows % 3 == 0 and mode in ("lowest", "uppest", "uppermost"):
                                # the documented shorthands lsymeig / usymeig
                                short = xitorch.linalg.lsymeig if mode == "lowest" else xitorch.linalg.usymeig
                                evals, evecs = short(A, neig=k, M=M, method=method, **opts)
                            else:
                                evals, evecs = xitorch.linalg.symeig(A, neig=k if kGiven else None, mode=mode, M=M, method=method, **opts)
                        vd = verdicts_symeig(evals, evecs, Am, Mm, idx, tol)
                        failed = [a for a, ok in vd if not ok]
                    except Exception as e:
                        failed = ["raised %s: %s" % (type(e).__name__, str(e)[:100])]
                    if failed:
                        sp_ = np.sort(SPECTRA[spname](n))
                        mult_ = max(int(np.sum(np.isclose(sp_, v))) for v in sp_)
                        dep = method == "davidson" and any("cholesky" in f for f in failed) and mult_ > len(idx)
                        ctx.violation("eig/davidson/dependent-expansion-vectors/multiplicity>neig" if dep else "eig/symeig/%s/%s" % (method, "+".join(f.split(":")[0] for f in failed)),
                                      "symeig(n=%d, neig=%s, mode=%s, method=%s, M=%s, %s operator, batch %s, %s, %s spectrum): %s; specification: pairs %s of the ascending spectrum"
                                      % (n, k if kGiven else None, mode, method, withM, opkind, batch, dtype, spname, failed, idx), {"n": n, "k": k, "mode": mode, "method": method})
            else:
                if mode == "uppermost":
                    continue
                for method in (("exacteig", "davidson") if (m + n + k) % 3 == 0 or thorough else ("exacteig",)):
                    nrows += 1
                    ctx.case(key=("svd", m, n, k, kGiven, mode, method))
                    Amat = torch.randn(m, n, generator=g, dtype=DT)
                    A = LinearOperator.m(Amat, is_hermitian=False)
                    why = None
                    try:
                        with torch.no_grad():
                            u, s, vh = xitorch.linalg.svd(A, k=k if kGiven else None, mode=mode, method=method, **({"min_eps": 1e-12} if method == "davidson" else {}))
                        kk = len(idx)
                        sref = np.sort(np.linalg.svd(Amat.numpy(), compute_uv=False))      # ascending, length min(m, n)
                        tol = 1e-8 if method == "exacteig" else 1e-6
                        if tuple(u.shape) != (m, kk) or tuple(s.shape) != (kk,) or tuple(vh.shape) != (kk, n):
                            why = "shapes u%s s%s vh%s, specification u(%d,%d) s(%d,) vh(%d,%d)" % (tuple(u.shape), tuple(s.shape), tuple(vh.shape), m, kk, kk, kk, n)
                        elif float(s.min()) < 0:
                            why = "negative singular value"
                        elif not np.allclose(np.sort(s.numpy()), sref[[i - 1 for i in idx]], atol=tol, rtol=tol):
                            why = "singular values %s are not the requested extreme ones %s" % (s.tolist(), sref[[i - 1 for i in idx]].tolist())
                        elif not torch.allclose(u.T @ u, torch.eye(kk, dtype=DT), atol=tol * 100) and float(s.min()) > 1e-6:
                            why = "columns of u are not orthonormal"
                        elif not torch.allclose(vh @ vh.T, torch.eye(kk, dtype=DT), atol=tol * 100) and float(s.min()) > 1e-6:
                            why = "rows of vh are not orthonormal"
                        elif not torch.allclose(Amat @ vh.T, u * s, atol=tol * 100):
                            why = "A v_i != s_i u_i"
                        elif kk == min(m, n) and not torch.allclose((u * s) @ vh, Amat, atol=tol * 100):
                            why = "U diag(S) V^H does not reproduce A at full k"
                    except Exception as e:
                        why = "raised %s: %s" % (type(e).__name__, str(e)[:100])
                    if why:
                        ctx.violation("eig/svd/%s" % method, "svd(%dx%d, k=%s, mode=%s, method=%s): %s" % (m, n, k if kGiven else None, mode, method, why), {"m": m, "n": n, "k": k})
                # rank-deficient operators (one singular value exactly zero: the Gram eigenvalue comes out as +-rounding): finite,
                # non-negative singular values, the requested ones, and the factors reproduce A at full k
                if min(m, n) >= 2:
                    nrows += 1
                    ctx.case(key=("svd-rank-deficient", m, n, k, kGiven, mode))
                    r_ = min(m, n) - 1
                    g_rd = torch.Generator().manual_seed(7000 + 100 * m + 10 * n + k + ctx.seed)
                    Amat = torch.randn(m, r_, generator=g_rd, dtype=DT) @ torch.randn(r_, n, generator=g_rd, dtype=DT)
                    why = None
                    try:
                        with torch.no_grad():
                            u, s, vh = xitorch.linalg.svd(LinearOperator.m(Amat, is_hermitian=False), k=k if kGiven else None, mode=mode)
                        kk = len(idx)
                        sref = np.sort(np.linalg.svd(Amat.numpy(), compute_uv=False))
                        if not (bool(torch.isfinite(s).all()) and bool(torch.isfinite(u).all()) and bool(torch.isfinite(vh).all())):
                            why = "non-finite entries in the factors (singular values %s)" % s.tolist()
                        elif tuple(u.shape) != (m, kk) or tuple(s.shape) != (kk,) or tuple(vh.shape) != (kk, n):
                            why = "shapes u%s s%s vh%s" % (tuple(u.shape), tuple(s.shape), tuple(vh.shape))
                        elif float(s.min()) < 0:
                            why = "negative singular value"
                        elif not np.allclose(np.sort(s.numpy()), sref[[i - 1 for i in idx]], atol=1e-6):
                            why = "singular values %s are not the requested extreme ones %s" % (s.tolist(), sref[[i - 1 for i in idx]].tolist())
                        elif kk == min(m, n) and not torch.allclose((u * s) @ vh, Amat, atol=1e-6):
                            why = "U diag(S) V^H does not reproduce A at full k"
                    except Exception as e:
                        why = "raised %s: %s" % (type(e).__name__, str(e)[:100])
                    if why:
                        ctx.violation("eig/svd/rank-deficient", "svd(%dx%d of rank %d, k=%s, mode=%s): %s" % (m, n, r_, k if kGiven else None, mode, why), {"m": m, "n": n, "k": k})
                # operators flagged Hermitian (kinds of operator: symmetric indefinite, symmetric positive definite): the singular values are
                # the MAGNITUDES of the eigenvalues, the requested ones are the extreme magnitudes whatever the signs
                if m == n and n >= 2:
                    for hkind in ("indefinite", "posdef"):
                        nrows += 1
                        ctx.case(key=("svd-hermitian-flagged", n, k, kGiven, mode, hkind))
                        g_h = torch.Generator().manual_seed(9000 + 10 * n + k + ctx.seed)
                        Q, _ = torch.linalg.qr(torch.randn(n, n, generator=g_h, dtype=DT))
                        ev = torch.arange(1, n + 1, dtype=DT) * 0.7 + 0.3
                        if hkind == "indefinite":
                            ev = ev * torch.tensor([(-1.0) ** (i + 1) for i in range(n)], dtype=DT)      # largest magnitudes alternate in sign
                        Amat = (Q * ev) @ Q.T
                        Amat = 0.5 * (Amat + Amat.T)
                        why = None
                        try:
                            with torch.no_grad():
                                u, s, vh = xitorch.linalg.svd(LinearOperator.m(Amat, is_hermitian=True), k=k if kGiven else None, mode=mode)
                            kk = len(idx)
                            sref = np.sort(np.abs(ev.numpy()))
                            if tuple(u.shape) != (n, kk) or tuple(s.shape) != (kk,) or tuple(vh.shape) != (kk, n):
                                why = "shapes u%s s%s vh%s" % (tuple(u.shape), tuple(s.shape), tuple(vh.shape))
                            elif float(s.min()) < 0:
                                why = "negative singular value"
                            elif not np.allclose(np.sort(s.numpy()), sref[[i - 1 for i in idx]], atol=1e-8):
                                why = "singular values %s are not the requested extreme ones %s (eigenvalues %s)" % (s.tolist(), sref[[i - 1 for i in idx]].tolist(), ev.tolist())
                            elif not torch.allclose(u.T @ u, torch.eye(kk, dtype=DT), atol=1e-7) or not torch.allclose(vh @ vh.T, torch.eye(kk, dtype=DT), atol=1e-7):
                                why = "factors are not orthonormal"
                            elif not torch.allclose(Amat @ vh.T, u * s, atol=1e-7):
                                why = "A v_i != s_i u_i"
                        except Exception as e:
                            why = "raised %s: %s" % (type(e).__name__, str(e)[:100])
                        if why:
                            ctx.violation("eig/svd/hermitian-flagged", "svd(%dx%d symmetric %s operator flagged Hermitian, k=%s, mode=%s): %s" % (n, n, hkind, k if kGiven else None, mode, why),
                                          {"n": n, "k": k, "mode": mode, "kind": hkind})
    # ---- Davidson model and traces
    base = dict(MaxNA=6, MaxIter=8, KeepBest=True)
    t, cf = tlcmod.gen_mc(ctx.work, "Davidson", "MC_Dav", base, invariants=["Bounded", "AppliedOncePerVector", "ReturnsBest", "Terminates"])
    r = ctx.model_check(t, cf, workers=8, coverage=True, label="Davidson loop", timeout=600)
    ctx.check_coverage(r, ["Iterate", "Return"])
    ctx.check_proof("Davidson_proofs")         # Bounded, ReturnsBest, Terminates for every size / budget
    from vlib import resulthistory
    resulthistory.replay(ctx, ["symeig:exact", "symeig:davidson", "svd"], "eig")
    from vlib import layoutinv
    layoutinv.replay(ctx, ["symeig:exact", "symeig:davidson", "svd"], "eig")
    from vlib import bufferreuse
    bufferreuse.replay(ctx, ["linop-instance:symeig", "symeig:davidson", "linop-instance:symeig-M"], "eig")
    c2 = dict(base)
    c2["KeepBest"] = False
    t, cf = tlcmod.gen_mc(ctx.work, "Davidson", "MC_Dav_dev", c2, invariants=["ReturnsBest"])
    ctx.expect_violation(t, cf, inv="ReturnsBest", label="deviation KeepBest", workers=4, timeout=300)
    traces = []
    tid = 0
    with warnings.catch_warnings():
        warnings.simplefilter("ignore")
        for na in (3, 4, 6, 9) + ((14,) if thorough else ()):
            for neig in sorted({1, 2, na // 2, na}):
                if neig < 1 or neig > na:
                    continue
                for mode in ("lowest", "uppest"):
                    for withM in (False, True):
                        for spname in (("separated", "degenerate") if not thorough else tuple(SPECTRA)):
                            tid += 1
                            log = []
                            Am = herm(na, SPECTRA[spname](na), (), DT, g)
                            Mm = spd(na, (), DT, g) if withM else None
                            A = HermOp(Am, log)
                            M = HermOp(Mm) if withM else None
                            ev = []
                            try:
                                with torch.no_grad():
                                    evals, evecs = xitorch.linalg.symeig(A, neig=neig, mode=mode, M=M, method="davidson", min_eps=1e-10)
                                for c_ in log:
                                    ev.append({"a": "apply", "ncols": c_})
                                idx = list(range(1, neig + 1)) if mode == "lowest" else list(range(na - neig + 1, na + 1))
                                ev.append({"a": "ret", "verdicts": verdicts_symeig(evals, evecs, Am, Mm, idx, 1e-7)})
                            except Exception as e:
                                ev.append({"a": "raise", "exc": "%s: %s" % (type(e).__name__, str(e)[:100])})
                            traces.append({"tid": tid, "cfg": {"na": na, "neig": neig, "nguess": neig, "mode": mode, "M": withM, "spectrum": spname}, "ev": ev})
                            ctx.case(key=("davidson", na, neig, mode, withM, spname))
        # options: size and kind of the initial search space, iteration budget
        for na, neig in ((6, 2), (9, 2), (9, 3)):
            for o in ({"nguess": neig + 1}, {"nguess": neig + 2, "v_init": "rand"}, {"v_init": "eye"}, {"v_init": "rand"}, {"max_addition": 1}, {"nguess": na}):
                for mode in ("lowest", "uppest"):
                    for withM in (False, True):
                        tid += 1
                        log = []
                        Am = herm(na, SPECTRA["separated"](na), (), DT, g)
                        Mm = spd(na, (), DT, g) if withM else None
                        ev = []
                        try:
                            with torch.no_grad():
                                evals, evecs = xitorch.linalg.symeig(HermOp(Am, log), neig=neig, mode=mode, M=HermOp(Mm) if withM else None, method="davidson", min_eps=1e-10, **o)
                            for c_ in log:
                                ev.append({"a": "apply", "ncols": c_})
                            idx = list(range(1, neig + 1)) if mode == "lowest" else list(range(na - neig + 1, na + 1))
                            ev.append({"a": "ret", "verdicts": verdicts_symeig(evals, evecs, Am, Mm, idx, 1e-7)})
                        except Exception as e:
                            ev.append({"a": "raise", "exc": "%s: %s" % (type(e).__name__, str(e)[:100])})
                        traces.append({"tid": tid, "cfg": {"na": na, "neig": neig, "nguess": o.get("nguess", neig), "mode": mode, "M": withM, "spectrum": "separated", "opts": {k_: str(v_) for k_, v_ in o.items()}}, "ev": ev})
                        ctx.case(key=("davidson-opts", na, neig, mode, withM, tuple(sorted((k_, str(v_)) for k_, v_ in o.items()))))
    # fixed reproducer of the recorded finding (independent of VERIF_SEED): orientation seed 1 of the sweep in DESIGN.md 11.3
    with warnings.catch_warnings():
        warnings.simplefilter("ignore")
        g0 = torch.Generator().manual_seed(1)
        Am0 = herm(9, SPECTRA["degenerate"](9), (), DT, g0)
        tid += 1
        ev0 = []
        try:
            with torch.no_grad():
                e0, v0 = xitorch.linalg.symeig(HermOp(Am0), neig=2, mode="uppest", method="davidson")
            ev0 = [{"a": "ret-unobserved", "verdicts": verdicts_symeig(e0, v0, Am0, None, [8, 9], 1e-5)}]
        except Exception as e:
            ev0 = [{"a": "raise", "exc": "%s: %s" % (type(e).__name__, str(e)[:100])}]
        if ev0[0]["a"] == "raise":
            traces.append({"tid": tid, "cfg": {"na": 9, "neig": 2, "nguess": 2, "mode": "uppest", "M": False, "spectrum": "degenerate", "fixed": True}, "ev": ev0})
        ctx.case(key=("davidson-fixed-reproducer",))
        # second recorded finding: a requested pair that is exactly degenerate, search space full after one expansion (na = neig + 1);
        # orientation seed 59 of a sweep over 300 orientations (2 of them raise)
        g1 = torch.Generator().manual_seed(59)
        Am1 = herm(3, SPECTRA["degenerate"](3), (), DT, g1)
        tid += 1
        try:
            with torch.no_grad():
                e1, v1 = xitorch.linalg.symeig(HermOp(Am1), neig=2, mode="lowest", method="davidson", min_eps=1e-10)
            ev1 = [{"a": "ret-unobserved", "verdicts": verdicts_symeig(e1, v1, Am1, None, [1, 2], 1e-5)}]
        except Exception as e:
            ev1 = [{"a": "raise", "exc": "%s: %s" % (type(e).__name__, str(e)[:100])}]
        if ev1[0]["a"] == "raise":
            traces.append({"tid": tid, "cfg": {"na": 3, "neig": 2, "nguess": 2, "mode": "lowest", "M": False, "spectrum": "degenerate", "fixed": True}, "ev": ev1})
        ctx.case(key=("davidson-fixed-reproducer-2",))
    rej = ctx.validate_traces("Trace_Davidson.tla", "Trace_Davidson.cfg", traces, shards=8)

    def m_verdict(t):
        if t["ev"][-1]["a"] == "ret":
            t["ev"][-1]["verdicts"][0][1] = False
            return t

    def m_cols(t):
        ap = [e for e in t["ev"] if e["a"] == "apply"]
        if len(ap) >= 2:
            ap[1]["ncols"] += 1                              # the operator applied to more vectors than the expansion added
            return t

    def m_first(t):
        ap = [e for e in t["ev"] if e["a"] == "apply"]
        if ap and t["ev"][-1]["a"] == "ret":
            ap[0]["ncols"] += 1                              # initial search space of another size than requested
            return t
    ctx.binding_selftest("Trace_Davidson.tla", "Trace_Davidson.cfg", traces, rej,
                         [("verdict false", m_verdict), ("expansion size", m_cols), ("initial space size", m_first)])
    bytid = {t_["tid"]: t_ for t_ in traces}
    for tid_, matched, total in rej:
        t_ = bytid[tid_]
        ev = t_["ev"][matched] if matched < len(t_["ev"]) else None
        failed = [a for a, ok in ev["verdicts"] if not ok] if ev and ev["a"] == "ret" else []
        cfg_ = t_["cfg"]
        sp_ = np.sort(SPECTRA[cfg_["spectrum"]](cfg_["na"]))
        mult_ = max(int(np.sum(np.isclose(sp_, v))) for v in sp_)
        if ev and ev["a"] == "raise" and "cholesky" in ev["exc"] and mult_ > cfg_["neig"]:
            kk = "eig/davidson/dependent-expansion-vectors/multiplicity>neig"
        elif ev and ev["a"] == "raise" and "cholesky" in ev["exc"] and mult_ == cfg_["neig"] and cfg_["na"] == cfg_["neig"] + 1 and not cfg_["M"]:
            kk = "eig/davidson/dependent-expansion-vectors/degenerate-pair-na=neig+1"
        else:
            kk = "eig/davidson/%s" % ("+".join(failed) if failed else (ev["a"] if ev else "incomplete"))
        ctx.violation(kk,
                      "davidson %s not explained by the Davidson model at event %d/%d: %s (applications so far: %s)"
                      % (json.dumps(t_["cfg"]), matched + 1, total, json.dumps(ev)[:300], [e.get("ncols") for e in t_["ev"][:matched]]), {"cfg": t_["cfg"]})
    ctx.samples.append(traces[3])
    ctx.replayed = nrows
    ctx.notes.update(table_rows_executed=nrows, davidson_runs=len(traces))
    ctx.assumptions += [
        "Hermitian A = Q diag(spectrum) Q^H with prescribed spectra (separated, clustered 1e-4, exactly degenerate, mixed sign), M = Q diag(0.7..1.6) Q^H",
        "reference: numpy eigvalsh / scipy.linalg.eigh(A, M) eigenvalues at the indices TLC predicts; tolerances 1e-9 (dense paths) / 1e-7 (davidson, min_eps=1e-10)",
        "davidson is observed through the column counts of the operator applications (counting operator with _mm)",
        "TLC, SANY"]
    return ctx.finish(rule="case = every row of the EigSel table x (method, M, operator kind, batch, dtype, spectrum class) | svd rows | davidson runs (na, neig, mode, M, spectrum)")


def replay(data):
    print(data["what"])
    return 1
