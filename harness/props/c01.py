"""C01 - solve returns the solution of AX - MXE = B, or warns that it did not.

Specs: IterSolve.tla (pipeline and Krylov loop skeleton), SolveShape.tla (+Bcast.tla) for the output-shape table.
TLC enumerates; recorded executions (krylov.* hooks + API boundary) are validated against Trace_IterSolve.tla with
numeric verdicts (true residual, dense reference, column-by-column agreement) in the final event; the whole shape
table is replayed on the real solve.
"""
import itertools
import json
import math
import os
import random
import warnings

import torch
import xitorch
import xitorch.linalg
import xitorch.grad
from xitorch import LinearOperator
from xitorch._utils import verif_hooks as vh

from vlib import tlc as tlcmod
from vlib.tlc import RawTla
from vlib.ctx import Machinery

INVS = ["RetPlain", "WarnedIffNotConverged", "SilentPassed", "Bounded"]
ALLM = ["exactsolve", "custom_exactsolve", "cg", "bicgstab", "gmres", "broyden1"]
KRYLOV = ["cg", "bicgstab", "gmres"]


# ------------------------------------------------------------------ operators
class MvOnly(LinearOperator):
    def __init__(self, mat, herm=False):
        super().__init__(shape=mat.shape, is_hermitian=herm, dtype=mat.dtype, device=mat.device)
        self.mat = mat
        self.count = 0

    def _mv(self, x):
        self.count += 1
        return torch.matmul(self.mat, x.unsqueeze(-1)).squeeze(-1)

    def _getparamnames(self, prefix=""):
        return [prefix + "mat"]


class MvRmv(MvOnly):
    def _rmv(self, x):
        self.count += 1
        return torch.matmul(self.mat.transpose(-2, -1).conj(), x.unsqueeze(-1)).squeeze(-1)


def make_op(kind, mat, herm):
    if kind == "dense":
        return LinearOperator.m(mat, is_hermitian=herm)
    if kind == "mvonly":
        return MvOnly(mat, herm)
    if kind == "mvrmv":
        with warnings.catch_warnings():
            warnings.simplefilter("ignore")
            return MvRmv(mat, herm)
    if kind == "sum":       # 0.5*(2*P) + Q with P + Q = mat
        P = mat * 0.25
        return (LinearOperator.m(P, is_hermitian=herm) * 2.0 + MvRmv(mat - 2.0 * P, herm)) if not herm else \
            (LinearOperator.m(P, is_hermitian=True) * 2.0 + MvOnly(mat - 2.0 * P, True))
    if kind in ("diff", "adjdiff", "adjoint", "matmul"):
        # operators built through the public algebra from matrix-free, NOT Hermitian-flagged operands whose combination is `mat`
        with warnings.catch_warnings():
            warnings.simplefilter("ignore")
            R = 0.37 * mat.flip(-1) + 0.11 * mat.transpose(-2, -1)
            H = lambda m_: m_.transpose(-2, -1).conj()
            if kind == "diff":
                return MvRmv(mat + R, False) - MvRmv(R, False)
            if kind == "adjdiff":
                return (MvRmv(H(mat) + R, False) - MvOnly(R, False)).H
            if kind == "adjoint":
                return MvRmv(H(mat), False).H
            n_ = mat.shape[-1]
            T = torch.eye(n_, dtype=mat.dtype) + 0.2 * torch.tril(torch.ones(n_, n_, dtype=mat.dtype), -1)
            return MvRmv(mat @ torch.linalg.inv(T), False).matmul(MvRmv(T.expand(*mat.shape[:-2], n_, n_).contiguous(), False))
    if kind == "jac":       # Jacobian operator of y -> mat @ y (unbatched only)
        y = torch.zeros(mat.shape[-1], dtype=mat.dtype).requires_grad_()
        return xitorch.grad.jac(lambda yy, mm: mm @ yy, (y, mat), idxs=0)
    raise ValueError(kind)


def rand_unitary(n, batch, dtype, g):
    m = torch.randn(*batch, n, n, generator=g, dtype=torch.float64)
    if dtype.is_complex:
        m = m + 1j * torch.randn(*batch, n, n, generator=g, dtype=torch.float64)
    q, _ = torch.linalg.qr(m.to(dtype))
    return q


def make_matrix(cls, n, batch, dtype, g):
    """returns (matrix, sigma_min, sigma_max)"""
    s = torch.linspace(0.6, 3.0, n, dtype=torch.float64) if n < 15 else torch.linspace(0.6, 30.0, n, dtype=torch.float64)
    smax_ = float(s[-1])
    if cls == "spd":
        Q = rand_unitary(n, batch, dtype, g)
        return (Q * s.to(dtype)) @ Q.transpose(-2, -1).conj(), 0.6, smax_
    if cls == "indef":
        sg = s * torch.tensor([(-1.0) ** i for i in range(n)], dtype=torch.float64)
        Q = rand_unitary(n, batch, dtype, g)
        return (Q * sg.to(dtype)) @ Q.transpose(-2, -1).conj(), 0.6, smax_
    U = rand_unitary(n, batch, dtype, g)
    V = rand_unitary(n, batch, dtype, g)
    return (U * s.to(dtype)) @ V.transpose(-2, -1).conj(), 0.6, smax_


class Sink(object):
    def __init__(self):
        self.ev = []
        self.iters = []
        self.best = None
        self.max_niter = None

    def __call__(self, event, f):
        if event == "krylov.iter":
            self.iters.append(f["x"])
            self.ev.append({"a": "iter", "k": int(f["k"]) if f["method"] != "gmres" else len(self.iters), "hit": bool(f["hit"]), "improved": bool(f["improved"])})
        elif event == "krylov.best":
            self.best = f["x"]
        elif event == "krylov.ret":
            idx = 0
            for i, x in enumerate(self.iters):
                if x is self.best:
                    idx = i + 1
            self.max_niter = int(f["max_niter"])
            self.ev.append({"a": "kret", "ret": idx, "converged": bool(f["converged"]), "col_swapped": bool(f["col_swapped"]),
                            "unswapped": bool(f["unswapped"])})


def dense_ref(Amat, B, E, Mmat):
    """independent dense solution, column by column"""
    bshape = torch.broadcast_shapes(Amat.shape[:-2], B.shape[:-2], *( [E.shape[:-1]] if E is not None else []),
                                    *([Mmat.shape[:-2]] if (Mmat is not None and E is not None) else []))
    n, nc = B.shape[-2:]
    Ab = Amat.expand(*bshape, n, n)
    Bb = B.expand(*bshape, n, nc)
    cols = []
    for c in range(nc):
        if E is None:
            K = Ab
        else:
            Eb = E.expand(*bshape, nc)[..., c]
            Mb = Mmat.expand(*bshape, n, n) if Mmat is not None else torch.eye(n, dtype=Amat.dtype).expand(*bshape, n, n)
            K = Ab - Eb[..., None, None] * Mb
        cols.append(torch.linalg.solve(K, Bb[..., c:c + 1]))
    return torch.cat(cols, dim=-1)


def run_case(tid, cfg, seed):
    g = torch.Generator().manual_seed(seed)
    dtype = {"float64": torch.float64, "complex128": torch.complex128, "float32": torch.float32}[cfg["dtype"]]
    wd = torch.complex128 if dtype.is_complex else torch.float64
    n, nc = cfg["n"], cfg["ncols"]
    Amat, smin, smax = make_matrix(cfg["cls"], n, tuple(cfg["bA"]), wd, g)
    herm = cfg["cls"] in ("spd", "indef")
    if cfg.get("symscale"):
        # rows and columns of very different scale (D A D, D = diag(10 .. 100)): the case a diagonal preconditioner is made for
        Dsc = torch.logspace(1.0, 2.0, n, dtype=torch.float64).to(wd)
        Amat = Dsc[:, None] * Amat * Dsc[None, :]
        smin, smax = smin * 1e2, smax * 1e4
    B = torch.randn(*cfg["bB"], n, nc, generator=g, dtype=torch.float64)
    if dtype.is_complex:
        B = B + 1j * torch.randn(*cfg["bB"], n, nc, generator=g, dtype=torch.float64)
    B = B.to(wd)
    if cfg.get("eigcol"):
        # first column: a large multiple of an eigenvector (Krylov methods finish it in one step), second: a generic unit vector
        evl, evc = torch.linalg.eigh(Amat if herm else (Amat @ Amat.transpose(-2, -1).conj()))
        B = torch.stack([evc[..., -1] * 1e6, B[..., 1] / B[..., 1].norm()], dim=-1).to(wd)
    if cfg.get("colscale"):
        B = B * torch.tensor(cfg["colscale"][:nc], dtype=torch.float64).to(wd)     # columns of very different magnitude
    if cfg["zeroB"]:
        B = B * 0
    E = Mmat = None
    if cfg["mode"] in ("E", "EM", "M"):
        if cfg["mode"] != "M":
            E = -(torch.rand(*cfg["bE"], nc, generator=g, dtype=torch.float64) * 1.5 + 0.5) if cfg["cls"] == "spd" else \
                (torch.rand(*cfg["bE"], nc, generator=g, dtype=torch.float64) - 0.5) * 0.3
            if dtype.is_complex and cfg.get("complexE", True):
                E = E + 1j * (torch.rand(*cfg["bE"], nc, generator=g, dtype=torch.float64) - 0.5) * 0.3
            E = E.to(wd)
        if cfg["mode"] in ("EM", "M"):
            Qm = rand_unitary(n, tuple(cfg["bM"]), wd, g)
            sm = torch.linspace(0.8, 1.2, n, dtype=torch.float64).to(wd)
            Mmat = (Qm * sm) @ Qm.transpose(-2, -1).conj()
    Amat, B = Amat.to(dtype), B.to(dtype)
    E = E.to(dtype) if E is not None else None
    Mmat = Mmat.to(dtype) if Mmat is not None else None
    A = make_op(cfg["op"], Amat, herm)
    M = LinearOperator.m(Mmat, is_hermitian=True) if Mmat is not None else None
    sink = Sink()
    vh.set_sink(sink)
    exc = None
    X = None
    opts = dict(cfg.get("opts", {}))
    for pk in ("precond", "precond_l", "precond_r"):
        if opts.get(pk) == "jacobi":        # diagonal (Jacobi) preconditioner of A, shared by all columns
            dg = torch.diagonal(Amat, dim1=-2, dim2=-1)
            opts[pk] = LinearOperator.m(torch.diag_embed(1.0 / dg), is_hermitian=bool(herm and not dtype.is_complex))
    try:
        with warnings.catch_warnings(record=True) as wl:
            warnings.simplefilter("always")
            with torch.no_grad():
                X = xitorch.linalg.solve(A, B, E, M, method=cfg["method"], **opts)
    except Exception as e:
        exc = e
    finally:
        vh.set_sink(None)
    ev = list(sink.ev)
    cfg = dict(cfg)
    cfg["max_niter"] = sink.max_niter if sink.max_niter is not None else 0
    cfg["hasE"] = E is not None
    if exc is not None:
        ev.append({"a": "raise", "exc": "%s: %s" % (type(exc).__name__, str(exc)[:120])})
        return {"tid": tid, "cfg": cfg, "ev": ev}
    warned = any("onverge" in str(w.message) for w in wl)
    verd = []
    ref = dense_ref(Amat.to(wd), B.to(wd), E.to(wd) if E is not None else None, Mmat.to(wd) if Mmat is not None else None)
    verd.append(["shape_is_broadcast", tuple(X.shape) == tuple(ref.shape)])
    verd.append(["dtype_kept", X.dtype == dtype])
    if tuple(X.shape) == tuple(ref.shape) and not warned:
        Xw = X.to(wd)
        R = Amat.to(wd) @ Xw - B.to(wd)
        if E is not None:
            MX = (Mmat.to(wd) @ Xw) if Mmat is not None else Xw
            R = R - MX * E.to(wd).unsqueeze(-2)
        rn = R.norm(dim=-2)
        bn = B.to(wd).norm(dim=-2).expand_as(rn)
        rtol = opts.get("rtol", 1e-6)
        atol = opts.get("atol", 1e-8)
        cfg["opts"] = {k_: (v_ if not isinstance(v_, LinearOperator) else "jacobi") for k_, v_ in opts.items()}
        if cfg["method"] in ("exactsolve", "custom_exactsolve"):
            thr = (1e-4 if dtype == torch.float32 else 1e-11) * (bn + 1.0)
        elif cfg["method"] == "broyden1":
            thr = torch.full_like(rn, 1e-6 * 1.5)       # f_tol of the root finder (norm over everything)
        else:
            # stopping test on the recursively updated residual of (possibly) the normal equations:
            # |r| <= |A^H r| / smin <= max(rtol*smax*|b|, atol) / smin ; slack 10 for the drift of the recurrence
            kmin = smin - (0.3 * 1.2 if (E is not None and cfg["cls"] != "spd") else 0.0)
            kmax = smax + 2.0 * 1.2
            thr = 10.0 * torch.clamp(rtol * kmax * bn, min=atol) / kmin * (30 if dtype == torch.float32 else 1)
            if cfg.get("symscale") and cfg["method"] == "cg" and opts.get("posdef") is True:
                # plain (preconditioned) cg on A itself: the stopping test is on the residual of A X = B in the 2-norm, whatever the preconditioner
                thr = 10.0 * torch.clamp(rtol * bn, min=atol)
        verd.append(["residual_within_tolerance", bool(torch.all(rn <= thr))])
        errthr = (thr / 0.2).unsqueeze(-2)
        verd.append(["agrees_with_dense_reference", bool(torch.all((Xw - ref).abs() <= errthr + 1e-12))])
    if cfg["must_silent"]:
        verd.append(["silent_on_well_conditioned", not warned])
    ev.append({"a": "ret", "warned": warned, "verdicts": verd})
    return {"tid": tid, "cfg": cfg, "ev": ev, "_X": X, "_ref": ref}


def case_list(thorough, rng):
    out = []
    batches = [((), (), (), ()), ((2,), (), (), ()), ((), (2,), (), ()), ((2, 1), (3,), (), ()), ((), (), (2,), ()), ((), (2,), (2,), (1,)),
               ((2,), (2,), (1,), (2,))]
    for method in ALLM:
        for mode in ("none", "E", "EM", "M"):
            for cls in ("spd", "indef", "nonherm"):
                for dt in (("float64", "complex128") if not thorough else ("float64", "complex128", "float32")):
                    ops = ["dense", "mvonly", "mvrmv"] + (["sum", "jac", "diff", "adjdiff", "adjoint", "matmul"] if thorough or (mode in ("none", "E") and dt == "float64") else [])
                    for op in ops:
                        bl = batches if (thorough or (op == "dense" and dt == "float64")) else batches[:2]
                        for (bA, bB, bE, bM) in bl:
                            if op == "jac" and bA != ():
                                continue
                            if method == "gmres" and cls != "spd" and not thorough:
                                pass
                            for zeroB in ((False, True) if (op == "dense" and bA == () and cls == "spd") else (False,)):
                                n = 4 if (len(out) % 2 == 0) else 5
                                must = (not zeroB) and dt != "float32" and (      # (broyden1's absolute default f_tol 1e-6 is at float32 rounding level)
                                    method in ("exactsolve", "custom_exactsolve", "broyden1")
                                    or (method == "cg" and cls == "spd")
                                    or (method == "bicgstab" and cls == "spd"))
                                out.append(dict(method=method, mode=mode, cls=cls, dtype=dt, op=op, bA=list(bA), bB=list(bB), bE=list(bE), bM=list(bM),
                                                n=n, ncols=2 if len(out) % 3 else 3, zeroB=zeroB, must_silent=must, opts={}))
    # columns of very different magnitude: every column has its own stopping threshold
    for method in KRYLOV + ["broyden1", "exactsolve"]:
        for cls in ("spd", "nonherm"):
            for mode in ("none", "E"):
                for n_ in (5, 8):
                    out.append(dict(method=method, mode=mode, cls=cls, dtype="float64", op="dense", bA=[], bB=[], bE=[], bM=[], n=n_, ncols=3,
                                    zeroB=False, must_silent=False, opts={}, colscale=[1e6, 1.0, 1e-3]))
    for method in KRYLOV:
        for cls in ("spd", "indef"):
            for n_ in (20, 40):
                out.append(dict(method=method, mode="none", cls=cls, dtype="float64", op="dense", bA=[], bB=[], bE=[], bM=[], n=n_, ncols=2,
                                zeroB=False, must_silent=False, opts={}, eigcol=True))
    # tight iteration budget: the solver must warn or meet the tolerance
    for method in KRYLOV:
        for cls in ("spd", "nonherm"):
            out.append(dict(method=method, mode="none", cls=cls, dtype="float64", op="dense", bA=[], bB=[], bE=[], bM=[], n=6, ncols=2,
                            zeroB=False, must_silent=False, opts={"max_niter": 2}))
            out.append(dict(method=method, mode="none", cls=cls, dtype="float64", op="dense", bA=[], bB=[], bE=[], bM=[], n=6, ncols=2,
                            zeroB=False, must_silent=False, opts={"rtol": 1e-10, "atol": 1e-12}))
    # right-hand sides so large that the inner products of the Krylov recurrences overflow (inf / NaN residual norms): a run that
    # cannot tell that it converged must not return silently (gmres: torch's least-squares routine raises on non-finite input -
    # an error, not a silent return, so it is not part of these rows)
    for method in ("cg", "bicgstab"):
        for dt_, big in (("float64", 1e160), ("float32", 1e20)):
            for cs in ([big, 1.0, 1.0], [big, big, big]):
                out.append(dict(method=method, mode="none", cls="spd", dtype=dt_, op="dense", bA=[], bB=[], bE=[], bM=[], n=5, ncols=3,
                                zeroB=False, must_silent=False, opts={}, colscale=cs))
    # options that switch code paths inside the Krylov solvers
    variants = {"cg": [{"posdef": True}, {"posdef": False}, {"resid_calc_every": 1}, {"resid_calc_every": 3}, {"precond": "jacobi"}],
                "bicgstab": [{"posdef": True}, {"posdef": False}, {"resid_calc_every": 1}, {"resid_calc_every": 3}, {"precond_l": "jacobi"}, {"precond_r": "jacobi"},
                             {"precond_l": "jacobi", "precond_r": "jacobi"}],
                "gmres": [{"posdef": True}, {"posdef": False}]}
    # badly scaled positive-definite systems with and without the diagonal preconditioner (no normal equations: posdef given)
    for o in ({"posdef": True, "precond": "jacobi"}, {"posdef": True, "precond": "jacobi", "rtol": 1e-9, "atol": 1e-12}, {"posdef": True, "max_niter": 400}):
        for n_ in (6, 12):
            for nc_ in (1, 3):
                out.append(dict(method="cg", mode="none", cls="spd", dtype="float64", op="dense", bA=[], bB=[], bE=[], bM=[], n=n_, ncols=nc_,
                                zeroB=False, must_silent=False, opts=dict(o), symscale=True))
    for method, vs in variants.items():
        for o in vs:
            for cls in (("spd",) if (method == "cg" or o.get("posdef")) else ("spd", "nonherm")):
                for mode in (("none", "E") if method != "gmres" else ("none",)):
                    for n_ in (6, 12):
                        out.append(dict(method=method, mode=mode, cls=cls, dtype="float64", op="dense", bA=[], bB=[], bE=[], bM=[], n=n_, ncols=2,
                                        zeroB=False, must_silent=(cls == "spd" and method != "gmres"), opts=dict(o)))
    return out


def key_of(t, ev):
    c = t["cfg"]
    base = "solve/%s/%s" % (c["method"], "E" if c["mode"] in ("E", "EM") else "noE")
    if ev is None:
        return base + "/incomplete"
    if ev["a"] == "raise":
        if c["method"] == "gmres" and c["mode"] in ("E", "EM"):
            return "solve/gmres/E-present/layout-not-restored"
        if c["method"] == "gmres" and c["bA"] != c["bB"]:
            return "solve/gmres/batch-broadcast-A-B"
        return base + "/raise/%s/%s" % (c["op"], ev["exc"].split(":")[0])
    if ev["a"] == "ret":
        failed = [n for n, ok in ev["verdicts"] if not ok]
        if c["method"] == "gmres" and c["mode"] in ("E", "EM"):
            return "solve/gmres/E-present/layout-not-restored"
        if "complex" in c["dtype"] and c["mode"] in ("E", "EM") and c["method"] in ("cg", "bicgstab") and failed:
            return "solve/%s/complex-E/adjoint-not-conjugated" % c["method"]
        return base + "/" + ("+".join(failed) if failed else "protocol-at-return") + "/" + c["cls"]
    if ev["a"] == "kret" and c["method"] == "gmres" and c["mode"] in ("E", "EM"):
        return "solve/gmres/E-present/layout-not-restored"
    return base + "/protocol/" + ev["a"]


def shape_table(ctx):
    c = dict(Dims={1, 2}, MaxRank=1)
    t, cf = tlcmod.gen_mc(ctx.work, "SolveShape", "MC_SolveShape", c, init_next=("SInit", "SNext"), invariants=["Assoc"])
    dot = os.path.join(ctx.work, "ss.dot")
    ctx.model_check(t, cf, workers=8, dump_dot=dot, label="solve shape table", timeout=600)
    nodes, inits, edges = tlcmod.parse_dot(dot)
    os.remove(dot)
    n = 0
    g = torch.Generator().manual_seed(5)
    for st in nodes.values():
        a, b, e, m = (tuple(st[k]) for k in ("a", "b", "e", "m"))
        hasE, hasM, sout = bool(st["hasE"]), bool(st["hasM"]), st["sout"]
        Amat, _, _ = make_matrix("spd", 3, a, torch.float64, g)
        B = torch.randn(*b, 3, 2, generator=g, dtype=torch.float64)
        E = -(torch.rand(*e, 2, generator=g, dtype=torch.float64) + 0.5) if hasE else None
        Mm = None
        if hasM:
            Q = rand_unitary(3, m, torch.float64, g)
            Mm = (Q * torch.linspace(0.8, 1.2, 3, dtype=torch.float64)) @ Q.transpose(-2, -1)
        for method in ("exactsolve", "cg", "bicgstab"):
            for zero in (False, True):
                n += 1
                ctx.case(key=("shape", a, b, e, m, hasE, hasM, method, zero))
                try:
                    with warnings.catch_warnings():
                        warnings.simplefilter("ignore")
                        X = xitorch.linalg.solve(LinearOperator.m(Amat, is_hermitian=True), B * (0 if zero else 1), E,
                                                 LinearOperator.m(Mm, is_hermitian=True) if Mm is not None else None, method=method)
                    got = ("ok", tuple(X.shape[:-2]))
                except (RuntimeError, ValueError, IndexError) as ex:
                    got = ("raise", str(ex)[:60])
                why = None
                if sout["ok"]:
                    if got[0] == "raise":
                        why = "raised (%s) although the batch shapes broadcast to %s" % (got[1], tuple(sout["shape"]))
                    elif got[1] != tuple(sout["shape"]):
                        why = "batch shape %s, specification %s" % (got[1], tuple(sout["shape"]))
                elif got[0] == "ok":
                    why = "incompatible batch shapes accepted, result batch %s" % (got[1],)
                if why:
                    ctx.violation("solveshape/%s/%s" % (method, "zeroB" if zero else "B"),
                                  "solve(%s) A%s B%s E%s M%s: %s" % (method, a, b, e if hasE else None, m if hasM else None, why),
                                  {"a": a, "b": b, "e": e, "m": m, "hasE": hasE, "hasM": hasM, "method": method})
    return n


def default_table(ctx):
    """which algorithm runs when no method is named: observed through the krylov.* hooks (no event = direct solve)"""
    c = dict(Sizes={3, 5, 6, 9})
    t, cf = tlcmod.gen_mc(ctx.work, "SolveDefault", "MC_SolveDefault", c, invariants=["IterativeOnlyWhenLarge", "CgOnlyHermitian"])
    dot = os.path.join(ctx.work, "sd.dot")
    ctx.model_check(t, cf, workers=4, dump_dot=dot, label="default-method table", timeout=300)
    nodes, _, _ = tlcmod.parse_dot(dot)
    os.remove(dot)
    g = torch.Generator().manual_seed(9)
    n = 0
    for st in nodes.values():
        dense, nn_, hermA, hasM = bool(st["dense"]), int(st["n"]), bool(st["hermA"]), bool(st["hasM"])
        n += 1
        ctx.case(key=("default", dense, nn_, hermA, hasM))
        Amat, _, _ = make_matrix("spd" if hermA else "nonherm", nn_, (), torch.float64, g)
        A = make_op("dense" if dense else "mvrmv", Amat, hermA)
        B = torch.randn(nn_, 2, generator=g, dtype=torch.float64)
        E = M = None
        if hasM:
            Q = rand_unitary(nn_, (), torch.float64, g)
            Mm = (Q * torch.linspace(0.8, 1.2, nn_, dtype=torch.float64)) @ Q.T
            M = make_op("dense" if dense else "mvrmv", Mm, True)
            E = -(torch.rand(2, generator=g, dtype=torch.float64) + 0.5)
        seen = []
        vh.set_sink(lambda ev, f: seen.append(f["method"]) if ev == "krylov.ret" else None)
        try:
            with warnings.catch_warnings():
                warnings.simplefilter("ignore")
                with torch.no_grad():
                    xitorch.linalg.solve(A, B, E, M)
        finally:
            vh.set_sink(None)
        got = seen[0] if seen else "exactsolve"
        if got != st["pred"]["fwd"]:
            ctx.violation("solve/default-method", "solve without a method on a %s %s operator with %d unknowns%s ran %s, the documentation's table says %s"
                          % ("dense" if dense else "matrix-free", "Hermitian" if hermA else "non-Hermitian", nn_, " and M" if hasM else "", got, st["pred"]["fwd"]),
                          {"dense": dense, "n": nn_, "hermA": hermA, "hasM": hasM})
    return n


def run(ctx):
    thorough = ctx.tier == "thorough"
    rng = random.Random(ctx.seed)
    unswap = RawTla('[m \\in {"cg", "bicgstab", "gmres", "exactsolve", "custom_exactsolve", "broyden1"} |-> TRUE]')
    base = dict(Methods=set(ALLM), MaxIter=4 if not thorough else 6, Unswap=unswap, ReturnPassed=True, WarnIffNot=True)
    t, cf = tlcmod.gen_mc(ctx.work, "IterSolve", "MC_IS", base, invariants=INVS)
    r = ctx.model_check(t, cf, workers=8, coverage=True, label="exhaustive", timeout=600)
    ctx.check_coverage(r, ["Direct", "Setup", "Iter", "Exhaust", "Finish"])
    ctx.check_proof("IterSolve_proofs")        # the same invariants for every iteration budget
    from vlib import resulthistory
    nrh = resulthistory.replay(ctx, ["solve:exact", "solve:cg", "solve:bicgstab", "solve:gmres"], "solve")
    from vlib import layoutinv
    nrh += layoutinv.replay(ctx, ["solve:exact", "solve:cg", "solve:bicgstab", "solve:gmres"], "solve")
    from vlib import bufferreuse
    nrh += bufferreuse.replay(ctx, ["linop-instance:solve", "linop-instance:solve-cg", "solve:cg", "linop-instance:solve-EM", "linop-instance:solve-EM-cg", "linop-tensors:solve-EM"], "solve")
    for name, c2, inv in (("Unswap", dict(Unswap=RawTla('[m \\in {"cg", "bicgstab", "gmres", "exactsolve", "custom_exactsolve", "broyden1"} |-> m # "gmres"]')), "RetPlain"),
                          ("ReturnPassed", dict(ReturnPassed=False), "SilentPassed"), ("WarnIffNot", dict(WarnIffNot=False), "WarnedIffNotConverged")):
        c = dict(base)
        c.update(c2)
        t, cf = tlcmod.gen_mc(ctx.work, "IterSolve", "MC_IS_dev_" + name, c, invariants=INVS)
        ctx.expect_violation(t, cf, inv=inv, label="deviation " + name, workers=4, timeout=300)
    nshape = shape_table(ctx)
    ndef = default_table(ctx)
    # code -> spec
    traces = []
    cases = case_list(thorough, rng)
    for tid, cfg in enumerate(cases, 1):
        tr = run_case(tid, cfg, ctx.seed * 100003 + tid)
        traces.append(tr)
        ctx.case(key=json.dumps({k: v for k, v in cfg.items()}, sort_keys=True))
    clean = [{k: v for k, v in t.items() if not k.startswith("_")} for t in traces]
    rej = ctx.validate_traces("Trace_IterSolve.tla", "Trace_IterSolve.cfg", clean, shards=16)
    def m_verdict(t):
        if t["ev"] and t["ev"][-1]["a"] == "ret" and t["ev"][-1]["verdicts"]:
            t["ev"][-1]["verdicts"][0][1] = False            # a numeric verdict fails
            return t

    def m_skip_iter(t):
        its = [j for j, e in enumerate(t["ev"]) if e["a"] == "iter"]
        if len(its) >= 2:
            del t["ev"][its[0]]                              # one Krylov iteration is missing from the record
            return t

    def m_wrong_ret(t):
        kr = [e for e in t["ev"] if e["a"] == "kret"]
        if kr and any(e["a"] == "iter" for e in t["ev"]):
            kr[0]["ret"] = int(kr[0]["ret"]) + 1             # another iterate than the one that passed is handed back
            return t

    def m_silent(t):
        if t["ev"] and t["ev"][-1]["a"] == "ret" and t["ev"][-1]["warned"] and any(e["a"] == "kret" for e in t["ev"]):
            t["ev"][-1]["warned"] = False                    # a non-converged run returns silently
            return t
    ctx.binding_selftest("Trace_IterSolve.tla", "Trace_IterSolve.cfg", clean, rej,
                         [("verdict false", m_verdict), ("iteration missing", m_skip_iter), ("other iterate returned", m_wrong_ret), ("warning missing", m_silent)])
    bytid = {t["tid"]: t for t in clean}
    for tid_, matched, total in rej:
        t = bytid[tid_]
        ev = t["ev"][matched] if matched < len(t["ev"]) else None
        ctx.violation(key_of(t, ev), "solve %s not explained by IterSolve at event %d/%d: %s; previous %s"
                      % (json.dumps(t["cfg"]), matched + 1, total, json.dumps(ev)[:500], json.dumps(t["ev"][max(0, matched - 2):matched])[:300]), {"cfg": t["cfg"]})
    # all methods agree with each other: follows from agreement with the common dense reference (checked per case)
    nret = sum(1 for t in clean if t["ev"][-1]["a"] == "ret")
    ctx.samples.append(clean[3])
    ctx.replayed = nshape + ndef
    ctx.notes.update(executions=len(clean), returned=nret, warned=sum(1 for t in clean if t["ev"][-1]["a"] == "ret" and t["ev"][-1]["warned"]),
                     shape_cases=nshape, iter_events=sum(1 for t in clean for e in t["ev"] if e["a"] == "iter"))
    ctx.assumptions += [
        "matrices built from prescribed spectra: singular values in [0.6, 3]; M = Q diag(0.8..1.2) Q^H; shifts keep sigma_min(A - E M) >= 0.24",
        "residual bound for the Krylov methods: |r_col| <= 10 * max(rtol*kappa_max*|b_col|, atol) / kappa_min (stopping test is on the recursively updated residual of possibly the normal equations); x30 for float32",
        "silence demanded: exactsolve, custom_exactsolve, broyden1 on every class; cg and bicgstab on the SPD class",
        "agreement between methods is checked through agreement of each with the independent dense column-by-column solution",
        "TLC, SANY, hooks krylov.*"]
    return ctx.finish(
        rule="case = (method, E/M mode, operator kind, spectrum class, dtype, batch pattern, zero RHS, options); each execution must be a behaviour "
             "of IterSolve (iteration count within budget, best/hit bookkeeping, layout restored, warned iff no iterate passed, the iterate handed back "
             "passed the test) with final verdicts shape = broadcast, dtype kept, true residual within the bound, agreement with the dense reference, "
             "silence where demanded; plus the complete output-shape table of SolveShape replayed on exactsolve / cg / bicgstab")


def replay(data):
    print(data["what"])
    return 1
