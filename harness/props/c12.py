"""C12 - quad applies an exact n-point Gauss-Legendre rule on the requested interval.

Spec: QuadCfg.tla (forward part: transform choice and evaluation counts for every form of the limits).  Every
TLC-enumerated configuration is executed on the real quad with a counting integrand.  The rule itself is extracted
with indicator-valued integrands (the result IS the weight vector, the call log the node vector) and checked
through Legendre orthogonality (well-conditioned form of "exact to degree 2n-1").
"""
import math
import os
import warnings

import torch
import xitorch
import xitorch.integrate

from vlib import tlc as tlcmod
from vlib.ctx import Machinery

DT = torch.float64
NF, NB, ND = 7, 5, 100
LO, HI = -0.375, 0.875          # the finite limits of the configuration table: exactly representable in single precision too


QC_BASE = dict(NFwd=NF, NBck=NB, NDefault=ND, BckForwarded=True, KindRemembered=True, AllowUnused=True, EmptyParamsOk=True, LimitsConverted=True)
QC_INVS = ["NeverRaises", "BackwardRule", "LimitsGetGradIffRequired", "RuleInIntegrandPrecision"]


def enumerate_cfgs(ctx, label, **over):
    c = dict(QC_BASE)
    c.update(over)
    t, cf = tlcmod.gen_mc(ctx.work, "QuadCfg", "MC_QC_" + label, c, invariants=QC_INVS)
    dot = os.path.join(ctx.work, "qc.dot")
    ctx.model_check(t, cf, workers=4, dump_dot=dot, label="quad configuration table", timeout=300)
    nodes, inits, edges = tlcmod.parse_dot(dot)
    os.remove(dot)
    return list(nodes.values())


def make_limit(kind, inf, sign, val):
    v = (math.inf * sign) if inf else val
    if kind == "number":
        return v
    return torch.tensor(v, dtype=torch.float32 if kind == "tensor32_grad" else DT, requires_grad=kind.endswith("_grad"))


def make_param(kind, val):
    """the integrand's coefficient as QuadCfg.tla's ParamKinds"""
    return float(val) if kind == "number" else torch.tensor(val, dtype=DT, requires_grad=(kind == "tensor_grad"))


def Counting():
    """a plain function (quad accepts functions and methods) that logs its abscissae in .xs"""
    xs = []

    def f(x, a, *rest):
        xs.append(float(x))
        xx = torch.as_tensor(x, dtype=DT)
        a = torch.as_tensor(a, dtype=DT)
        return torch.exp(-a * xx ** 2) * torch.stack([a, a ** 2])
    f.xs = xs
    return f


def run_cfg(st, count):
    xl = make_limit(st["xlKind"], st["xlInf"], -1, LO)
    xu = make_limit(st["xuKind"], st["xuInf"], +1, HI)
    a = make_param(st["aKind"], 0.8)
    junk = torch.tensor(0.1, dtype=DT, requires_grad=True)
    params = (a, junk) if st["hasUnused"] else (a,)
    kw = {}
    if st["nGiven"]:
        kw["n"] = NF
    if st["bckGiven"]:
        kw["bck_options"] = {"n": NB}
    out = xitorch.integrate.quad(count, xl, xu, params=params, **kw)
    return out, xl, xu, a, junk


def legendre(k, x):
    p0, p1 = torch.ones_like(x), x
    if k == 0:
        return p0
    for j in range(1, k):
        p0, p1 = p1, ((2 * j + 1) * x * p1 - j * p0) / (j + 1)
    return p1


def extract_rule(n, xl, xu, **kw):
    calls = []

    def f(x):
        calls.append(float(x))
        e = torch.zeros(n + 1, dtype=DT)
        e[min(len(calls) - 1, n)] = 1.0        # call 0 is the structure probe
        return e
    out = xitorch.integrate.quad(f, xl, xu, n=n, **kw)
    return calls, out


def run(ctx):
    thorough = ctx.tier == "thorough"
    states = enumerate_cfgs(ctx, "fwd")
    t_, cf_ = tlcmod.gen_mc(ctx.work, "QuadCfg", "MC_QC_dev_LimitsConverted", dict(QC_BASE, LimitsConverted=False), invariants=QC_INVS)
    ctx.expect_violation(t_, cf_, inv="RuleInIntegrandPrecision", label="deviation LimitsConverted", workers=4, timeout=300)
    n = 0
    nexec = [0]
    nhist = 0
    with warnings.catch_warnings():
        warnings.simplefilter("ignore")
        # 1. configuration table, forward part
        for st in states:
            if st["hasUnused"] or st["bckGiven"] or st["aKind"] != "tensor_grad":
                continue            # forward behaviour does not depend on them (covered by C13)
            n += 1
            nexec[0] += 1
            cnt = Counting()
            key = (st["xlKind"], st["xuKind"], st["xlInf"], st["xuInf"], st["nGiven"])
            ctx.case(key=key, sample={"cfg": {k: st[k] for k in ("xlKind", "xuKind", "xlInf", "xuInf", "nGiven")}, "spec": st["pred"]} if n % 9 == 1 else None)
            try:
                out, xl, xu, a, junk = run_cfg(st, cnt)
            except Exception as e:
                ctx.violation("quad/fwd/raise/%s-%s" % (st["xlKind"], st["xuKind"]), "quad with limits (%s%s, %s%s) raised %s: %s"
                              % (st["xlKind"], " inf" if st["xlInf"] else "", st["xuKind"], " inf" if st["xuInf"] else "", type(e).__name__, str(e)[:100]), {"cfg": str(key)})
                continue
            pred = st["pred"]
            why = None
            if len(cnt.xs) != pred["fwdEvals"]:
                why = "integrand evaluated %d times, specification %d (probe + n nodes)" % (len(cnt.xs), pred["fwdEvals"])
            else:
                nodes = cnt.xs[1:]
                if pred["transform"] == "none":
                    lo, hi = LO, HI
                    if not all(lo <= x <= hi for x in nodes):
                        why = "nodes outside the interval"
                    ref = None
                else:
                    # exact value: a * int exp(-a x^2) over the (half-)infinite range
                    pass
                aa = 0.8
                Fx = lambda x: 0.5 * math.sqrt(math.pi / aa) * math.erf(math.sqrt(aa) * x)
                lo = -math.inf if st["xlInf"] else LO
                hi = math.inf if st["xuInf"] else HI
                exact = (Fx(hi) if hi != math.inf else 0.5 * math.sqrt(math.pi / aa)) - (Fx(lo) if lo != -math.inf else -0.5 * math.sqrt(math.pi / aa))
                nn_ = NF if st["nGiven"] else ND
                tol = 1e-10 if nn_ == ND else (5e-3 if pred["transform"] == "tan" else 1e-6)
                val = out.detach()
                # the rule is built in the integrand's precision (QuadCfg.RuleInIntegrandPrecision): its nodes are the
                # double-precision Gauss nodes whatever the precision of the limits
                import numpy as np
                tg_, _ = np.polynomial.legendre.leggauss(nn_)
                if pred["transform"] == "none":
                    expn = tg_ * 0.5 * (hi - lo) + 0.5 * (hi + lo)
                else:
                    tl_, tu_ = math.atan(lo), math.atan(hi)
                    expn = np.tan(tg_ * 0.5 * (tu_ - tl_) + 0.5 * (tu_ + tl_))
                dev = float(np.max(np.abs(np.sort(np.array(nodes)) - np.sort(expn)) / np.maximum(1.0, np.abs(np.sort(expn)))))
                if why is None and out.dtype != DT:
                    why = "result dtype %s for a double-precision integrand" % out.dtype
                if why is None and dev > 1e-12:
                    why = "the nodes deviate from the double-precision Gauss nodes by %.2e (relative): the rule was not built in the integrand's precision" % dev
                if why is None and (abs(float(val[0]) - aa * exact) > tol * 10 or abs(float(val[1]) - aa ** 2 * exact) > tol * 10):
                    why = "value %s, exact %s (n = %d, tolerance %.0e)" % (val.tolist(), [aa * exact, aa ** 2 * exact], nn_, tol * 10)
            if why:
                ctx.violation("quad/fwd/%s" % pred["transform"], "quad limits (%s%s, %s%s) n=%s: %s" % (st["xlKind"], " inf" if st["xlInf"] else "", st["xuKind"],
                                                                                                      " inf" if st["xuInf"] else "", NF if st["nGiven"] else "default", why), {"cfg": str(key)})
        # 2. rule extraction
        ns = list(range(1, 13)) + [50, 100] + ([200, 300] if thorough else [])
        intervals = [(-1.0, 1.0), (0.0, 2.5), (3.0, -1.0), (-1e-3, 2e-3), (10.0, 250.0), (-7.0, -6.5)]
        # tiny intervals and intervals that are short relative to where they lie (|xu - xl| << |xu|): still intervals, not "empty".
        # There the nodes cannot be recovered from the call log to full relative accuracy (x = mid + half*xi cancels), so the
        # extracted rule is compared with numpy's Gauss-Legendre rule mapped to the interval instead of through orthogonality
        short_intervals = [(0.0, 5e-9), (-2e-7, 3e-7), (1000.0, 1000.004), (1.0 - 4e-6, 1.0), (-250.0, -250.0005), (5e-9, 0.0)]
        for nq in (1, 2, 3, 5, 8, 100):
            import numpy as np
            tg_, wg_ = np.polynomial.legendre.leggauss(nq)
            for (lo, hi) in short_intervals:
                for rep in ("number", "tensor"):
                    n += 1
                    ctx.case(key=("rule-short", nq, lo, hi, rep))
                    why = None
                    try:
                        calls, out = extract_rule(nq, torch.tensor(lo, dtype=DT) if rep == "tensor" else lo, torch.tensor(hi, dtype=DT) if rep == "tensor" else hi)
                        w = out[1:].detach().numpy()
                        x = np.array(calls[1:])
                        half, mid = 0.5 * (hi - lo), 0.5 * (hi + lo)
                        if len(calls) != nq + 1:
                            why = "%d evaluations for an %d-point rule" % (len(calls) - 1, nq)
                        elif not np.allclose(np.sort(w / half), np.sort(wg_), rtol=1e-11, atol=1e-13):
                            why = "weights / half-width %s are not the Gauss-Legendre weights %s (sum of weights %.6e, interval length %.6e)" % (
                                np.sort(w / half)[:3].tolist(), np.sort(wg_)[:3].tolist(), float(w.sum()), hi - lo)
                        elif not np.allclose(np.sort(x), np.sort(mid + half * tg_), rtol=4e-16, atol=4e-16 * max(abs(lo), abs(hi))):
                            why = "nodes are not the Gauss-Legendre nodes mapped to the interval"
                    except Exception as e:
                        why = "raised %s: %s" % (type(e).__name__, str(e)[:100])
                    if why:
                        ctx.violation("quad/rule-short/n=%d" % nq, "quad(n=%d) on the short interval [%r, %r] (limits as %ss): %s" % (nq, lo, hi, rep, why), {"n": nq, "interval": [lo, hi]})
        for nq in ns:
            for (lo, hi) in intervals:
                # representations of the limits: python numbers, 0-dimensional and one-element tensors of the integrand's or of
                # single precision (only where the value is exactly representable), one limit a tensor and the other a number
                f32ok = all(float(torch.tensor(v_, dtype=torch.float32)) == v_ for v_ in (lo, hi))
                reps = [False, True, "t64x1"] + (["t32", "t32-number"] if f32ok else []) + (["int"] if float(lo).is_integer() and float(hi).is_integer() else [])
                for as_tensor in reps:
                    n += 1
                    ctx.case(key=("rule", nq, lo, hi, as_tensor))
                    if as_tensor == "t64x1":
                        xl, xu = torch.tensor([lo], dtype=DT), torch.tensor([hi], dtype=DT)
                    elif as_tensor == "t32":
                        xl, xu = torch.tensor(lo, dtype=torch.float32), torch.tensor([hi], dtype=torch.float32)
                    elif as_tensor == "t32-number":
                        xl, xu = torch.tensor(lo, dtype=torch.float32), hi
                    elif as_tensor == "int":
                        xl, xu = int(lo), int(hi)
                    else:
                        xl = torch.tensor(lo, dtype=DT) if as_tensor else lo
                        xu = torch.tensor(hi, dtype=DT) if as_tensor else hi
                    try:
                        # (every other case also names OTHER settings for the backward pass: they must not reach the forward rule)
                        calls, out = extract_rule(nq, xl, xu, **({"bck_options": {"n": nq + 3}} if (nq + int(as_tensor is not False)) % 2 == 0 else {}))
                    except Exception as e:
                        ctx.violation("quad/rule/raise", "quad(n=%d) on [%s, %s] (%s limits) raised %s: %s" % (nq, lo, hi, {False: "number", True: "tensor"}.get(as_tensor, as_tensor), type(e).__name__, str(e)[:100]),
                                      {"n": nq})
                        continue
                    w = out[1:].detach()
                    x = torch.tensor(calls[1:], dtype=DT)
                    why = None
                    if len(calls) != nq + 1 or float(out[0]) != 0.0:
                        why = "%d evaluations for an %d-point rule" % (len(calls) - 1, nq)
                    else:
                        mid, half = 0.5 * (lo + hi), 0.5 * (hi - lo)
                        xi = (x - mid) / half
                        if float(xi.abs().max()) > 1.0:
                            why = "nodes outside the interval"
                        elif not torch.allclose(torch.sort(xi)[0], -torch.sort(-xi)[0].flip(0) * 1.0, atol=1e-12) or \
                                not torch.allclose(torch.sort(xi)[0], -torch.sort(xi)[0].flip(0), atol=1e-12):
                            why = "nodes not symmetric about the midpoint"
                        else:
                            wn = w / half
                            for k in range(0, 2 * nq):
                                m = float((wn * legendre(k, xi)).sum())
                                if abs(m - (2.0 if k == 0 else 0.0)) > 1e-11 * max(nq, 4):
                                    why = "sum_i w_i P_%d(x_i) = %.3e, an exact %d-point Gauss rule gives %s" % (k, m, nq, 2 if k == 0 else 0)
                                    break
                    if why:
                        ctx.violation("quad/rule/n=%d" % nq, "quad(n=%d) on [%s, %s] (limits given as %s): %s" % (nq, lo, hi, {False: "numbers", True: "tensors"}.get(as_tensor, as_tensor), why),
                                      {"n": nq, "interval": [lo, hi], "limits": str(as_tensor)})
        # 3. algebraic laws on polynomials of degree <= 2n-1, tuple outputs, infinite limits
        for nq in (2, 3, 5, 8):
            deg = 2 * nq - 1
            coef = torch.linspace(-1.0, 1.5, deg + 1, dtype=DT)
            poly = lambda x: sum(c_ * x ** k for k, c_ in enumerate(coef))
            anti = lambda x: sum(float(c_) * x ** (k + 1) / (k + 1) for k, c_ in enumerate(coef))
            for (a_, b_, c_) in ((-0.7, 0.4, 1.9), (2.0, 0.5, -1.0)):
                n += 1
                ctx.case(key=("laws", nq, a_, b_, c_))
                q = lambda lo, hi, f=poly: float(xitorch.integrate.quad(lambda x: torch.as_tensor(f(x), dtype=DT).reshape(1), lo, hi, n=nq))
                Iab, Iba, Ibc, Iac = q(a_, b_), q(b_, a_), q(b_, c_), q(a_, c_)
                scale = max(1.0, abs(anti(a_)), abs(anti(b_)), abs(anti(c_)))
                why = None
                if abs(Iab - (anti(b_) - anti(a_))) > 1e-11 * scale:
                    why = "degree-%d polynomial not integrated exactly with n=%d: %r vs %r" % (deg, nq, Iab, anti(b_) - anti(a_))
                elif abs(Iab + Iba) > 1e-12 * scale:
                    why = "swapping the limits does not change the sign"
                elif abs(Iab + Ibc - Iac) > 1e-11 * scale:
                    why = "not additive over adjacent intervals"
                else:
                    g = lambda x: torch.cos(torch.as_tensor(x, dtype=DT))
                    lin = float(xitorch.integrate.quad(lambda x: (2.0 * torch.as_tensor(poly(x), dtype=DT) - 3.0 * g(x)).reshape(1), a_, b_, n=nq))
                    Ig = float(xitorch.integrate.quad(lambda x: g(x).reshape(1), a_, b_, n=nq))
                    if abs(lin - (2.0 * Iab - 3.0 * Ig)) > 1e-11 * scale:
                        why = "not linear in the integrand"
                if why:
                    ctx.violation("quad/laws/n=%d" % nq, "quad(n=%d): %s" % (nq, why), {"n": nq})
        # degree 0: the integrand hands back one of the caller's tensors (a parameter, a tensor held by its object, a view of it)
        class _Const(torch.nn.Module):
            def __init__(self, w):
                super().__init__()
                self.w = torch.nn.Parameter(w)

            def forward(self, x):
                return self.w
        for nq in (1, 2, 5):
            for kind in ("parameter", "view", "module"):
                n += 1
                ctx.case(key=("constant-integrand", nq, kind))
                cvec = torch.tensor([0.5, -2.0, 3.0], dtype=DT)
                c0 = cvec.clone()
                try:
                    if kind == "module":
                        mod = _Const(cvec.clone())
                        got = xitorch.integrate.quad(mod.forward, -1.0, 3.0, n=nq)
                        kept = mod.w.detach()
                    elif kind == "view":
                        got = xitorch.integrate.quad(lambda x, c: c[:2], -1.0, 3.0, params=(cvec,), n=nq)
                        kept = cvec
                    else:
                        got = xitorch.integrate.quad(lambda x, c: c, -1.0, 3.0, params=(cvec,), n=nq)
                        kept = cvec
                    exp = 4.0 * (c0[:2] if kind == "view" else c0)
                    if not torch.allclose(got.detach(), exp, atol=1e-13):
                        ctx.violation("quad/laws/constant", "quad(n=%d) of the constant integrand returning its %s over [-1, 3]: %s, exact %s" % (nq, kind, got.detach().tolist(), exp.tolist()), {"n": nq, "kind": kind})
                    elif not torch.equal(kept, c0):
                        ctx.violation("quad/laws/constant-modified", "quad(n=%d) overwrote the tensor its integrand returned (%s): %s, was %s" % (nq, kind, kept.tolist(), c0.tolist()), {"n": nq, "kind": kind})
                except Exception as e:
                    ctx.violation("quad/laws/constant", "quad(n=%d) of a constant integrand (%s) raised %s: %s" % (nq, kind, type(e).__name__, str(e)[:100]), {"n": nq, "kind": kind})
        n += 1
        ctx.case(key=("tuple",))
        res = xitorch.integrate.quad(lambda x: (torch.as_tensor(x, dtype=DT) ** 2 * torch.ones(2, dtype=DT), torch.as_tensor(x, dtype=DT).reshape(1, 1) * 3.0), 0.0, 2.0, n=4)
        if not (isinstance(res, tuple) and len(res) == 2 and res[0].shape == (2,) and res[1].shape == (1, 1)
                and torch.allclose(res[0], torch.full((2,), 8.0 / 3.0, dtype=DT), atol=1e-12) and abs(float(res[1]) - 6.0) < 1e-12):
            ctx.violation("quad/tuple", "tuple-valued integrand is not integrated component-wise: %s" % (res,), {})
        for (lo, hi, exact) in ((-math.inf, math.inf, math.sqrt(math.pi)), (0.0, math.inf, 0.5 * math.sqrt(math.pi)), (-math.inf, 0.5, 0.5 * math.sqrt(math.pi) * (1 + math.erf(0.5)))):
            n += 1
            ctx.case(key=("inf", lo, hi))
            calls = []

            def fdec(x):
                calls.append(float(x))
                xx = torch.as_tensor(x, dtype=DT)
                return torch.exp(-xx ** 2).reshape(1)
            v = float(xitorch.integrate.quad(fdec, lo, hi, n=200))
            if abs(v - exact) > 1e-9:
                ctx.violation("quad/inf", "decaying integrand on (%s, %s) with n=200: %r, exact %r" % (lo, hi, v, exact), {"limits": [lo, hi]})
            # exact change of variables x = tan t: the nodes are tan of Gauss nodes on (atan lo, atan hi)
            tl, tu = math.atan(lo), math.atan(hi)
            import numpy as np
            tg, wg = np.polynomial.legendre.leggauss(200)
            tnodes = np.tan(tg * 0.5 * (tu - tl) + 0.5 * (tu + tl))
            if len(calls) != 201 or not np.allclose(np.array(calls[1:]), tnodes, rtol=1e-10, atol=1e-12):
                ctx.violation("quad/inf/nodes", "nodes for (%s, %s) are not tan of the Gauss nodes on (atan xl, atan xu)" % (lo, hi), {"limits": [lo, hi]})
        # 4. histories of calls in one process (QuadHistory.tla): the rule of a call does not depend on earlier calls
        base = dict(MaxLen=3, KeyedByPrecision=True)
        t, cf = tlcmod.gen_mc(ctx.work, "QuadHistory", "MC_QH", base, invariants=["RuleInCallPrecision"])
        dot = os.path.join(ctx.work, "qh.dot")
        ctx.model_check(t, cf, workers=4, dump_dot=dot, label="call histories", timeout=300)
        hnodes, _, _ = tlcmod.parse_dot(dot)
        os.remove(dot)
        t2, cf2 = tlcmod.gen_mc(ctx.work, "QuadHistory", "MC_QH_dev", dict(base, KeyedByPrecision=False), invariants=["RuleInCallPrecision"])
        ctx.expect_violation(t2, cf2, inv="RuleInCallPrecision", label="deviation KeyedByPrecision", workers=4, timeout=300)
        ctx.check_proof("QuadHistory_proofs")      # histories of any length
        from vlib import resulthistory
        nhist += resulthistory.replay(ctx, ["quad", "mcquad", "quad:alias", "mcquad:alias"], "quad")
        from vlib import bufferreuse
        nhist += bufferreuse.replay(ctx, ["quad", "mcquad"], "quad")
        # quadratures nested in one another (a double integral: the integrand of the outer call evaluates an inner quad for every node):
        # the kinds of limits of the two calls - finite / infinite - are independent; exp(-(x^2 + y^2)/2) factorises into error functions
        from math import erf, sqrt, pi
        inf_ = float("inf")
        g1 = lambda a_, b_: sqrt(pi / 2.0) * (erf(b_ / sqrt(2.0)) - erf(a_ / sqrt(2.0)))

        def nested(ol, ou, il, iu, nn):
            def inner(xx):
                return xitorch.integrate.quad(lambda y_, x_: torch.exp(-0.5 * (x_ * x_ + y_ * y_)), il, iu, params=(xx,), n=nn)

            def outer(x_):
                x_ = torch.as_tensor(x_, dtype=torch.float64)
                return torch.stack([inner(xi) for xi in x_.reshape(-1)]).reshape(x_.shape)
            return xitorch.integrate.quad(outer, ol, ou, n=nn)
        for ol, ou, il, iu in ((-inf_, inf_, -inf_, inf_), (0.0, inf_, -inf_, inf_), (-1.0, 2.0, -inf_, inf_), (-inf_, inf_, 0.5, 1.5), (-1.0, 2.0, 0.5, 1.5), (-inf_, 0.3, 0.2, inf_)):
            nhist += 1
            n += 1
            ctx.case(key=("nested-quad", ol, ou, il, iu))
            why = None
            try:
                v = float(nested(ol, ou, il, iu, 60))
                ref = g1(ol, ou) * g1(il, iu)
                if not abs(v - ref) <= 1e-8 * max(1.0, abs(ref)):
                    why = "%.12g, the product of the two one-dimensional integrals is %.12g" % (v, ref)
            except Exception as e:
                why = "raised %s: %s" % (type(e).__name__, str(e)[:120])
            if why:
                ctx.violation("quad/nested", "double integral of exp(-(x^2+y^2)/2) over (%s, %s) x (%s, %s) by a quad inside the integrand of a quad (n = 60): %s" % (ol, ou, il, iu, why),
                              {"outer": [ol, ou], "inner": [il, iu]})
        full = sorted([h_["hist"] for h_ in hnodes.values() if len(h_["hist"]) == 3], key=lambda h_: [(c_["call"]["dtype"], c_["call"]["n"]) for c_ in h_])
        TD = {"f32": torch.float32, "f64": torch.float64}
        for hi, hist in enumerate(full):
            nmap = {"na": 14 + 2 * hi, "nb": 15 + 2 * hi}      # every history gets point counts no other history uses
            nhist += 1
            n += 1
            ctx.case(key=("history", tuple((c_["call"]["dtype"], c_["call"]["n"]) for c_ in hist)))
            for pos, c_ in enumerate(hist):
                dt_, nq = TD[c_["call"]["dtype"]], nmap[c_["call"]["n"]]
                calls = []

                def fh(x, calls=calls, nq=nq, dt_=dt_):
                    calls.append(float(x))
                    e = torch.zeros(nq + 1, dtype=dt_)
                    e[min(len(calls) - 1, nq)] = 1.0
                    return e
                why = None
                try:
                    out = xitorch.integrate.quad(fh, torch.tensor(-0.5, dtype=dt_), torch.tensor(1.5, dtype=dt_), n=nq)
                    w = out[1:].detach().to(DT)
                    xi = (torch.tensor(calls[1:], dtype=DT) - 0.5) / 1.0
                    tolh = (1e-11 if dt_ == torch.float64 else 2e-5) * max(nq, 4)
                    if out.dtype != dt_:
                        why = "result dtype %s for a %s call" % (out.dtype, dt_)
                    elif len(calls) != nq + 1:
                        why = "%d evaluations for an %d-point rule" % (len(calls) - 1, nq)
                    else:
                        for k in range(0, min(2 * nq, 40)):
                            m = float((w * legendre(k, xi)).sum())
                            if abs(m - (2.0 if k == 0 else 0.0)) > tolh:
                                why = "sum_i w_i P_%d(x_i) = %.3e instead of %s: not the %s Gauss rule" % (k, m, 2 if k == 0 else 0, c_["call"]["dtype"])
                                break
                except Exception as e:
                    why = "raised %s: %s" % (type(e).__name__, str(e)[:100])
                if why:
                    ctx.violation("quad/history/%s-after-%s" % (c_["call"]["dtype"], "+".join(sorted(set(p_["call"]["dtype"] for p_ in hist[:pos]))) or "nothing"),
                                  "quad(n=%d, %s) as call %d of the history %s: %s" % (nq, c_["call"]["dtype"], pos + 1, [(p_["call"]["dtype"], nmap[p_["call"]["n"]]) for p_ in hist], why),
                                  {"history": [(p_["call"]["dtype"], nmap[p_["call"]["n"]]) for p_ in hist]})
                    break
    ctx.replayed = nexec[0] + nhist
    ctx.notes.update(cases=n)
    ctx.exhaustive = True
    ctx.assumptions += [
        "exact to degree 2n-1 is checked as Legendre orthogonality sum_i w_i P_k(x_i) = 2*delta_k0 for k <= 2n-1 on the extracted (nodes, weights), tolerance 1e-11*max(n,4)",
        "the first call of the integrand is quad's probe of the output structure (at xl); the remaining n calls are the nodes",
        "TLC, SANY"]
    return ctx.finish(rule="case = (limit kinds, infinite flags, n given) from the TLC table | (n, interval, limits as numbers/tensors) rule extraction | polynomial laws | tuple | infinite limits")


def replay(data):
    print(data["what"])
    return 1
