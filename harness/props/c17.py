"""C17 - jac and hess are the true Jacobian and Hessian as differentiable operators.

Spec: JacCache.tla (identity-keyed cache of the operator under temporary parameter substitution) + ParamSubst.tla
(the substitution reaches object-held parameters).  TLC's state graph is replayed on real jac/hess operators with
different-VALUED tensors per identity; products are compared with dense autograd Jacobians at the point the
specification says, evaluation counts with the specification's counter.  A case table (functions x representations
x index selections x products x differentiation order) is checked against torch.autograd.functional.
"""
import itertools
import json
import os
import random
import warnings

import torch
import xitorch
import xitorch.grad
from xitorch import EditableModule

from vlib import tlc as tlcmod
from vlib.ctx import Machinery
from vlib.problems import Repr, base_tensors, MATH
from torch.autograd.functional import jacobian as tjac, hessian as thess

DT = torch.float64


class Obj(EditableModule):
    def __init__(self, A):
        self.A = A
        self.calls = 0

    def f(self, y, th):
        self.calls += 1
        return torch.tanh(self.A @ y) * th + y ** 2

    def g(self, y, th):
        self.calls += 1
        return (torch.tanh(self.A @ y) * th).sum() + (y ** 3).sum()

    # the same functions with non-differentiable arguments (a number, a tensor that does not require grad) in front
    def f2(self, k, w, y, th):
        return self.f(y, th) * k + w.sum() * 0

    def g2(self, k, w, y, th):
        return self.g(y, th) * k + w.sum() * 0

    def getparamnames(self, methodname, prefix=""):
        if methodname in ("f", "g", "f2", "g2"):
            return [prefix + "A"]
        raise KeyError(methodname)


def f_math(y, th, A):
    return torch.tanh(A @ y) * th + y ** 2


def g_math(y, th, A):
    return (torch.tanh(A @ y) * th).sum() + (y ** 3).sum()


class JacReplayer(object):
    def __init__(self, which, seed, shifted=False):
        g = torch.Generator().manual_seed(seed)
        self.ys = [torch.randn(2, generator=g, dtype=DT).requires_grad_() for _ in range(3)]
        self.ths = [torch.randn(2, generator=g, dtype=DT).requires_grad_() for _ in range(3)]
        self.obs = [torch.randn(2, 2, generator=g, dtype=DT).requires_grad_() for _ in range(3)]
        self.obj = Obj(self.obs[0])
        self.which = which
        self.shifted = shifted
        if shifted:
            w = torch.ones(2, dtype=DT)
            if which == "jac":
                self.op = xitorch.grad.jac(self.obj.f2, (1.0, w, self.ys[0], self.ths[0]), idxs=2)
            else:
                self.op = xitorch.grad.hess(self.obj.g2, (1.0, w, self.ys[0], self.ths[0]), idxs=2)
        elif which == "jac":
            self.op = xitorch.grad.jac(self.obj.f, (self.ys[0], self.ths[0]), idxs=0)
        else:
            self.op = xitorch.grad.hess(self.obj.g, (self.ys[0], self.ths[0]), idxs=0)
        self.calls0 = self.obj.calls
        self.frames = []
        self.x = torch.tensor([0.7, -1.3], dtype=DT)
        self.X = torch.tensor([[0.7, 0.2, 1.0], [-1.3, 0.5, 0.0]], dtype=DT)

    def dense(self, at):
        y, th, A = self.ys[at["y"]].detach(), self.ths[at["th"]].detach(), self.obs[at["ob"]].detach()
        if self.which == "jac":
            return tjac(lambda yy: f_math(yy, th, A), y)
        return thess(lambda yy: g_math(yy, th, A), y)

    def do(self, label):
        import re
        if label.startswith("Substitute"):
            m = re.search(r'y \|-> (\d+), th \|-> (\d+), ob \|-> (\d+)', label)
            if not m:
                m2 = dict(re.findall(r'(\w+) \|-> (\d+)', label))
                q = {k: int(v) for k, v in m2.items()}
            else:
                q = {"y": int(m.group(1)), "th": int(m.group(2)), "ob": int(m.group(3))}
            cm = self.op.uselinopparams(self.ys[q["y"]], self.ths[q["th"]], self.obs[q["ob"]])
            cm.__enter__()
            self.frames.append(cm)
            return None
        if label.startswith("Restore"):
            self.frames.pop().__exit__(None, None, None)
            return None
        p = label.split('"')[1]
        op = self.op
        fn = {"mv": lambda: op.mv(self.x), "rmv": lambda: op.rmv(self.x), "mm": lambda: op.mm(self.X), "rmm": lambda: op.rmm(self.X),
              "fm": lambda: op.fullmatrix(), "Hmv": lambda: op.H.mv(self.x)}[p]
        return p, fn()

    def expected(self, p, D):
        Dh = D.transpose(-2, -1)
        return {"mv": D @ self.x, "rmv": Dh @ self.x, "mm": D @ self.X, "rmm": Dh @ self.X, "fm": D, "Hmv": Dh @ self.x}[p]

    def close(self):
        while self.frames:
            self.frames.pop().__exit__(None, None, None)


def graph_replay(ctx, depth, nprod, budget, rng):
    c = dict(Ids={0, 1, 2}, MaxDepth=depth, MaxProducts=nprod, KeyHasObj=True, KeyHasY=True)
    t, cf = tlcmod.gen_mc(ctx.work, "JacCache", "MC_JC", c, invariants=["AtCurrent", "ReevalIffChanged", "Unwound"])
    dot = os.path.join(ctx.work, "jc.dot")
    ctx.model_check(t, cf, workers=8, dump_dot=dot, label="JacCache graph", timeout=600)
    nodes, inits, edges = tlcmod.parse_dot(dot)
    os.remove(dot)
    out = {}
    for s, d, lab in edges:
        out.setdefault(s, []).append((d, lab))
    path = {inits[0]: []}
    order = [inits[0]]
    for s in order:
        for d, lab in out.get(s, []):
            if d not in path:
                path[d] = path[s] + [(lab, d)]
                order.append(d)
    alledges = [(s, d, lab) for s in order for d, lab in out.get(s, []) if lab.startswith("Product")]
    rng.shuffle(alledges)
    n = 0
    for s, d, lab in alledges[:budget]:
        for which, shifted in (("jac", False), ("hess", False), ("jac", True), ("hess", True)):
            n += 1
            rp = JacReplayer(which, ctx.seed + 3, shifted)
            why = None
            acts = []
            try:
                for l2, _ in path[s]:
                    acts.append(l2)
                    rp.do(l2)
                calls_before = rp.obj.calls
                acts.append(lab)
                p, val = rp.do(lab)
                st = nodes[d]
                D = rp.dense(st["cur"])
                exp = rp.expected(p, D)
                if tuple(val.shape) != tuple(exp.shape):
                    why = "shape %s, expected %s" % (tuple(val.shape), tuple(exp.shape))
                elif not torch.allclose(val, exp, atol=1e-10, rtol=1e-9):
                    Dorig = rp.dense({"y": 0, "th": 0, "ob": 0})
                    where = "the ORIGINAL tensors" if torch.allclose(val, rp.expected(p, Dorig), atol=1e-10) else "neither the substituted nor the original tensors"
                    why = "%s product differs from the dense %s at the substituted tensors %s (it matches %s)" % (p, which, st["cur"], where)
                else:
                    reev = (rp.obj.calls - calls_before) > 0
                    if reev != bool(st["last"]["reeval"]):
                        why = "function %s re-evaluated, specification says %s" % ("was" if reev else "was not", st["last"]["reeval"])
            except Exception as e:
                why = "%s: %s" % (type(e).__name__, e)
            finally:
                rp.close()
            ctx.case(key=(which, shifted, tuple(acts)), sample={"operator": which, "actions": acts, "spec_last": nodes[d]["last"]} if n % 300 == 1 else None)
            if why:
                ctx.violation("jaccache/%s%s/%s" % (which, "-after-nondiff-args" if shifted else "", lab.split('"')[1]),
                              "%s operator%s after %s: %s" % (which, " of argument 2 behind a number and a no-grad tensor" if shifted else "", acts, why), {"which": which, "actions": acts})
    return len(nodes), n



# ------------------------------------------------------------------ gradient mode histories (JacGradMode.tla)
def gradmode_replay(ctx, budget, rng):
    """every action sequence of JacGradMode.tla that ends in a product, on real jac / hess operators: the operator is built
    with recording on or off, products are taken in the mode the specification names, with or without an open substitution;
    a product taken while recording carries a graph whose derivatives w.r.t. the point, the explicit and the object-held
    parameter equal those of the dense reference product"""
    c = dict(MaxProducts=2, ModeAtProduct=True)
    t, cf = tlcmod.gen_mc(ctx.work, "JacGradMode", "MC_JGM", c, invariants=["GraphIffRecording"])
    dot = os.path.join(ctx.work, "jgm.dot")
    ctx.model_check(t, cf, workers=4, dump_dot=dot, label="JacGradMode graph", timeout=300)
    nodes, inits, edges = tlcmod.parse_dot(dot)
    os.remove(dot)
    c2 = dict(c, ModeAtProduct=False)
    t2, cf2 = tlcmod.gen_mc(ctx.work, "JacGradMode", "MC_JGM_dev", c2, invariants=["GraphIffRecording"])
    ctx.expect_violation(t2, cf2, inv="GraphIffRecording", label="deviation ModeAtProduct", workers=4, timeout=300)
    out = {}
    for s, d, lab in edges:
        out.setdefault(s, []).append((d, lab))
    seqs = []

    def walk(s, acts, depth):
        for d, lab in out.get(s, []):
            if lab.startswith("Toggle") and acts and acts[-1][0].startswith("Toggle"):
                continue
            a2 = acts + [(lab, d)]
            if lab.startswith("Product"):
                seqs.append(a2)
            if depth > 1:
                walk(d, a2, depth - 1)
    for i0 in inits:
        walk(i0, [("Init", i0)], 3)
    rng.shuffle(seqs)
    n = 0
    W = None
    for seq in seqs[:budget]:
        built = bool(nodes[seq[0][1]]["built"])
        for which in ("jac", "hess"):
            n += 1
            why = None
            acts = ["built-recording" if built else "built-under-no_grad"]
            rp = None
            try:
                with torch.set_grad_enabled(built):
                    rp = JacReplayer(which, ctx.seed + 5)
                cur = 0
                val = p = None
                for lab, d in seq[1:]:
                    st = nodes[d]
                    if lab.startswith("Toggle"):
                        if st["sub"]:
                            cm = rp.op.uselinopparams(rp.ys[1], rp.ths[1], rp.obs[1])
                            cm.__enter__()
                            rp.frames.append(cm)
                            cur = 1
                            acts.append("substitute")
                        else:
                            rp.frames.pop().__exit__(None, None, None)
                            cur = 0
                            acts.append("restore")
                        continue
                    rec = bool(st["last"]["rec"])
                    acts.append("%s[%s]" % (st["last"]["p"], "recording" if rec else "no_grad"))
                    with torch.set_grad_enabled(rec):
                        p, val = rp.do(lab)
                st = nodes[seq[-1][1]]
                rec = bool(st["last"]["rec"])
                y, th, A = rp.ys[cur], rp.ths[cur], rp.obs[cur]
                if which == "jac":
                    D = tjac(lambda yy: f_math(yy, th, A), y, create_graph=True)
                else:
                    D = thess(lambda yy: g_math(yy, th, A), y, create_graph=True)
                exp = rp.expected(p, D)
                if tuple(val.shape) != tuple(exp.shape):
                    why = "shape %s, expected %s" % (tuple(val.shape), tuple(exp.shape))
                elif not torch.allclose(val, exp, atol=1e-10, rtol=1e-9):
                    why = "%s product differs from the dense %s by %.2e" % (p, which, float((val - exp).abs().max()))
                elif bool(val.requires_grad) != bool(st["last"]["graph"]):
                    why = "the product %s a graph, the specification says %s (recording at the product: %s, at construction: %s)" % (
                        "carries" if val.requires_grad else "does not carry", st["last"]["graph"], rec, built)
                elif rec:
                    g = torch.Generator().manual_seed(11)
                    Wt = torch.randn(exp.shape, generator=g, dtype=DT)
                    got = torch.autograd.grad((val * Wt).sum(), (y, th, A), allow_unused=True, create_graph=True)
                    ref = torch.autograd.grad((exp * Wt).sum(), (y, th, A), allow_unused=True, create_graph=True)
                    for nm, a, b in zip(("the point", "the explicit parameter", "the object-held parameter"), got, ref):
                        a0 = torch.zeros_like(b) if a is None else a
                        if not torch.allclose(a0, b, atol=1e-9, rtol=1e-8):
                            why = "derivative of the %s product w.r.t. %s differs from the dense reference by %.2e (max reference %.2e)" % (
                                p, nm, float((a0 - b).abs().max()), float(b.abs().max()))
                            break
                    if why is None and got[0] is not None and got[0].requires_grad:
                        g2 = torch.autograd.grad(got[0].sum(), (y,), allow_unused=True)[0]
                        r2 = torch.autograd.grad(ref[0].sum(), (y,), allow_unused=True)[0]
                        g2 = torch.zeros_like(y) if g2 is None else g2
                        r2 = torch.zeros_like(y) if r2 is None else r2
                        if not torch.allclose(g2, r2, atol=1e-8, rtol=1e-7):
                            why = "second derivative of the %s product w.r.t. the point differs from the dense reference by %.2e" % (p, float((g2 - r2).abs().max()))
                    elif why is None and bool(ref[0].requires_grad) and float(torch.autograd.grad(ref[0].sum(), (y,), allow_unused=True)[0].abs().max()) > 1e-9:
                        why = "the first derivative of the %s product w.r.t. the point carries no graph although recording is on" % p
            except Exception as e:
                why = "%s: %s" % (type(e).__name__, str(e)[:160])
            finally:
                if rp is not None:
                    rp.close()
            ctx.case(key=("gradmode", which, tuple(acts)), sample={"operator": which, "actions": acts} if n % 200 == 1 else None)
            if why:
                ctx.violation("jacgradmode/%s/%s/%s" % (which, acts[0], p), "%s operator, %s: %s" % (which, acts, why), {"which": which, "actions": acts})
    return len(nodes), n, len(seqs)

class AddObj(EditableModule):
    """a function with an additive object-held tensor: its Jacobian / Hessian does not depend on `bias`"""

    def __init__(self, A, bias):
        self.A = A
        self.bias = bias

    def f(self, y, th, shift):
        return torch.tanh(self.A @ y) * th + y ** 2 + self.bias + shift

    def g(self, y, th, shift):
        return (torch.tanh(self.A @ y) * th).sum() + (y ** 3).sum() + self.bias.sum() + shift.sum()

    def getparamnames(self, methodname, prefix=""):
        return [prefix + "A", prefix + "bias"]


class AddNN(torch.nn.Module):
    def __init__(self, A, bias):
        super().__init__()
        self.A = torch.nn.Parameter(A)
        self.bias = torch.nn.Parameter(bias)

    def forward(self, y, th, shift):
        return torch.tanh(self.A @ y) * th + y ** 2 + self.bias + shift

    def g(self, y, th, shift):
        return (torch.tanh(self.A @ y) * th).sum() + (y ** 3).sum() + self.bias.sum() + shift.sum()


def additive_rows(ctx):
    """parameters the Jacobian / Hessian does not depend on (an additive tensor held by the function's object, an additive explicit
    argument): the operator is a function of ALL its declared parameters, so every product must be differentiable w.r.t. them in the
    same way - whatever mv supports (a zero gradient without allow_unused), rmv / mm / rmm / fullmatrix / .H products support too"""
    n = 0
    g = torch.Generator().manual_seed(3)
    for kind in ("edit", "nn"):
        for which in ("jac", "hess"):
            A = torch.randn(2, 2, generator=g, dtype=DT).requires_grad_()
            bias = torch.randn(2, generator=g, dtype=DT).requires_grad_()
            th = torch.randn(2, generator=g, dtype=DT).requires_grad_()
            shift = torch.randn(2, generator=g, dtype=DT).requires_grad_()
            y = torch.randn(2, generator=g, dtype=DT).requires_grad_()
            if kind == "edit":
                obj = AddObj(A, bias)
                fn = obj.f if which == "jac" else obj.g
                held = bias
            else:
                obj = AddNN(A.detach().clone(), bias.detach().clone())
                fn = obj.forward if which == "jac" else obj.g
                held = obj.bias
            x = torch.tensor([0.7, -1.3], dtype=DT)
            X = torch.tensor([[0.7, 0.2, 1.0], [-1.3, 0.5, 0.0]], dtype=DT)
            prods = {"mv": lambda o: o.mv(x), "rmv": lambda o: o.rmv(x), "mm": lambda o: o.mm(X), "rmm": lambda o: o.rmm(X), "fm": lambda o: o.fullmatrix(),
                     "H.mv": lambda o: o.H.mv(x), "H.fm": lambda o: o.H.fullmatrix()}
            outcome = {}
            for pname, call in prods.items():
                n += 1
                ctx.case(key=("additive", kind, which, pname))
                res = {}
                for tname, tens in (("object-held", held), ("explicit", shift)):
                    try:
                        op = (xitorch.grad.jac if which == "jac" else xitorch.grad.hess)(fn, (y, th, shift), idxs=0)
                        val = call(op)
                        gr, = torch.autograd.grad(val.sum(), [tens])
                        res[tname] = "zero" if float(gr.abs().max()) == 0.0 else "nonzero %.2e" % float(gr.abs().max())
                    except Exception as e:
                        res[tname] = "raises %s" % type(e).__name__
                outcome[pname] = res
            for pname, res in outcome.items():
                for tname in res:
                    if res[tname].startswith("nonzero"):
                        ctx.violation("jac/additive/%s/%s" % (which, pname), "%s operator of a %s method: derivative of the %s product w.r.t. an additive %s tensor is %s"
                                      % (which, kind, pname, tname, res[tname]), {"kind": kind, "which": which, "product": pname})
                    elif res[tname] != outcome["mv"][tname]:
                        ctx.violation("jac/additive/%s/%s" % (which, pname), "%s operator of a %s method: differentiating the %s product w.r.t. an additive %s tensor %s, the mv product %s"
                                      % (which, kind, pname, tname, res[tname], outcome["mv"][tname]), {"kind": kind, "which": which, "product": pname})
    # affine / quadratic functions with constant coefficients: the Jacobian / Hessian is a constant, so every product is constant in
    # every differentiable tensor.  JacGradMode.GraphIffRecording: taken while recording, the product still carries a graph (its
    # derivatives are exact zeros, not an error)
    M0 = torch.tensor([[0.4, -1.2], [0.7, 0.3]], dtype=DT)
    S0 = torch.tensor([[2.0, 0.5], [0.5, 1.0]], dtype=DT)
    for which in ("jac", "hess"):
        yv = torch.tensor([0.3, -0.8], dtype=DT, requires_grad=True)
        bv = torch.tensor([1.0, 2.0], dtype=DT, requires_grad=True)
        fn = (lambda y_, b_: M0 @ y_ + b_) if which == "jac" else (lambda y_, b_: 0.5 * (y_ * (S0 @ y_)).sum() + (b_ * y_).sum())
        D = M0 if which == "jac" else S0
        x = torch.tensor([0.7, -1.3], dtype=DT)
        X = torch.tensor([[0.7, 0.2, 1.0], [-1.3, 0.5, 0.0]], dtype=DT)
        prods = {"mv": (lambda o: o.mv(x), D @ x), "rmv": (lambda o: o.rmv(x), D.T @ x), "mm": (lambda o: o.mm(X), D @ X), "rmm": (lambda o: o.rmm(X), D.T @ X),
                 "fm": (lambda o: o.fullmatrix(), D), "H.mv": (lambda o: o.H.mv(x), D.T @ x)}
        for pname, (call, exp) in prods.items():
            n += 1
            ctx.case(key=("constant-operator", which, pname))
            why = None
            try:
                op = (xitorch.grad.jac if which == "jac" else xitorch.grad.hess)(fn, (yv, bv), idxs=0)
                val = call(op)
                if not torch.allclose(val, exp, atol=1e-12):
                    why = "value differs from the constant matrix's product by %.2e" % float((val - exp).abs().max())
                elif not val.requires_grad:
                    why = "the product carries no graph although it was taken while recording and its arguments require grad"
                else:
                    gs = torch.autograd.grad(val.sum(), [yv, bv], allow_unused=True)
                    if any(g_ is not None and float(g_.abs().max()) != 0.0 for g_ in gs):
                        why = "non-zero derivative of a constant product"
            except Exception as e:
                why = "raised %s: %s" % (type(e).__name__, str(e)[:120])
            if why:
                ctx.violation("jac/constant-operator/%s/%s" % (which, pname), "%s operator of %s function with constant coefficients, %s product: %s"
                              % (which, "an affine" if which == "jac" else "a quadratic", pname, why), {"which": which, "product": pname})
    return n


# ------------------------------------------------------------------ case table
def table(ctx, thorough):
    n = additive_rows(ctx)
    W, c0 = base_tensors(ctx.seed)
    nn_ = W.shape[0]
    kinds = ["pure", "nn", "edit", "mixed", "sib", "msib", "msib3", "editnn"]
    for kind in kinds:
        for fname, mathname in (("jac", "vec"), ("hess", "obj")):
            R = Repr(kind, W, c0)
            y = torch.linspace(-0.4, 0.6, nn_, dtype=DT).requires_grad_()
            params = (y, *R.params)
            fn = R.fn(mathname)
            Wl, cl = R.leaves
            if fname == "jac":
                mkop = lambda: xitorch.grad.jac(fn, params, idxs=0)
                ref = lambda yy, WW, cc: tjac(lambda z: MATH["vec"](z, WW, cc, R.s), yy, create_graph=True)
            else:
                mkop = lambda: xitorch.grad.hess(fn, params, idxs=0)
                ref = lambda yy, WW, cc: thess(lambda z: MATH["obj"](z, WW, cc, R.s), yy, create_graph=True)
            D = ref(y, Wl, cl)
            x = torch.linspace(0.5, 1.5, nn_, dtype=DT)
            X = torch.stack([x, x ** 2], dim=-1)
            xb = torch.stack([x, -x, x * 0.5]).reshape(3, 1, nn_)
            prods = {"mv": (lambda o: o.mv(x), D @ x), "rmv": (lambda o: o.rmv(x), D.T @ x), "mm": (lambda o: o.mm(X), D @ X),
                     "rmm": (lambda o: o.rmm(X), D.T @ X), "fm": (lambda o: o.fullmatrix(), D), "H.mv": (lambda o: o.H.mv(x), D.T @ x),
                     "mv-batched": (lambda o: o.mv(xb), (D @ xb.unsqueeze(-1)).squeeze(-1)),
                     "H.fm": (lambda o: o.H.fullmatrix(), D.T)}
            for pname, (call, exp) in prods.items():
                n += 1
                ctx.case(key=("table", kind, fname, pname))
                try:
                    # a fresh operator per product: the operator caches an autograd graph that a backward pass
                    # without retain_graph would free (ordinary torch semantics, not demanded otherwise by C17)
                    val = call(mkop())
                    why = None
                    if tuple(val.shape) != tuple(exp.shape):
                        why = "shape %s expected %s" % (tuple(val.shape), tuple(exp.shape))
                    elif not torch.allclose(val, exp, atol=1e-10, rtol=1e-9):
                        why = "value differs from torch.autograd.functional by %.2e" % float((val - exp).abs().max())
                    else:
                        # first and second order derivatives of the product w.r.t. the point and the leaves
                        wv = torch.cos(torch.arange(val.numel(), dtype=DT)).reshape(val.shape)
                        ins = [y, Wl, cl]
                        g1 = torch.autograd.grad((val * wv).sum(), ins, create_graph=True, allow_unused=True)
                        e1 = torch.autograd.grad((exp * wv).sum(), ins, create_graph=True, allow_unused=True)
                        for a, b, nm in zip(g1, e1, ("y", "W", "c")):
                            a = torch.zeros_like(b) if a is None and b is not None else a
                            if b is None:
                                continue
                            if not torch.allclose(a, b, atol=1e-9, rtol=1e-8):
                                why = "first derivative of the product w.r.t. %s differs by %.2e" % (nm, float((a - b).abs().max()))
                        if why is None:
                            s1 = sum((a ** 2).sum() for a in g1 if a is not None)
                            s2 = sum((b ** 2).sum() for b in e1 if b is not None)
                            h1 = torch.autograd.grad(s1, ins, allow_unused=True, retain_graph=True)
                            h2 = torch.autograd.grad(s2, ins, allow_unused=True, retain_graph=True)
                            for a, b, nm in zip(h1, h2, ("y", "W", "c")):
                                if b is None:
                                    continue
                                a = torch.zeros_like(b) if a is None else a
                                if not torch.allclose(a, b, atol=1e-8, rtol=1e-7):
                                    why = "second derivative of the product w.r.t. %s differs by %.2e" % (nm, float((a - b).abs().max()))
                except Exception as e:
                    why = "%s: %s" % (type(e).__name__, str(e)[:200])
                if why:
                    ctx.violation("jactable/%s/%s/%s" % (fname, kind, pname), "%s of %s representation, %s: %s" % (fname, kind, pname, why),
                                  {"kind": kind, "f": fname, "product": pname})
    # index selections, shapes incl. scalars, non-differentiable argument
    def fmulti(a, b, s, k):
        return (a.reshape(-1)[:2] * b.sum() * k + s).reshape(2, 1)
    a = torch.randn(2, 3, dtype=DT).requires_grad_()
    b = torch.randn(2, dtype=DT).requires_grad_()
    s = torch.tensor(0.3, dtype=DT).requires_grad_()
    nd = torch.randn(2, dtype=DT)
    for idxs in (None, 0, 1, 2, [0, 2], [1], (2, 1, 0)):
        n += 1
        ctx.case(key=("idxs", str(idxs)))
        ops = xitorch.grad.jac(fmulti, (a, b, s, 2.0), idxs=idxs)
        sel = [0, 1, 2] if idxs is None else ([idxs] if isinstance(idxs, int) else list(idxs))
        if isinstance(idxs, int):
            ops = [ops]
        why = None
        if len(ops) != len(sel):
            why = "%d operators for %d indices" % (len(ops), len(sel))
        else:
            full = tjac(lambda aa, bb, ss: fmulti(aa, bb, ss, 2.0), (a, b, s))
            for o, i in zip(ops, sel):
                D = full[i].reshape(2, -1)
                if tuple(o.shape) != tuple(D.shape) or not torch.allclose(o.fullmatrix(), D, atol=1e-12):
                    why = "operator for argument %d has shape %s / wrong matrix (expected %s)" % (i, tuple(o.shape), tuple(D.shape))
        if why:
            ctx.violation("jacidx/%s" % (idxs,), "jac with idxs=%s: %s" % (idxs, why), {"idxs": str(idxs)})
    # (the non-differentiable argument in every position, named by an integer - including 0 -, a list or a tuple)
    for bad, params in ((1, (a, nd)), (1, (a, 2.0)), ([0, 1], (a, nd)), (0, (nd, a)), (0, (2.0, a)), ([0], (nd, a)), ((1, 0), (nd, a)), (0, (nd, a, b)), ((0,), (2.0, a))):
        n += 1
        ctx.case(key=("reject", str(bad), type(params[1]).__name__, type(params[0]).__name__, len(params)))
        for fn_ in (xitorch.grad.jac, xitorch.grad.hess):
            try:
                fn_(lambda p, q, *r: (p * q).sum() if not isinstance(p, float) and not isinstance(q, float) else (q.sum() * p if isinstance(p, float) else p.sum() * q), params, idxs=bad)
                ctx.violation("jacreject", "%s accepted a derivative w.r.t. a non-differentiable argument (idxs=%s)" % (fn_.__name__, bad), {"idxs": str(bad)})
            except TypeError:
                pass
    return n


def run(ctx):
    thorough = ctx.tier == "thorough"
    rng = random.Random(ctx.seed)
    torch.manual_seed(ctx.seed)
    ctx.check_proof("JacCache_proofs")         # AtCurrent, ReevalIffChanged, Unwound for every nesting depth / number of products
    for sw in ("KeyHasObj", "KeyHasY"):
        c = dict(Ids={0, 1}, MaxDepth=2, MaxProducts=2, KeyHasObj=True, KeyHasY=True)
        c[sw] = False
        t, cf = tlcmod.gen_mc(ctx.work, "JacCache", "MC_JC_dev_" + sw, c, invariants=["AtCurrent", "ReevalIffChanged", "Unwound"])
        ctx.expect_violation(t, cf, label="deviation " + sw, workers=4, timeout=300)
    with warnings.catch_warnings():
        warnings.simplefilter("ignore")
        nn_, ne = graph_replay(ctx, 2, 2 if not thorough else 3, 400 if not thorough else 6000, rng)
        nt = table(ctx, thorough)
        gm_states, gm_n, gm_all = gradmode_replay(ctx, 150 if not thorough else 10 ** 6, rng)
    ctx.replayed = ne + gm_n
    ctx.notes.update(jaccache_states=nn_, product_edges_replayed=ne, table_cases=nt, gradmode_states=gm_states, gradmode_sequences_replayed=gm_n, gradmode_sequences=gm_all)
    ctx.assumptions += [
        "three distinct-valued tensors per identity for the point, the explicit and the object-held parameter: a product taken at the wrong tensors differs numerically",
        "dense references: torch.autograd.functional.jacobian / hessian of the same mathematics written without xitorch",
        "gradient-mode histories: every action sequence of JacGradMode.tla with at most three actions that ends in a product (quick: seeded subset)",
        "TLC, SANY"]
    return ctx.finish(
        rule="case = (operator kind, action sequence ending in a product) for the product edges TLC enumerates (quick: seeded subset); "
             "(operator kind, construction mode, gradient-mode history ending in a product); "
             "(representation, jac|hess, product) with first and second derivatives; (index selection); (non-differentiable argument)")


def replay(data):
    print(data["what"])
    return 1
