"""C19 - calls do not keep tensors alive after their results are dropped.

Spec: RefGraph.tla (reference-counting reclamation of a recorded ownership graph, all orders of dropping the
caller's handles).  For every functional x method x function kind x usage history the ownership graph is recorded
from the real objects (interpreter-reported referents + tensor -> grad_fn), TLC decides whether any tensor allocated
by the call stays live, and the same scenario is measured on the real objects with the cyclic collector disabled
(the project's own criterion: number of live torch.Tensor objects); model and measurement must agree.
"""
import gc
import json
import os
import types
import warnings

import torch
import xitorch
import xitorch.linalg
import xitorch.integrate
import xitorch.interpolate
from xitorch import LinearOperator

from vlib import tlc as tlcmod
from vlib.ctx import Machinery, SPEC
from vlib.problems import Repr, base_tensors, run_functional, contraction, FUNCTIONALS, METHOD_OPTS

DT = torch.float64
SKIP_TYPES = (type, types.ModuleType, types.FunctionType, types.BuiltinFunctionType, types.MethodType, str, bytes, int, float, bool, type(None),
              torch.dtype, torch.device, torch.Size)


def live_tensor_count():
    n = 0
    for o in gc.get_objects():
        try:
            if isinstance(o, torch.Tensor):
                n += 1
        except Exception:
            pass
    return n


def extract(handles, before_ids, limit=400):
    """ownership graph reachable from the handles: (n, edges, handle nodes, call-allocated tensor nodes, labels)"""
    num = {}
    labels = []
    objs = []
    edges = set()
    stack = list(handles)
    roots = [id(h) for h in handles]

    def node(o):
        if id(o) not in num:
            num[id(o)] = len(num) + 1
            objs.append(o)
            labels.append(type(o).__name__ + (str(tuple(o.shape)) if isinstance(o, torch.Tensor) else ""))
        return num[id(o)]
    for h in handles:
        node(h)
    seen = set()
    while stack and len(num) < limit:
        o = stack.pop()
        if id(o) in seen:
            continue
        seen.add(id(o))
        ks = list(gc.get_referents(o))
        if isinstance(o, torch.Tensor) and o.grad_fn is not None:
            ks.append(o.grad_fn)
        for k in ks:
            if isinstance(k, SKIP_TYPES):
                continue
            if id(k) in before_ids:
                continue          # objects that existed before the call belong to the caller / the library, not to this call
            edges.add((node(o), node(k)))
            stack.append(k)
    tensors = [num[id(o)] for o in objs if isinstance(o, torch.Tensor) and id(o) not in before_ids]
    hn = [num[i] for i in roots]
    n = len(num)
    lab = list(labels)
    del objs, stack, seen
    return n, sorted(edges), hn, tensors, lab


# ------------------------------------------------------------------ scenarios
def scen_problems(fname, kind, opts, seed):
    W, c = base_tensors(seed)
    R = Repr(kind, W, c)

    def call():
        return run_functional(fname, R, opts=opts), R.leaves
    return call, R


def scen_linalg(which, method, seed, opts=None, operands=""):
    """operands: which optional operands are given - "E" (shifts), "M" (metric), "EM"; each operator is rebuilt in every call,
    as a training loop does"""
    g = torch.Generator().manual_seed(seed)
    Q, _ = torch.linalg.qr(torch.randn(5, 5, generator=g, dtype=DT))
    Amat = ((Q * torch.linspace(1.0, 3.0, 5, dtype=DT)) @ Q.T).requires_grad_()
    B = torch.randn(5, 2, generator=g, dtype=DT).requires_grad_()
    Mdiag = torch.linspace(0.8, 1.4, 5, dtype=DT).requires_grad_()
    Evals = torch.tensor([0.31, -0.2], dtype=DT).requires_grad_()
    keep = (Amat, B, Mdiag, Evals)

    def call():
        As = (Amat + Amat.T) * 0.5
        A = LinearOperator.m(As, is_hermitian=True)
        M = LinearOperator.m(torch.diag(Mdiag * 1.0), is_hermitian=True) if "M" in operands else None
        E = Evals * 1.0 if "E" in operands else None
        leaves = [Amat] + ([Mdiag] if M is not None else []) + ([Evals] if E is not None else [])
        if which == "solve":
            return xitorch.linalg.solve(A, B, E, M, method=method, **(opts or {})), leaves + [B]
        if which in ("symeig", "lsymeig", "usymeig"):
            ev, evec = getattr(xitorch.linalg, which)(A, neig=2, M=M, method=method, **(opts or {}))
            return torch.cat([ev, (evec ** 2).reshape(-1)]), leaves
        u, s, vh = xitorch.linalg.svd(LinearOperator.m(Amat[:, :4], is_hermitian=False), k=2, method=method)
        return torch.cat([s, (u ** 2).reshape(-1), (vh ** 2).reshape(-1)]), [Amat]
    return call, keep


class _Stencil(LinearOperator):
    """matrix-free, non-symmetric, only _mv: adjoint products go through the library's own fallback"""

    def __init__(self, d, c):
        super().__init__(shape=(6, 6), is_hermitian=False, dtype=DT)
        self.d = d
        self.c = c

    def _mv(self, x):
        return self.d * x + self.c * torch.roll(x, 1, dims=-1)

    def _getparamnames(self, prefix=""):
        return [prefix + "d", prefix + "c"]


def scen_longlived_operator(which, method, seed, rederived):
    """ONE user-defined operator object built outside the loop and handed to every call (the other linear-algebra scenarios rebuild
    their operators per call); rederived: its tensor is re-computed from a learnable parameter before every call"""
    raw = torch.linspace(3.0, 4.0, 6, dtype=DT).requires_grad_()
    c = torch.linspace(0.5, 1.0, 6, dtype=DT).requires_grad_()
    B = torch.linspace(1.0, 2.0, 12, dtype=DT).reshape(6, 2).requires_grad_()
    op = _Stencil(raw, c)
    keep = (raw, c, B, op)

    def call():
        if rederived:
            op.d = torch.nn.functional.softplus(raw)
        if which == "solve":
            return xitorch.linalg.solve(op, B, method=method, **({"rtol": 1e-12, "atol": 1e-12} if method != "exactsolve" else {})), [raw, c, B]
        u, s_, vh = xitorch.linalg.svd(op, k=2, method=method)
        return torch.cat([s_, (u ** 2).reshape(-1), (vh ** 2).reshape(-1)]), [raw, c]
    return call, keep


def scen_quad_limits(kind, seed):
    """quad over half-infinite / infinite intervals (the change of variables is set up per call), limits as numbers or tensors"""
    a = torch.tensor(0.7, dtype=DT).requires_grad_()
    xl = torch.tensor(0.2, dtype=DT).requires_grad_()
    keep = (a, xl)
    inf_ = float("inf")

    def call():
        f = lambda x, a_: torch.exp(-a_ * x * x)
        if kind == "R":
            return xitorch.integrate.quad(f, -inf_, inf_, params=(a,), n=20), [a]
        if kind == "half":
            return xitorch.integrate.quad(f, xl, inf_, params=(a,), n=20), [a, xl]
        return xitorch.integrate.quad(f, torch.tensor(-inf_, dtype=DT), xl * 1.0, params=(a,), n=20), [a, xl]
    return call, keep


def scen_singular(which, seed):
    """inputs that send the direct shifted solve through its singular-matrix fallback (a shift exactly on the spectrum)"""
    d = torch.tensor([1.0, 2.0, 3.0, 4.0, 5.0], dtype=DT).requires_grad_()
    B = torch.ones(5, 2, dtype=DT).requires_grad_()
    keep = (d, B)

    def call():
        Am = torch.diag(d)
        A = LinearOperator.m(Am, is_hermitian=True)
        if which == "symeig-backward":
            ev, evec = xitorch.linalg.symeig(A, neig=2, method="custom_exacteig")
            return torch.cat([ev, (evec ** 2).reshape(-1)]), [d]
        return xitorch.linalg.solve(A, B, torch.tensor([2.0, 7.0], dtype=DT)), [d, B]
    return call, keep


def scen_interp(which, method, seed):
    xs = torch.linspace(0.0, 1.0, 7, dtype=DT) ** 1.2
    ys = torch.sin(3 * xs).requires_grad_()
    keep = (xs, ys)

    def call():
        if which == "interp1d":
            return xitorch.interpolate.Interp1D(xs, ys, method=method)(torch.tensor([0.1, 0.45, 0.8], dtype=DT)), [ys]
        return xitorch.integrate.SQuad(xs, method=method).cumsum(ys, dim=-1), [ys]
    return call, keep


# options that switch code paths inside the methods (limited-memory updates, line search off, history sizes, tolerances)
OPTION_VARIANTS = {
    "rootfinder": [{"method": "newton"}, {"method": "broyden1", "max_rank": 2}, {"method": "broyden2", "max_rank": 2},
                   {"method": "broyden1", "line_search": False, "alpha": -0.5}, {"method": "broyden1", "maxiter": 2}],
    "equilibrium": [{"method": "anderson_acc", "msize": 2, "beta": 0.8}, {"method": "broyden2", "max_rank": 3}, {"method": "newton"}],
    "minimize": [{"method": "adam", "step": 0.05, "maxiter": 40}, {"method": "broyden1", "max_rank": 2}, {"method": "gd", "step": 0.3, "gamma": 0.5, "maxiter": 40}],
    "solve_ivp": [{"method": "rk23"}, {"method": "rk38"}, {"method": "euler"}, {"method": "rk45", "rtol": 1e-8, "atol": 1e-10}],
    "quad": [{"n": 7}],
}
SOLVE_VARIANTS = [("broyden1", {"max_rank": 2}), ("broyden1", {}), ("gmres", {"max_niter": 3}), ("cg", {"max_niter": 2}), ("bicgstab", {"rtol": 1e-12, "atol": 1e-14})]


def scenarios(thorough, seed):
    out = []
    for fname, variants in OPTION_VARIANTS.items():
        for opts in variants:
            tag = ",".join("%s=%s" % kv for kv in sorted(opts.items()) if kv[0] != "method")
            out.append(("%s/%s[%s]/edit" % (fname, opts.get("method", "default"), tag), lambda f=fname, o=opts: scen_problems(f, "edit", o, seed)))
    for m, o in SOLVE_VARIANTS:
        out.append(("solve/%s[%s]/dense" % (m, ",".join("%s=%s" % kv for kv in sorted(o.items()))), lambda m=m, o=o: scen_linalg("solve", m, seed, o)))
    for fname in FUNCTIONALS:
        for oi, opts in enumerate(METHOD_OPTS[fname] if thorough else METHOD_OPTS[fname][:2]):
            for kind in (("pure", "edit", "nn") if (thorough or oi == 0) else ("edit",)):
                out.append(("%s/%s/%s" % (fname, opts.get("method", "default"), kind), lambda f=fname, k=kind, o=opts: scen_problems(f, k, o, seed)))
    for m in (["exactsolve", "cg", "bicgstab", "gmres", "broyden1", "custom_exactsolve"] if thorough else ["exactsolve", "cg", "bicgstab"]):
        out.append(("solve/%s/dense" % m, lambda m=m: scen_linalg("solve", m, seed)))
    for m in ("exacteig", "custom_exacteig", "davidson"):
        out.append(("symeig/%s/dense" % m, lambda m=m: scen_linalg("symeig", m, seed)))
        # optional operands: the generalised problem (metric M), the other end of the spectrum
        out.append(("symeig/%s/dense+M" % m, lambda m=m: scen_linalg("symeig", m, seed, operands="M")))
        if thorough or m == "davidson":
            out.append(("usymeig/%s/dense+M" % m, lambda m=m: scen_linalg("usymeig", m, seed, operands="M")))
            out.append(("lsymeig/%s/dense" % m, lambda m=m: scen_linalg("lsymeig", m, seed)))
    # (gmres with shifts is left out: its handling of E is the known finding recorded under C01, the call does not complete)
    for m in (["exactsolve", "cg", "bicgstab", "broyden1", "custom_exactsolve"] if thorough else ["exactsolve", "cg", "bicgstab"]):
        for operands in (("E", "EM") if thorough else ("EM",)):
            out.append(("solve/%s/dense+%s" % (m, operands), lambda m=m, operands=operands: scen_linalg("solve", m, seed, operands=operands)))
    # operators that outlive the calls (matrix-free, adjoint products through the fallback)
    for m in (["bicgstab", "gmres", "exactsolve", "cg"] if thorough else ["bicgstab"]):
        for red in (False, True):
            out.append(("solve/%s/long-lived-mv-only-operator%s" % (m, "+rederived" if red else ""), lambda m=m, red=red: scen_longlived_operator("solve", m, seed, red)))
    out.append(("svd/exacteig/long-lived-mv-only-operator", lambda: scen_longlived_operator("svd", "exacteig", seed, True)))
    for kind in (("R", "half", "half-tensor-inf") if thorough else ("R", "half")):
        out.append(("quad/leggauss/limits-%s" % kind, lambda kind=kind: scen_quad_limits(kind, seed)))
    out.append(("svd/davidson/dense", lambda: scen_linalg("svd", "davidson", seed)))
    out.append(("svd/exacteig/dense", lambda: scen_linalg("svd", "exacteig", seed)))
    out.append(("symeig/custom_exacteig/exactly-representable-spectrum", lambda: scen_singular("symeig-backward", seed)))
    out.append(("solve/exactsolve/shift-on-spectrum", lambda: scen_singular("solve", seed)))
    for m in ("linear",):
        out.append(("interp1d/%s" % m, lambda m=m: scen_interp("interp1d", m, seed)))
    for m in ("trapz", "simpson"):
        out.append(("squad/%s" % m, lambda m=m: scen_interp("squad", m, seed)))
    return out


def use(call, hist):
    """performs one usage history; returns the list of handles the caller ends up holding"""
    out, leaves = call()
    handles = [out]
    if hist != "fwd":
        g = torch.autograd.grad(contraction(out), leaves, create_graph=(hist in ("bwd2", "bwdg")), allow_unused=True, retain_graph=True)
        handles += [x for x in g if x is not None]
    if hist == "bwd2":
        s = sum((x ** 2).sum() for x in handles[1:])
        if s.requires_grad:
            g2 = torch.autograd.grad(s, leaves, allow_unused=True, retain_graph=True)
            handles += [x for x in g2 if x is not None]
    return handles


def run(ctx):
    thorough = ctx.tier == "thorough"
    graphs = []
    meas = {}
    gid = 0
    reps = 3
    with warnings.catch_warnings():
        warnings.simplefilter("ignore")
        for name, mk in scenarios(thorough, ctx.seed):
            for hist in ("fwd", "bwd", "bwdg", "bwd2"):      # bwdg: graph-recording backward whose result is dropped without differentiating again
                gid += 1
                ctx.case(key=(name, hist))
                try:
                    call, keep = mk()
                    h = use(call, hist)          # warm-up: library-level caches, lazily created constants
                    del h
                except Exception as e:
                    meas[gid] = {"name": name, "hist": hist, "error": "%s: %s" % (type(e).__name__, str(e)[:120])}
                    continue
                gc.collect()
                gc.disable()
                try:
                    n0 = live_tensor_count()
                    before = {id(o) for o in gc.get_objects()}
                    before.add(id(before))
                    h = use(call, hist)
                    n, edges, hn, tens, lab = extract(h, before)
                    del h
                    n1 = live_tensor_count()
                    for _ in range(reps):
                        h = use(call, hist)
                        del h
                    n2 = live_tensor_count()
                finally:
                    gc.enable()
                gc.collect()
                n3 = live_tensor_count()
                graphs.append({"gid": gid, "n": n, "edges": [list(e) for e in edges], "handles": hn, "tensors": tens})
                meas[gid] = {"name": name, "hist": hist, "leaked_once": n1 - n0, "leaked_rep": n2 - n1, "after_collect": n3 - n0, "labels": lab,
                             "nodes": n, "nedges": len(edges)}
    # TLC: reclamation on every recorded graph, all drop orders
    gf = os.path.join(ctx.work, "graphs.ndjson")
    # binding self-test: a recorded graph plus two extra tensors that reference each other and hang off a handle must be reported
    SELF_GID = 999999
    selfg = None
    for g_ in graphs:
        if g_["handles"]:
            n_ = g_["n"]
            selfg = {"gid": SELF_GID, "n": n_ + 2, "edges": [list(e) for e in g_["edges"]] + [[g_["handles"][0], n_ + 1], [n_ + 1, n_ + 2], [n_ + 2, n_ + 1]],
                     "handles": list(g_["handles"]), "tensors": list(g_["tensors"]) + [n_ + 1, n_ + 2]}
            break
    with open(gf, "w") as f:
        for g_ in graphs + ([selfg] if selfg else []):
            f.write(json.dumps(g_) + "\n")
    try:
        r = tlcmod.run(os.path.join(SPEC, "RefGraph.tla"), os.path.join(SPEC, "RefGraph.cfg"), ctx.work, workers=1, timeout=1200,
                       env={"GRAPH_FILE": gf}, deadlock=False)
    except tlcmod.TlcError as e:
        raise Machinery(str(e))
    if r.violated not in (None, "postcondition"):
        raise Machinery("RefGraph run failed: %s\n%s" % (r.violated, r.out[-2000:]))
    ctx.states += r.distinct
    ctx.transitions += r.generated
    ctx.tlc_runs.append({"spec": "RefGraph.tla", "graphs": len(graphs), "distinct": r.distinct, "generated": r.generated})
    model_leak = {}
    for v in tlcmod.printed_values(r.out):
        if isinstance(v, list) and v and v[0] == "LEAK":
            model_leak[v[1]] = (v[2], v[3])
    if selfg is not None:
        if model_leak.get(SELF_GID, (0, 0))[0] < 2:
            raise Machinery("binding self-test: a reference cycle injected into a recorded ownership graph was not reported by RefGraph")
        ctx.notes["corrupted_graphs_reported"] = 1
        del model_leak[SELF_GID]
    for g_ in graphs:
        m = meas[g_["gid"]]
        ml = model_leak.get(g_["gid"], (0, 0))
        leaked = m["leaked_once"] > 0 or m["leaked_rep"] > 0
        if ml[0] > 0 and not leaked:
            raise Machinery("model predicts %d leaked tensors for %s/%s but none was measured: ownership extraction is wrong" % (ml[0], m["name"], m["hist"]))
        if leaked:
            holder = ""
            if ml[0] > 0:
                # name the holders of the witness object
                w = ml[1]
                preds = [p for p, q in g_["edges"] if q == w]
                holder = "; in the recorded graph tensor node %s %s stays referenced by %s" % (w, m["labels"][w - 1], [m["labels"][p - 1] for p in preds])
            else:
                holder = "; the holder is not reachable from the caller's handles (not in the recorded graph)"
            fn = m["name"].split("/")[0]
            ctx.violation("leak/%s" % fn, "%s, history %s: %d live tensors remain after dropping all results of one call, +%d after %d more calls, %d after gc.collect()%s"
                          % (m["name"], m["hist"], m["leaked_once"], m["leaked_rep"], reps, m["after_collect"], holder), {"name": m["name"], "hist": m["hist"]})
        ctx.traces_validated += 1
    for gid_, m in meas.items():
        if "error" in m:
            ctx.violation("leak/scenario-error/%s" % m["name"].split("/")[0], "scenario %s/%s could not run: %s" % (m["name"], m["hist"], m["error"]), m)
    if graphs:
        g0 = graphs[0]
        ctx.samples.append({"scenario": meas[g0["gid"]]["name"], "history": meas[g0["gid"]]["hist"], "nodes": meas[g0["gid"]]["labels"][:12],
                            "edges": g0["edges"][:20], "handles": g0["handles"], "measured": {k: meas[g0["gid"]][k] for k in ("leaked_once", "leaked_rep")}})
    ctx.notes.update(graphs=len(graphs), max_nodes=max(g_["n"] for g_ in graphs) if graphs else 0, model_leaks=len(model_leak))
    ctx.assumptions += [
        "ownership edges: gc.get_referents plus tensor -> grad_fn; C++-only references are invisible to the extractor - the measured live-tensor count (gc disabled) is the ground truth, the model must not contradict it",
        "objects that existed before the call are the caller's / the library's own and are not part of the call's graph",
        "one warm-up call before measuring (lazily created library constants)",
        "gradients are taken with retain_graph=True so that derived parameters of the caller's object can be reused across calls",
        "TLC, SANY"]
    return ctx.finish(
        rule="case = (functional/method/function kind, history in {forward only, +backward, +graph-recording backward and a second backward}); "
             "each recorded ownership graph is checked by TLC for every order of dropping the handles and the same history is measured once and "
             "repeated 3 more times with the cyclic collector disabled")


def replay(data):
    print(data["what"])
    return 1
