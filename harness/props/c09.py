"""C09 - a function gives the same results however its parameters are supplied.

Spec: ParamSubst.tla (unique maps, substitution through views, EvalSeesRequested) model-checked over all alias
partitions of up to 3 slots; every functional is then run on every representation of one mathematical function;
the hook-recorded substitution protocol of each run is validated by TLC against Trace_ParamSubst.tla, whose final
event carries the numeric verdicts value / first-order / second-order gradient equal to the pure-function form.
"""
import contextlib
import io
import json
import warnings

import torch

from vlib import tlc as tlcmod
from vlib.ctx import Machinery
from vlib.problems import Repr, base_tensors, run_functional, contraction, FUNCTIONALS, METHOD_OPTS
from vlib.substrace import Recorder
from props.c10 import INTENDED, PARAM_IDS

KINDS = ["nn", "edit", "editdep", "editnn", "mixed", "sib", "msib", "msib3", "nntied"]
PARTS = {"111": [0, 0, 0], "112": [0, 0, 1], "121": [0, 1, 0], "122": [0, 1, 1], "123": [0, 1, 2]}


def results(fname, R, opts, bck, order):
    out = run_functional(fname, R, opts=opts, bck=bck)
    res = [out.detach().reshape(-1)]
    leaves = [l for l in R.leaves if l.requires_grad]
    if not leaves or not out.requires_grad:
        return res + [torch.zeros(1, dtype=out.dtype)] * 2
    if order >= 1:
        g = torch.autograd.grad(contraction(out), leaves, create_graph=(order >= 2), allow_unused=True)
        res.append(torch.cat([(x if x is not None else torch.zeros_like(l)).detach().reshape(-1) for x, l in zip(g, leaves)]))
    if order >= 2:
        L2 = sum((gi * torch.cos(torch.arange(gi.numel(), dtype=gi.dtype).reshape(gi.shape))).sum() for gi in g if gi is not None)
        if isinstance(L2, torch.Tensor) and L2.requires_grad:
            g2 = torch.autograd.grad(L2, leaves, allow_unused=True)
        else:
            g2 = [None] * len(leaves)
        res.append(torch.cat([(x if x is not None else torch.zeros_like(l)).detach().reshape(-1) for x, l in zip(g2, leaves)]))
    return res


def close(a, b):
    if a.shape != b.shape:
        return False
    # identical arithmetic in every representation: a few ulps x size; iterative paths may reorder sums
    return bool(torch.all((a - b).abs() <= 1e-9 + 1e-7 * b.abs().max()))


def fnkinds(ctx):
    """what counts as a function and which object parameters it exposes (FnKinds.tla), row by row"""
    import os
    import xitorch
    from xitorch import EditableModule, get_pure_function, make_sibling
    import xitorch.optimize
    t, cf = tlcmod.gen_mc(ctx.work, "FnKinds", "MC_FnKinds", {}, invariants=["FunctionsHaveNoObjectParams"])
    dot = os.path.join(ctx.work, "fk.dot")
    ctx.model_check(t, cf, workers=2, dump_dot=dot, label="function kinds", timeout=120)
    nodes, _, _ = tlcmod.parse_dot(dot)
    os.remove(dot)

    class E(EditableModule):
        def __init__(self):
            self.a = torch.tensor([1.0, 2.0], dtype=torch.float64)
            self.b = torch.tensor([0.5, 0.1], dtype=torch.float64)

        def f(self, y):
            return y - self.a * self.b

        def __call__(self, y):
            return self.f(y)

        def getparamnames(self, methodname, prefix=""):
            if methodname in ("f", "__call__"):
                return [prefix + "a", prefix + "b"]
            raise KeyError(methodname)

    class N(torch.nn.Module):
        def __init__(self):
            super().__init__()
            self.a = torch.nn.Parameter(torch.tensor([1.0, 2.0], dtype=torch.float64))
            self.b = torch.nn.Parameter(torch.tensor([0.5, 0.1], dtype=torch.float64))
            self.c = torch.nn.Parameter(torch.tensor([0.0], dtype=torch.float64))

        def f(self, y):
            return y - self.a * self.b + self.c * 0

        def forward(self, y):
            return self.f(y)

    class P(object):
        def f(self, y):
            return y

        def __call__(self, y):
            return y

    def plain(y):
        return y - 1.0
    try:
        with warnings.catch_warnings():
            warnings.simplefilter("ignore")

            @torch.jit.script
            def scr(y):
                return y - 1.0
    except Exception:
        scr = None
    e, n_, p_ = E(), N(), P()
    pf = get_pure_function(e.f)
    sib = make_sibling(e.f)(lambda y: e.f(y) * 1.0)
    objs = {"function": plain, "lambda": (lambda y: y - 1.0), "scripted": scr, "edit_method": e.f, "nn_method": n_.f, "plain_method": p_.f,
            "edit_instance": e, "nn_instance": n_, "plain_instance": p_, "purefunction": pf, "sibling": sib, "noncallable": 3.0}
    n = 0
    for st in nodes.values():
        kind, pred = st["kind"], st["pred"]
        if kind == "scripted" and scr is None:
            continue
        n += 1
        ctx.case(key=("fnkind", kind))
        try:
            got = get_pure_function(objs[kind])
            cls = "same" if got is objs[kind] else type(got).__name__
            nobj = len(got.objparams()) if cls != "same" else 0
        except RuntimeError:
            cls, nobj = "raise", 0
        except Exception as ex:
            cls, nobj = "raise-%s" % type(ex).__name__, 0
        if cls != pred["cls"] or (cls not in ("same", "raise") and nobj != int(pred["nobj"])):
            ctx.violation("fnkinds/%s" % kind, "get_pure_function(%s): got %s with %d object parameters, specification %s with %d" % (kind, cls, nobj, pred["cls"], int(pred["nobj"])), {"kind": kind})
        elif pred["cls"] not in ("raise", "same") or kind in ("purefunction", "sibling"):
            # the accepted kinds run through a functional and give the same root as the plain function (where they are the same mathematics)
            try:
                with warnings.catch_warnings():
                    warnings.simplefilter("ignore")
                    y = xitorch.optimize.rootfinder(objs[kind], torch.zeros(2, dtype=torch.float64), method="broyden1", f_tol=1e-12)
                expect = torch.ones(2, dtype=torch.float64) if kind in ("function", "lambda", "scripted") else torch.tensor([0.5, 0.2], dtype=torch.float64)
                if not torch.allclose(y, expect, atol=1e-9):
                    ctx.violation("fnkinds/%s/value" % kind, "rootfinder on a %s gives %s, expected %s" % (kind, y.tolist(), expect.tolist()), {"kind": kind})
            except Exception as ex:
                ctx.violation("fnkinds/%s/raise" % kind, "rootfinder on a %s raised %s: %s" % (kind, type(ex).__name__, str(ex)[:100]), {"kind": kind})
    return n


def library_objects(ctx):
    """xitorch's own EditableModules (Interp1D, SQuad) used as function objects of other functionals: the tensors they
    hold (sample values, precomputed spline coefficients / weights) are object parameters like a user's"""
    import numpy as np
    import xitorch.integrate
    import xitorch.interpolate
    from scipy.interpolate import CubicSpline
    n = 0
    DT = torch.float64
    xs = torch.tensor([0.0, 0.3, 0.45, 0.8, 1.0], dtype=DT)
    xl, xu, nq = 0.1, 0.9, 30
    tg, wg = np.polynomial.legendre.leggauss(nq)
    xg = tg * 0.5 * (xu - xl) + 0.5 * (xu + xl)
    wg = wg * 0.5 * (xu - xl)
    with warnings.catch_warnings():
        warnings.simplefilter("ignore")
        for method, kw in (("linear", {}), ("cspline", {"bc_type": "natural"}), ("cspline", {"bc_type": "not-a-knot"})):
            n += 1
            ctx.case(key=("library-object", "Interp1D", method, kw.get("bc_type")))
            why = None
            try:
                ys = torch.sin(3 * xs).clone().requires_grad_()
                it = xitorch.interpolate.Interp1D(xs, ys, method=method, **kw)
                val = xitorch.integrate.quad(it.__call__, torch.tensor([xl], dtype=DT), torch.tensor([xu], dtype=DT), n=nq)
                g, = torch.autograd.grad(val.sum(), ys, allow_unused=True)
                # reference: the interpolant is linear in y, so d/dy_j = sum_i w_i phi_j(x_i) with phi_j the interpolant of the j-th unit vector
                ref = []
                for j in range(len(xs)):
                    e = np.zeros(len(xs))
                    e[j] = 1.0
                    phi = np.interp(xg, xs.numpy(), e) if method == "linear" else CubicSpline(xs.numpy(), e, bc_type=kw["bc_type"])(xg)
                    ref.append(float((wg * phi).sum()))
                ref = torch.tensor(ref, dtype=DT)
                if g is None:
                    why = "the sample values held by the interpolation object received no gradient"
                elif not torch.allclose(g, ref, atol=1e-9, rtol=1e-9):
                    why = "gradient w.r.t. the sample values %s, reference %s" % ([round(v, 8) for v in g.tolist()], [round(v, 8) for v in ref.tolist()])
                elif abs(float(val) - float((ref * ys.detach()).sum())) > 1e-9:
                    why = "value %.10f, reference %.10f" % (float(val), float((ref * ys.detach()).sum()))
            except Exception as e:
                why = "raised %s: %s" % (type(e).__name__, str(e)[:140])
            if why:
                ctx.violation("libobj/interp1d/%s" % method, "quad over Interp1D(%s%s).__call__ as the integrand: %s" % (method, kw, why), {"method": method})
        for method in ("trapz", "simpson", "cspline"):
            n += 1
            ctx.case(key=("library-object", "SQuad", method))
            why = None
            try:
                ys = (torch.cos(2 * xs) + 1.5).clone().requires_grad_()
                sq = xitorch.integrate.SQuad(xs, method=method)

                @xitorch.make_sibling(sq.integrate)
                def resid(s_, y_):
                    return (sq.integrate(y_ * s_) - 0.3).reshape(1)
                root = xitorch.optimize.rootfinder(resid, torch.ones(1, dtype=DT), params=(ys,))
                g, = torch.autograd.grad(root.sum(), ys)
                I = sq.integrate(ys)
                gref, = torch.autograd.grad((0.3 / I).sum(), ys)
                if not torch.allclose(root.detach(), (0.3 / I).detach().reshape(1), atol=1e-9):
                    why = "root %s, expected %s" % (root.tolist(), (0.3 / I).tolist())
                elif not torch.allclose(g, gref, atol=1e-8, rtol=1e-8):
                    why = "gradient %s, reference %s" % (g.tolist(), gref.tolist())
            except Exception as e:
                why = "raised %s: %s" % (type(e).__name__, str(e)[:140])
            if why:
                ctx.violation("libobj/squad/%s" % method, "rootfinder on a sibling of SQuad(%s).integrate: %s" % (method, why), {"method": method})
    return n


def nested_functionals(ctx):
    """a functional called inside the function of another functional, both on methods of ONE object (the inner view is created
    while the outer substitution is active): gradients w.r.t. the object's tensors against central differences, object left intact"""
    import xitorch.integrate
    DT = torch.float64

    class NestE(xitorch.EditableModule):
        def __init__(self, a, b):
            self.a, self.b = a, b

        def getparamnames(self, methodname, prefix=""):
            return [prefix + "b"] if methodname == "resid" else [prefix + "a", prefix + "b"]

    class NestN(torch.nn.Module):
        def __init__(self, a, b):
            super().__init__()
            self.a, self.b = torch.nn.Parameter(a), torch.nn.Parameter(b)

    def resid(self, y, c):
        return y ** 3 + self.b * y - c

    def integrand(self, x):
        return xitorch.optimize.rootfinder(self.resid, torch.zeros_like(x), params=(self.a * x,), f_tol=1e-13, x_tol=1e-13)

    def rhs(self, t, y):
        return -xitorch.optimize.rootfinder(self.resid, torch.zeros_like(y), params=(self.a * y,), f_tol=1e-13, x_tol=1e-13)
    for cls in (NestE, NestN):
        cls.resid, cls.integrand, cls.rhs = resid, integrand, rhs

    def build(cls, av, bv):
        a = torch.tensor(av, dtype=DT)
        b = torch.tensor(bv, dtype=DT)
        if cls is NestE:
            a.requires_grad_()
            b.requires_grad_()
        return cls(a, b)

    def value(m, outer):
        if outer == "quad":
            return xitorch.integrate.quad(m.integrand, torch.tensor([0.0], dtype=DT), torch.tensor([1.0], dtype=DT), n=6)
        if outer == "solve_ivp":
            return xitorch.integrate.solve_ivp(m.rhs, torch.linspace(0, 0.5, 3, dtype=DT), torch.ones(1, dtype=DT), method="rk4")[-1]
        if outer == "solve_ivp45":
            return xitorch.integrate.solve_ivp(m.rhs, torch.linspace(0, 0.5, 3, dtype=DT), torch.ones(1, dtype=DT), method="rk45", rtol=1e-9, atol=1e-11)[-1]
        if outer == "equilibrium":
            f = xitorch.make_sibling(m.integrand)(lambda y: 0.5 * m.integrand(y) + 0.1)
            return xitorch.optimize.equilibrium(f, torch.zeros(1, dtype=DT), f_tol=1e-13, x_tol=1e-13)
        if outer == "minimize":
            f = xitorch.make_sibling(m.integrand)(lambda y: (0.5 * (y - 0.3) ** 2 + 0.25 * m.integrand(y * y + 0.5)).sum())
            return xitorch.optimize.minimize(f, torch.zeros(1, dtype=DT), f_tol=1e-13, x_tol=1e-13)
        if outer == "mcquad":
            return xitorch.integrate.mcquad(m.integrand, lambda x: (-0.5 * x ** 2).sum(), torch.full((1,), 0.2, dtype=DT), method="mhcustom", nsamples=3, nburnout=1,
                                            custom_step=lambda x, *p: x * 0.5 + 0.3)
        f = xitorch.make_sibling(m.integrand)(lambda y: y - 0.5 * m.integrand(y) - 0.1)
        return xitorch.optimize.rootfinder(f, torch.zeros(1, dtype=DT), f_tol=1e-13, x_tol=1e-13)
    n = 0
    with warnings.catch_warnings():
        warnings.simplefilter("ignore")
        for cls, kname in ((NestE, "edit"), (NestN, "nn")):
            for outer in ("quad", "solve_ivp", "solve_ivp45", "rootfinder", "equilibrium", "minimize", "mcquad"):
                for cg in (False, True):
                    n += 1
                    ctx.case(key=("nested", kname, outer, cg))
                    why = None
                    try:
                        m = build(cls, 1.3, 0.8)
                        a0, b0 = m.a, m.b
                        v = value(m, outer)
                        g = torch.autograd.grad(v.sum(), [a0, b0], create_graph=cg, allow_unused=True)
                        if not (m.a is a0 and m.b is b0) or (kname == "nn" and [nm for nm, _ in m.named_parameters()] != ["a", "b"]) or "_xitorch_replaced_params" in getattr(m, "__dict__", {}):
                            why = "the object does not hold its original tensors afterwards"
                        else:
                            h = 1e-6
                            fd = [(float(value(build(cls, 1.3 + h, 0.8), outer)) - float(value(build(cls, 1.3 - h, 0.8), outer))) / (2 * h),
                                  (float(value(build(cls, 1.3, 0.8 + h), outer)) - float(value(build(cls, 1.3, 0.8 - h), outer))) / (2 * h)]
                            for nm, gi, fi in zip(("a", "b"), g, fd):
                                gv = 0.0 if gi is None else float(gi)
                                if abs(gv - fi) > 2e-5 * max(1.0, abs(fi)):
                                    why = "gradient w.r.t. %s is %s, central difference %.8f" % (nm, "absent" if gi is None else "%.8f" % gv, fi)
                                    break
                    except Exception as e:
                        why = "raised %s: %s" % (type(e).__name__, str(e)[:140])
                    if why:
                        ctx.violation("repr/nested/%s/%s" % (kname, outer.rstrip("45")), "%s whose function calls rootfinder on another method of the same %s object (backward %s graph recording): %s"
                                      % (outer, "EditableModule" if kname == "edit" else "torch.nn.Module", "with" if cg else "without", why), {"kind": kname, "outer": outer, "cg": cg})
    return n


def held_operator(ctx):
    """an EditableModule that holds a LinearOperator (itself an EditableModule) and whose method calls xitorch.linalg.solve with it:
    the operator's tensor is an object parameter of the OUTER function, reached through the path 'op.<name>'"""
    import xitorch.linalg
    from xitorch import LinearOperator
    DT = torch.float64

    class HoldsOp(xitorch.EditableModule):
        def __init__(self, W, c):
            self.op = LinearOperator.m((W + W.T) / 2 + 3 * torch.eye(3, dtype=DT), is_hermitian=True)
            self.c = c

        def f(self, y):
            return y - xitorch.linalg.solve(self.op, (torch.tanh(y) + self.c).unsqueeze(-1), method="cg", rtol=1e-13, atol=1e-15).squeeze(-1)

        def getparamnames(self, methodname, prefix=""):
            return self.op.getparamnames("mm", prefix=prefix + "op.") + [prefix + "c"]
    n = 0
    g_ = torch.Generator().manual_seed(77 + ctx.seed)
    with warnings.catch_warnings():
        warnings.simplefilter("ignore")
        for cg in (False, True):
            n += 1
            ctx.case(key=("held-operator", cg))
            why = None
            try:
                W = (torch.randn(3, 3, generator=g_, dtype=DT) * 0.3).requires_grad_()
                c = (torch.randn(3, generator=g_, dtype=DT) * 0.5).requires_grad_()
                m = HoldsOp(W, c)
                mat0 = m.op.mat
                y = xitorch.optimize.rootfinder(m.f, torch.zeros(3, dtype=DT), f_tol=1e-13, x_tol=1e-13)
                g = torch.autograd.grad((y ** 2).sum(), [W, c], create_graph=cg, retain_graph=True)
                W2, c2 = W.detach().clone().requires_grad_(), c.detach().clone().requires_grad_()
                A = (W2 + W2.T) / 2 + 3 * torch.eye(3, dtype=DT)
                yy = y.detach().clone()
                for _ in range(200):
                    yy = torch.linalg.solve(A, torch.tanh(yy) + c2)
                gr = torch.autograd.grad((yy ** 2).sum(), [W2, c2], create_graph=cg)
                if not (m.op.mat is mat0 and m.c is c):
                    why = "the object (or the operator it holds) does not hold its original tensors afterwards"
                elif not all(torch.allclose(a, b, atol=1e-9, rtol=1e-8) for a, b in zip(g, gr)):
                    why = "gradient differs from the unrolled dense fixed-point iteration by %.2e" % max(float((a - b).abs().max()) for a, b in zip(g, gr))
                elif cg:
                    h = torch.autograd.grad(sum((x ** 2).sum() for x in g), [W, c])
                    hr = torch.autograd.grad(sum((x ** 2).sum() for x in gr), [W2, c2])
                    if not all(torch.allclose(a, b, atol=1e-7, rtol=1e-6) for a, b in zip(h, hr)):
                        why = "second-order gradient differs from the reference by %.2e" % max(float((a - b).abs().max()) for a, b in zip(h, hr))
            except Exception as e:
                why = "raised %s: %s" % (type(e).__name__, str(e)[:140])
            if why:
                ctx.violation("repr/held-operator", "rootfinder on a method that solves with a LinearOperator held by the object (backward %s graph recording): %s" % ("with" if cg else "without", why), {"cg": cg})
    return n


def reuse_after_failure(ctx, thorough):
    """a usage history: the user's function fails once (a transient error at evaluation k, in the forward or in a backward pass), the
    caller catches the error and uses the SAME function object again.  The second use must give the results of the function form."""
    from vlib.problems import Boom
    n = 0
    W, c = base_tensors(ctx.seed)
    for fname in FUNCTIONALS:
        opts = METHOD_OPTS[fname][0]
        ref = results(fname, Repr("pure", W, c), opts, None, 1)
        for kind in (("edit", "nn", "sib", "mixed") if thorough else ("edit", "nn", "sib")):
            # where the function is evaluated: count the evaluations of an undisturbed forward and forward + backward
            R0 = Repr(kind, W, c)
            run_functional(fname, R0, opts=opts)
            kf = R0.ticker.count
            R1 = Repr(kind, W, c)
            try:
                results(fname, R1, opts, None, 1)
            except Exception:
                continue
            kb = R1.ticker.count
            ks = sorted(set([max(1, kf // 2), kf] + ([kf + 1, (kf + kb + 1) // 2, kb] if kb > kf else [])))
            for k in ks:
                n += 1
                ctx.case(key=("reuse-after-failure", fname, kind, "forward" if k <= kf else "backward", k))
                why = None
                R = Repr(kind, W, c)
                R.ticker.crash_at = k
                failed = False
                try:
                    with warnings.catch_warnings():
                        warnings.simplefilter("ignore")
                        results(fname, R, opts, None, 1)
                except Boom:
                    failed = True
                except Exception as e:
                    why = "the injected failure surfaced as %s: %s" % (type(e).__name__, str(e)[:100])
                if why is None and failed:
                    R.ticker.crash_at = None
                    try:
                        with warnings.catch_warnings():
                            warnings.simplefilter("ignore")
                            got = results(fname, R, opts, None, 1)
                        for nm, a, b in zip(("value", "first-order gradient"), got, ref):
                            if not close(a, b):
                                why = "second use after the failure: %s differs from the function form by %.2e" % (nm, float((a - b).abs().max()) if a.shape == b.shape else float("nan"))
                                break
                    except Exception as e:
                        why = "second use after the failure raised %s: %s" % (type(e).__name__, str(e)[:120])
                if why:
                    ctx.violation("repr/reuse-after-failure/%s/%s" % (fname, kind), "%s on the %s representation, function fails once at evaluation %d (%s pass), then the same object is used again: %s"
                                  % (fname, kind, k, "forward" if k <= kf else "backward", why), {"f": fname, "kind": kind, "k": k})
    return n


def run(ctx):
    thorough = ctx.tier == "thorough"
    torch.manual_seed(ctx.seed)
    # 1. design level: unique maps and substitution through a view for every alias partition of 3 slots
    for name, s0 in PARTS.items():
        nu = len(set(s0))
        cands = {tuple(range(nu)), tuple(range(3, 3 + nu)), tuple([3] + list(range(1, nu)))}
        c = dict(INTENDED)
        c.update(ParamIds=PARAM_IDS, Views={"pf"}, MaxDepth=2, MaxLists=6, MaxEvals=2, Kind="edit", NS=3, Slots0=s0, Cands=cands)
        t, cf = tlcmod.gen_mc(ctx.work, "ParamSubst", "MC_PS9_%s" % name, c,
                              invariants=["TypeOK", "Quiescent", "EvalSeesRequested", "UniqueRoundTrip", "BeliefCoherent"])
        r = ctx.model_check(t, cf, workers=16, coverage=True, label="alias partition " + name, timeout=600)
        ctx.check_coverage(r, ["EnterUse", "Eval", "JacProduct", "EnterLinop"])
    c = dict(INTENDED)
    c.update(ParamIds=PARAM_IDS, Views={"pf"}, MaxDepth=2, MaxLists=6, MaxEvals=2, Kind="edit", NS=3, Slots0=[0, 1, 0],
             Cands={(0, 1), (3, 4), (3, 1)}, JacOwnList=False)
    t, cf = tlcmod.gen_mc(ctx.work, "ParamSubst", "MC_PS9_dev", c, invariants=["EvalSeesRequested"])
    ctx.expect_violation(t, cf, inv="EvalSeesRequested", label="deviation JacOwnList", workers=8, timeout=300)

    nk = fnkinds(ctx)
    nk += library_objects(ctx)
    nk += nested_functionals(ctx)
    nk += held_operator(ctx)
    nk += reuse_after_failure(ctx, thorough)
    ctx.replayed = nk
    # 2. every functional on every representation, protocol validated by TLC, numeric verdicts in the final event
    traces = []
    tid = 0
    seeds = [ctx.seed, ctx.seed + 1] if thorough else [ctx.seed]
    for seed in seeds:
        W, c0 = base_tensors(seed)
        for fname in FUNCTIONALS:
            optsets = METHOD_OPTS[fname] if thorough else METHOD_OPTS[fname][:2]
            for oi, opts in enumerate(optsets):
                bcks = [None]
                if fname in ("rootfinder", "equilibrium", "minimize"):
                    bcks = [None, {"method": "bicgstab"}] if (oi == 0 or thorough) else [None]
                patterns = [(True, True)]
                if oi == 0 and (thorough or fname in ("rootfinder", "solve_ivp", "mcquad", "quad")):
                    patterns += [(False, True), (True, False)]       # some of the object's tensors do not require grad
                for bck, rg in [(b_, r_) for b_ in bcks for r_ in patterns]:
                    if rg != (True, True) and bck is not None:
                        continue
                    with warnings.catch_warnings():
                        warnings.simplefilter("ignore")
                        ref = results(fname, Repr("pure", W, c0, requires_grad=rg), opts, bck, 2)
                    for kind in KINDS:
                        if rg != (True, True) and kind == "nntied":
                            continue
                        R = Repr(kind, W, c0, requires_grad=rg)
                        rec = Recorder(R.objects)
                        R.ticker.on_eval = rec.on_eval
                        exc = None
                        got = None
                        with rec, warnings.catch_warnings(), contextlib.redirect_stdout(io.StringIO()):
                            warnings.simplefilter("ignore")
                            try:
                                got = results(fname, R, opts, bck, 2)
                            except Exception as e:
                                exc = e
                            rec.final(exc)
                        if rec.errors:
                            raise Machinery("recorder failed: " + rec.errors[0])
                        names = ["value_eq", "grad1_eq", "grad2_eq"]
                        if got is None:
                            verd = [["no_exception", False]]
                        else:
                            verd = [[n, close(a, b)] for n, a, b in zip(names, got, ref)]
                        tr = rec.trace(0, {"f": fname, "kind": kind, "opts": {k: (v if isinstance(v, (int, float, str)) else "<callable>") for k, v in opts.items()},
                                           "bck": bck or {}, "seed": seed, "requires_grad": list(rg), "exc": "%s: %s" % (type(exc).__name__, exc) if exc else ""})
                        tr["ev"][-1]["verdicts"] = verd
                        tid += 1
                        tr["tid"] = tid
                        traces.append(tr)
                        ctx.case(key=(fname, kind, json.dumps(tr["cfg"]["opts"], sort_keys=True), json.dumps(bck), seed, rg))
    rej = ctx.validate_traces("Trace_ParamSubst.tla", "Trace_ParamSubst.cfg", traces, shards=16)

    def m_held(t):
        for e in t["ev"]:
            if e["a"] == "set" and not e["ident"] and e.get("held"):
                e["held"][0] += 50                           # the object did not receive the requested tensor
                return t

    def m_restore(t):
        st = [j for j, e in enumerate(t["ev"]) if e["a"] == "set" and not e["ident"]]
        if st:
            rs = [j for j, e in enumerate(t["ev"]) if j > st[0] and e["a"] == "restore"]
            if rs:
                del t["ev"][rs[0]]                           # a restore is missing
                return t

    def m_left(t):
        if t["ev"][-1]["a"] == "final" and t["ev"][-1].get("seen"):
            t["ev"][-1]["seen"][0][1] += 50                  # the object is left modified
            return t
    ctx.binding_selftest("Trace_ParamSubst.tla", "Trace_ParamSubst.cfg", traces, rej,
                         [("requested tensor not installed", m_held), ("restore missing", m_restore), ("object left modified", m_left)])
    bytid = {t["tid"]: t for t in traces}
    for tid_, matched, total in rej:
        t = bytid[tid_]
        ev = t["ev"][matched] if matched < len(t["ev"]) else None
        cfg = t["cfg"]
        if ev is not None and ev["a"] == "final":
            failed = [n for n, ok in ev.get("verdicts", []) if not ok]
            extra = [] if (ev["named_same"] and ev["debug_same"] and ev["allowed"]) else ["object_restored"]
            why = "verdicts failed: %s %s" % (failed + extra, cfg["exc"])
            key = "repr/%s/%s" % (cfg["kind"], "+".join(failed + extra) or "final")
        else:
            why = "substitution protocol not explained by ParamSubst at event %d/%d: %s" % (matched + 1, total, json.dumps(ev))
            key = "repr/%s/protocol/%s" % (cfg["kind"], ev["a"] if ev else "?")
        if cfg["kind"] == "nntied":
            key = "repr/nntied"
        ctx.violation(key, "%s on representation %s (opts %s, bck %s): %s" % (cfg["f"], cfg["kind"], cfg["opts"], cfg["bck"], why),
                      {"cfg": cfg})
    ctx.samples.append({"cfg": traces[1]["cfg"], "final": traces[1]["ev"][-1],
                        "protocol": [e for e in traces[1]["ev"] if e["a"] not in ("eval",)][:10]})
    ctx.notes["representations"] = KINDS
    ctx.notes["trace_events"] = sum(len(t["ev"]) for t in traces)
    ctx.assumptions += [
        "all representations perform the same floating-point operations on the same leaf values; equality to 1e-9 + 1e-7*max|ref|",
        "second order is taken both with the default (dense) and with an iterative backward solver (bck_options method=bicgstab)",
        "TLC, SANY, hooks pf.*/lo.*, projection code harness/vlib/substrace.py"]
    return ctx.finish(
        rule="case = (functional, forward options, backward solver, representation, seed); each run's substitution events are validated "
             "by TLC against ParamSubst (a view starts with the unique list of what the object holds; every set installs Expand(requested); "
             "every evaluation sees what the innermost substitution requested) and its final event must carry value/grad1/grad2 equal to the "
             "pure-function form")


def replay(data):
    print(data["what"])
    c = data["replay"]["cfg"]
    W, c0 = base_tensors(c["seed"])
    opts = {k: v for k, v in c["opts"].items() if v != "<callable>"}
    rg = tuple(c.get("requires_grad", [True, True]))
    ref = results(c["f"], Repr("pure", W, c0, requires_grad=rg), opts, c["bck"] or None, 2)
    got = results(c["f"], Repr(c["kind"], W, c0, requires_grad=rg), opts, c["bck"] or None, 2)
    for n, a, b in zip(["value", "grad1", "grad2"], got, ref):
        print(n, "max abs diff", float((a - b).abs().max()))
    return 1
