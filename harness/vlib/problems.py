"""One family of mathematical functions (parameters W (n x n), c (n), non-tensor scale s) in every representation
xitorch accepts, and one driver per functional.  Used by C09 (same results for all representations), C10 (crash
points), C19 (ownership), C04/C18.

Every evaluation of a user-visible function goes through Model.tick(), which lets a driver count evaluations,
observe what the object holds at that moment, and raise at a chosen index.
"""
import math
import torch
import xitorch
import xitorch.optimize
import xitorch.integrate
import xitorch.grad
import xitorch.linalg
import xitorch.interpolate
from xitorch import EditableModule, make_sibling


class Boom(Exception):
    """the exception raised by the user's function at the chosen evaluation"""


class Abort(BaseException):
    """a failure that is not an Exception (KeyboardInterrupt, SystemExit, a user's abort signal): restoration is owed just the same"""


class Ticker(object):
    def __init__(self):
        self.count = 0
        self.crash_at = None
        self.crash_exc = Boom
        self.on_eval = None       # callable(count) -> None
        self.enabled = True

    def tick(self):
        if not self.enabled:
            return
        self.count += 1
        if self.on_eval is not None:
            self.on_eval(self.count)
        if self.crash_at is not None and self.count == self.crash_at:
            raise self.crash_exc("user function raises at evaluation %d" % self.count)


# ----------------------------------------------------------------------------- the mathematics (explicit tensors)
def m_root(y, W, c, s):
    return y - c - s * torch.tanh(W @ y)


def m_equil(y, W, c, s):
    return c + s * torch.tanh(W @ y)


def m_obj(y, W, c, s):
    return 0.5 * ((y - c) ** 2).sum() + s * torch.log(torch.cosh(W @ y)).sum()


def m_ode(t, y, W, c, s):
    return -y + s * torch.tanh(W @ y) + c * torch.cos(t)


def m_integrand(x, W, c, s):
    d = torch.diagonal(W)
    return torch.sin(x * c * d) + s * x ** 2 * d ** 2


def m_mcf(x, W, c, s):
    return c * x.sum() + s * torch.diagonal(W) * (x ** 2).sum()


def m_logp(x, W, c, s):
    return (-0.5 * (x - c[0]) ** 2 * (1.0 + W[0, 0] ** 2)).sum()


def m_vec(y, W, c, s):
    return torch.tanh(W @ y) * c + s * y ** 2


MATH = {"root": m_root, "equil": m_equil, "obj": m_obj, "ode": m_ode, "integrand": m_integrand, "mcf": m_mcf,
        "logp": m_logp, "vec": m_vec}
TWO_ARG = {"ode"}      # functions whose first two arguments are (t, y)


def _mk_method(name):
    fn = MATH[name]
    if name in TWO_ARG:
        def method(self, t, y, *extra):
            self._ticker.tick()
            W, c, s = self.wcs(*extra)
            return fn(t, y, W, c, s)
    else:
        def method(self, y, *extra):
            self._ticker.tick()
            W, c, s = self.wcs(*extra)
            return fn(y, W, c, s)
    method.__name__ = name
    return method


# ----------------------------------------------------------------------------- representations
class _NNSub(torch.nn.Module):
    def __init__(self, W):
        super().__init__()
        self.W = torch.nn.Parameter(W, requires_grad=W.requires_grad)


class NNModel(torch.nn.Module):
    """torch.nn.Module with a nested sub-module; parameters are the leaves"""

    def __init__(self, W, c, s, ticker):
        super().__init__()
        self.c = torch.nn.Parameter(c, requires_grad=c.requires_grad)
        self.sub = _NNSub(W)
        self.s = s
        self._ticker = ticker

    def wcs(self):
        return self.sub.W, self.c, self.s


class NNTied(torch.nn.Module):
    """torch.nn.Module with tied parameters: c is registered under two names"""

    def __init__(self, W, c, s, ticker):
        super().__init__()
        self.c = torch.nn.Parameter(c, requires_grad=c.requires_grad)
        self.W = torch.nn.Parameter(W, requires_grad=W.requires_grad)
        self.c2 = self.c
        self.s = s
        self._ticker = ticker

    def wcs(self):
        return self.W, 0.5 * self.c + 0.5 * self.c2, self.s


class EditModel(EditableModule):
    """EditableModule with a derived (non-leaf) tensor, a list-held and a dict-held alias of one tensor"""

    def __init__(self, W0, c0, s, ticker):
        self.W = W0 * 1.0              # derived
        self.cs = [c0]                 # list-held
        self.d = {"c": c0}             # dict-held alias of the same tensor
        self.s = s
        self._ticker = ticker

    def wcs(self):
        return self.W, 0.5 * self.cs[0] + 0.5 * self.d["c"], self.s

    def getparamnames(self, methodname, prefix=""):
        if methodname in MATH:
            return [prefix + "W", prefix + "cs[0]", prefix + "d['c']"]
        raise KeyError(methodname)


class EditDep(EditableModule):
    """EditableModule holding a tensor AND tensors precomputed from it in __init__ (as xitorch's own CubicSpline1D holds the
    samples and the spline coefficients derived from them): all are declared, the function uses all of them"""

    def __init__(self, W0, c0, s, ticker):
        self.W = W0
        self.Wh = W0 * 0.5            # derived from W
        self.c = c0 * 1.0             # derived from the caller's leaf
        self.ch = self.c * 0.75       # derived from the derived c
        self.s = s
        self._ticker = ticker

    def wcs(self):
        # W/2 + Wh = W ;  c/4 + ch = c : value and total derivative are those of the plain function, the dependence is spread over four tensors
        return 0.5 * self.W + self.Wh, 0.25 * self.c + self.ch, self.s

    def getparamnames(self, methodname, prefix=""):
        if methodname in MATH:
            return [prefix + "W", prefix + "Wh", prefix + "c", prefix + "ch"]
        raise KeyError(methodname)


class EditHoldsNN(EditableModule):
    """EditableModule that holds a torch.nn.Module"""

    def __init__(self, W, c, s, ticker):
        self.mod = NNModel(W, c, s, Ticker())
        self.s = s
        self._ticker = ticker

    def wcs(self):
        return self.mod.sub.W, self.mod.c, self.s

    def getparamnames(self, methodname, prefix=""):
        if methodname in MATH:
            return [prefix + "mod.sub.W", prefix + "mod.c"]
        raise KeyError(methodname)


class EditW(EditableModule):
    """holds W only; c is an explicit parameter (mixed placement), s an explicit non-tensor parameter"""

    def __init__(self, W0, ticker):
        self.W = W0 * 1.0
        self._ticker = ticker

    def wcs(self, c, s):
        return self.W, c, s

    def getparamnames(self, methodname, prefix=""):
        if methodname in MATH:
            return [prefix + "W"]
        raise KeyError(methodname)


class HoldC(EditableModule):
    def __init__(self, c0):
        self.c = c0

    def getc(self):
        return self.c

    def getparamnames(self, methodname, prefix=""):
        if methodname == "getc":
            return [prefix + "c"]
        raise KeyError(methodname)


class HoldS(torch.nn.Module):
    """third sibling object: an nn.Module holding the (scalar) strength parameter and a second, unused one"""

    def __init__(self, s):
        super().__init__()
        self.s = torch.nn.Parameter(torch.tensor(float(s), dtype=torch.float64))
        self.spare = torch.nn.Parameter(torch.tensor([0.5, -0.5], dtype=torch.float64))

    def gets(self):
        return self.s


class HoldW(EditableModule):
    def __init__(self, W0):
        self.W = W0 * 1.0

    def getw(self):
        return self.W

    def getparamnames(self, methodname, prefix=""):
        if methodname == "getw":
            return [prefix + "W"]
        raise KeyError(methodname)


for _cls in (NNModel, NNTied, EditModel, EditDep, EditHoldsNN, EditW):
    for _n in MATH:
        setattr(_cls, _n, _mk_method(_n))

KINDS = ["pure", "nn", "edit", "editdep", "editnn", "mixed", "sib", "msib", "msib3"]


class Repr(object):
    """one representation of the function family; .fn(name) is what is passed to the functional,
    .params the explicit parameters, .leaves the leaf tensors [W-leaf, c-leaf], .objects the user's objects"""

    def __init__(self, kind, W0, c0, s=0.3, requires_grad=True):
        self.kind = kind
        self.ticker = Ticker()
        rg = requires_grad if isinstance(requires_grad, (tuple, list)) else (requires_grad, requires_grad)
        self.rg = tuple(bool(x) for x in rg)
        W0 = W0.detach().clone().requires_grad_(self.rg[0])
        c0 = c0.detach().clone().requires_grad_(self.rg[1])
        self.s = s
        self.objects = []
        t = self.ticker
        if kind == "pure":
            self.leaves = [W0, c0]
            self.params = (W0, c0, s)

            def mk(name):
                fn = MATH[name]

                def f(*a):
                    t.tick()
                    return fn(*a)
                return f
            self._mk = mk
        elif kind == "nn":
            self.obj = NNModel(W0, c0, s, t)
            self.leaves = [self.obj.sub.W, self.obj.c]
            self.params = ()
            self.objects = [self.obj]
            self._mk = lambda name: getattr(self.obj, name)
        elif kind == "nntied":
            self.obj = NNTied(W0, c0, s, t)
            self.leaves = [self.obj.W, self.obj.c]
            self.params = ()
            self.objects = [self.obj]
            self._mk = lambda name: getattr(self.obj, name)
        elif kind == "edit":
            self.obj = EditModel(W0, c0, s, t)
            self.leaves = [W0, c0]
            self.params = ()
            self.objects = [self.obj]
            self._mk = lambda name: getattr(self.obj, name)
        elif kind == "editdep":
            self.obj = EditDep(W0, c0, s, t)
            self.leaves = [W0, c0]
            self.params = ()
            self.objects = [self.obj]
            self._mk = lambda name: getattr(self.obj, name)
        elif kind == "editnn":
            self.obj = EditHoldsNN(W0, c0, s, t)
            self.leaves = [self.obj.mod.sub.W, self.obj.mod.c]
            self.params = ()
            self.objects = [self.obj, self.obj.mod]
            self._mk = lambda name: getattr(self.obj, name)
        elif kind == "mixed":
            self.obj = EditW(W0, t)
            self.leaves = [W0, c0]
            self.params = (c0, s)
            self.objects = [self.obj]
            self._mk = lambda name: getattr(self.obj, name)
        elif kind == "sib":
            self.obj = EditModel(W0, c0, s, t)
            self.leaves = [W0, c0]
            self.params = ()
            self.objects = [self.obj]

            def mk(name):
                meth = getattr(self.obj, name)

                @make_sibling(meth)
                def f(*a):
                    return meth(*a) * 1.0
                return f
            self._mk = mk
        elif kind == "msib":
            self.hw = HoldW(W0)
            self.hc = HoldC(c0)
            self.leaves = [W0, c0]
            self.params = ()
            self.objects = [self.hw, self.hc]

            def mk(name):
                fn = MATH[name]

                @make_sibling(self.hw.getw, self.hc.getc)
                def f(*a):
                    t.tick()
                    return fn(*a, self.hw.getw(), self.hc.getc(), s)
                return f
            self._mk = mk
        elif kind == "msib3":
            # three sibling objects of different kinds: EditableModule, EditableModule, nn.Module (two registered parameters)
            self.hw = HoldW(W0)
            self.hc = HoldC(c0)
            self.hs = HoldS(s)
            self.leaves = [W0, c0]
            self.params = ()
            self.objects = [self.hw, self.hc, self.hs]

            def mk(name):
                fn = MATH[name]

                @make_sibling(self.hw.getw, self.hc.getc, self.hs.gets)
                def f(*a):
                    t.tick()
                    return fn(*a, self.hw.getw(), self.hc.getc(), self.hs.gets())
                return f
            self._mk = mk
        else:
            raise ValueError(kind)
        self._cache = {}

    def fn(self, name):
        if name not in self._cache:
            self._cache[name] = self._mk(name)
        return self._cache[name]


# ----------------------------------------------------------------------------- functional drivers
def base_tensors(seed, n=3):
    g = torch.Generator().manual_seed(1000 + seed)
    W = torch.randn(n, n, generator=g, dtype=torch.float64)
    W = W / max(1.0, float(torch.linalg.matrix_norm(W, 2)))
    c = torch.randn(n, generator=g, dtype=torch.float64) * 0.5
    return W, c


def run_functional(fname, R, n=3, opts=None, bck=None, y0=None):
    """runs functional `fname` on representation R; returns a tensor (tuple outputs concatenated)"""
    opts = dict(opts or {})
    kw = {}
    if bck is not None:
        kw["bck_options"] = bck
    dt = torch.float64
    if y0 is None:
        y0 = torch.zeros(n, dtype=dt)
    if fname == "rootfinder":
        return xitorch.optimize.rootfinder(R.fn("root"), y0, params=R.params, **kw, **opts)
    if fname == "equilibrium":
        return xitorch.optimize.equilibrium(R.fn("equil"), y0, params=R.params, **kw, **opts)
    if fname == "minimize":
        return xitorch.optimize.minimize(R.fn("obj"), y0, params=R.params, **kw, **opts)
    if fname == "solve_ivp":
        ts = torch.linspace(0.0, 0.6, 3, dtype=dt)
        return xitorch.integrate.solve_ivp(R.fn("ode"), ts, y0 + 0.2, params=R.params, **kw, **opts)
    if fname == "quad":
        o = {"n": 6}
        o.update(opts)
        return xitorch.integrate.quad(R.fn("integrand"), torch.tensor(0.1, dtype=dt), torch.tensor(0.9, dtype=dt),
                                      params=R.params, **kw, **o)
    if fname == "mcquad":
        o = {"method": "mhcustom", "nsamples": 5, "nburnout": 3, "custom_step": lambda x, *p: x * 0.5 + 0.3}
        o.update(opts)
        return xitorch.integrate.mcquad(R.fn("mcf"), R.fn("logp"), torch.zeros(1, dtype=dt), fparams=R.params,
                                        pparams=R.params, **kw, **o)
    if fname in ("jac", "hess"):
        y = (y0 + 0.3).requires_grad_()
        v = torch.linspace(0.5, 1.5, n, dtype=dt)
        if fname == "jac":
            J = xitorch.grad.jac(R.fn("vec"), (y, *R.params), idxs=0)
            return torch.cat([J.mv(v), J.rmv(v), J.fullmatrix().reshape(-1)])
        H = xitorch.grad.hess(R.fn("obj"), (y, *R.params), idxs=0)
        return torch.cat([H.mv(v), H.fullmatrix().reshape(-1)])
    raise ValueError(fname)


FUNCTIONALS = ["rootfinder", "equilibrium", "minimize", "solve_ivp", "quad", "mcquad", "jac", "hess"]

# per functional: option sets (forward method etc.) used by the sweeps; first entry = default
METHOD_OPTS = {
    "rootfinder": [{}, {"method": "broyden1"}, {"method": "linearmixing", "alpha": -0.7}],
    "equilibrium": [{}, {"method": "anderson_acc"}],
    "minimize": [{}, {"method": "gd", "step": 0.3, "maxiter": 60}],
    "solve_ivp": [{"method": "rk4"}, {"method": "rk45"}],
    "quad": [{}],
    "mcquad": [{}],
    "jac": [{}],
    "hess": [{}],
}


def contraction(out, seed=0):
    g = torch.Generator().manual_seed(77 + seed)
    w = torch.randn(out.shape, generator=g, dtype=out.dtype)
    return (out * w).sum()
