"""Replay of spec/BackwardReuse.tla: one result differentiated several times (different cotangents, recorded or not, second order later)."""
import os
import warnings

import torch

from . import tlc as tlcmod
from .objstate import DT, EMod, HeldOp, LINALG, _METHOD, _call, _linalg_ref, _pure

_BCK = {"method": "bicgstab", "rtol": 1e-12, "atol": 1e-14}


def _cots(shape):
    n = 1
    for d in shape:
        n *= d
    a = torch.arange(n, dtype=DT)
    return [torch.cos(a + 0.3).reshape(shape), torch.sin(2.0 * a + 1.0).reshape(shape) * 1.5]


def _forward(fname, kind, s, bck):
    torch.manual_seed(5)
    if kind == "linop":
        return LINALG[fname](HeldOp(s)), None
    if kind == "edit":
        obj = EMod(s)
        return _call(fname, getattr(obj, _METHOD[fname]), (), bck), obj
    return _call(fname, _pure(fname), (s,), bck), None


def _reference(fname, kind, val, cots, w):
    """first- and second-order derivatives for each cotangent from a fresh forward pass differentiated once (dense torch for the operators)"""
    res = []
    for c in cots:
        sref = val.clone().requires_grad_()
        torch.manual_seed(5)
        oref = _linalg_ref(fname, sref) if kind == "linop" else _call(fname, _pure(fname), (sref,), None)
        g, = torch.autograd.grad(oref, [sref], grad_outputs=c.clone(), create_graph=True)
        h, = torch.autograd.grad((g * w).sum(), [sref], allow_unused=True)
        res.append((oref.detach(), g.detach(), torch.zeros_like(sref) if h is None else h))
    # Gauss-Newton reference J^T (J w) from FIRST-order passes with constant, non-vanishing cotangents only (one per entry of the result)
    sref = val.clone().requires_grad_()
    torch.manual_seed(5)
    oref = _linalg_ref(fname, sref) if kind == "linop" else _call(fname, _pure(fname), (sref,), None)
    J = torch.stack([torch.autograd.grad(o, [sref], retain_graph=True)[0] for o in oref.reshape(-1)])
    return res, J.T @ (J @ w)


def replay(ctx, functionals, prefix, maxpasses=3, sample=None):
    base = dict(NCot=2, MaxPasses=maxpasses, OwnCotangent=True, CotangentCopied=True, ShortcutByGraph=True)
    invs = ["EachPassOwnCotangent", "CotangentsUntouched", "SecondBelongsToItsPass", "GaussNewtonTermKept"]
    t, cf = tlcmod.gen_mc(ctx.work, "BackwardReuse", "MC_BackwardReuse", base, invariants=invs)
    dot = os.path.join(ctx.work, "br.dot")
    ctx.model_check(t, cf, workers=4, dump_dot=dot, label="one result differentiated several times", timeout=300)
    nodes, _, _ = tlcmod.parse_dot(dot)
    os.remove(dot)
    ctx.check_proof("BackwardReuse_proofs")      # any number of cotangents and of passes
    for sw, inv in (("OwnCotangent", "EachPassOwnCotangent"), ("CotangentCopied", "CotangentsUntouched"), ("ShortcutByGraph", "GaussNewtonTermKept")):
        t2, cf2 = tlcmod.gen_mc(ctx.work, "BackwardReuse", "MC_BackwardReuse_" + sw, dict(base, **{sw: False}), invariants=invs)
        ctx.expect_violation(t2, cf2, inv=inv, label="deviation " + sw, workers=4, timeout=300)
    hists = sorted({tuple((str(a["a"]), int(a["c"]), bool(a["rec"]), int(a["i"])) for a in st["hist"]) for st in nodes.values() if len(st["hist"]) >= 2})
    hists = [h for h in hists if not any(o != h and o[:len(h)] == h for o in hists)]      # maximal histories (prefixes are contained)
    if sample is not None and len(hists) > sample:
        import random
        rnd = random.Random(ctx.seed * 7919 + 13)
        # always keep the histories in which the cotangent changes between the first two passes and a second-order pass comes last
        keep = [h for h in hists if [x[1] for x in h if x[0] == "pass"][:2] in ([1, 2], [2, 1]) and h[-1][0] == "second" and any(x[0] == "gn" for x in h)]
        rest = [h for h in hists if h not in keep]
        rnd.shuffle(keep)
        rnd.shuffle(rest)
        hists = (keep[:max(1, sample // 2)] + rest)[:sample]
    n = 0
    val = torch.tensor([0.5, -0.3, 0.8], dtype=DT)
    w = torch.tensor([0.7, -1.1, 0.4], dtype=DT)
    with warnings.catch_warnings():
        warnings.simplefilter("ignore")
        for fname in functionals:
            kinds = (("linop", None),) if fname in LINALG else (("fn", None), ("edit", None)) + ((("edit", _BCK),) if fname in ("rootfinder", "equilibrium", "minimize") else ())
            for kind, bck in kinds:
                ref = None
                for hist in hists:
                    n += 1
                    ctx.case(key=("bwdreuse", fname, kind, bool(bck), hist))
                    why = None
                    try:
                        s = val.clone().requires_grad_()
                        out, obj = _forward(fname, kind, s, bck)
                        cots = _cots(out.shape)
                        if ref is None:
                            ref, gnref = _reference(fname, kind, val, cots, w)
                        snap_c = [c.clone() for c in cots]
                        snap_o = out.detach().clone()
                        if not torch.allclose(snap_o, ref[0][0], atol=1e-9):
                            why = "the value differs from a fresh call of the function form"
                        recorded = {}
                        npass = 0
                        tol = dict(atol=2e-7, rtol=2e-6)
                        for a, c, rec, i in hist:
                            if why:
                                break
                            if a == "pass":
                                npass += 1
                                g, = torch.autograd.grad(out, [s], grad_outputs=cots[c - 1], retain_graph=True, create_graph=rec, allow_unused=True)
                                if g is None:
                                    why = "pass %d delivered no gradient" % npass
                                elif not torch.allclose(g.detach(), ref[c - 1][1], **tol):
                                    other = torch.allclose(g.detach(), ref[2 - c][1], **tol)
                                    why = "the gradient of pass %d (cotangent %d%s) differs from the vector-Jacobian product with its cotangent by %.2e%s" % (
                                        npass, c, ", recorded" if rec else "", float((g.detach() - ref[c - 1][1]).abs().max()),
                                        " - it is the product with the OTHER cotangent" if other else "")
                                elif rec:
                                    recorded[npass] = (g, c)
                            elif a == "gn":
                                # least-squares loss at a perfect fit: the cotangent (out - target) vanishes but depends on the result
                                loss = 0.5 * ((out - out.detach().clone()) ** 2).sum()
                                g0, = torch.autograd.grad(loss, [s], create_graph=True, retain_graph=True, allow_unused=True)
                                if g0 is None or float(g0.detach().abs().max()) > 1e-12:
                                    why = "the gradient of a least-squares loss at a perfect fit is not zero"
                                else:
                                    h0 = torch.autograd.grad((g0 * w).sum(), [s], retain_graph=True, allow_unused=True)[0] if g0.requires_grad else None
                                    h0 = torch.zeros_like(s) if h0 is None else h0
                                    # (solve_ivp: the backward pass integrates the adjoint equation, it is not the derivative of the discrete scheme;
                                    #  agreement is demanded to the accuracy of the integrators - a dropped term is an error of order one)
                                    gtol = dict(atol=2e-3 * float(gnref.abs().max()), rtol=2e-3) if fname == "solve_ivp" else dict(atol=2e-6, rtol=2e-5)
                                    if not torch.allclose(h0, gnref, **gtol):
                                        why = ("the second derivative of a least-squares loss at a perfect fit (zero-valued, result-dependent cotangent) differs from the "
                                               "Gauss-Newton term J^T J w built from first-order passes by %.2e" % float((h0 - gnref).abs().max()))
                            else:
                                g, c = recorded[i]
                                h, = torch.autograd.grad((g * w).sum(), [s], retain_graph=True, allow_unused=True)
                                h = torch.zeros_like(s) if h is None else h
                                if not torch.allclose(h, ref[c - 1][2], atol=2e-6, rtol=2e-5):
                                    why = "the second derivative through the recorded pass %d (cotangent %d) differs from the reference by %.2e" % (
                                        i, c, float((h - ref[c - 1][2]).abs().max()))
                        if not why:
                            if any(not torch.equal(a_, b_) for a_, b_ in zip(cots, snap_c)):
                                why = "a cotangent tensor handed to a backward pass was modified"
                            elif not torch.equal(s.detach(), val):
                                why = "the differentiated input was modified"
                            elif not torch.equal(out.detach(), snap_o):
                                why = "the result was modified by a backward pass"
                            elif obj is not None and obj.s is not s:
                                why = "the object holds another tensor after the backward passes"
                    except Exception as e:
                        why = "raised %s: %s" % (type(e).__name__, str(e)[:140])
                    if why:
                        ctx.violation("%s/bwdreuse/%s" % (prefix, fname), "%s (%s%s), one result differentiated with the history %s: %s"
                                      % (fname, {"edit": "method of an EditableModule", "fn": "function with explicit parameters", "linop": "matrix-free LinearOperator"}[kind],
                                         ", iterative backward solve" if bck else "",
                                         ["pass(cot %d%s)" % (c, ", recorded" if rec else "") if a == "pass" else "least-squares-at-fit" if a == "gn" else "second(pass %d)" % i for a, c, rec, i in hist], why),
                                      {"f": fname, "kind": kind, "history": [list(h_) for h_ in hist]})
    return n
