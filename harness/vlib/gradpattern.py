"""Replay of spec/GradPattern.tla: every (functional, kinds of the three extra parameters) row is executed and differentiated."""
import os
import warnings

import torch
import xitorch
import xitorch.optimize
import xitorch.integrate

from . import tlc as tlcmod

DT = torch.float64


SHAPES = [(), (2,), (1, 2)]


def _mk(kind, val, shape=()):
    if kind == "num":
        return float(val)
    t = torch.full(shape, val, dtype=DT) + 0.05 * torch.arange(int(torch.tensor(shape).prod()) if shape else 1, dtype=DT).reshape(shape)
    return t.requires_grad_() if kind in ("tg", "tu") else t


def _use(ks, ps):
    """scalar combination of the parameters that influence the function: product of (1 + 0.1 mean(p)) over 'tg', 'tn', 'num' entries"""
    c = 1.0
    for k, p in zip(ks, ps):
        if k != "tu":
            c = c * (1.0 + 0.1 * (p.mean() if isinstance(p, torch.Tensor) and p.dim() > 0 else p))
    return c


def run_row(fname, ks, layout="scalars"):
    shapes = SHAPES if layout == "shapes" else [(), (), ()]
    ps = [_mk(k, v, sh) for k, v, sh in zip(ks, (0.7, -0.4, 1.3), shapes)]
    ks2, ps2 = ks, ps
    if layout == "shapes" and fname == "mcquad":
        # the second list: separate tensors, kinds and shapes rotated by one position
        ks2 = ks[1:] + ks[:1]
        ps2 = [_mk(k, v, sh) for k, v, sh in zip(ks2, (-0.3, 0.9, 0.5), shapes[1:] + shapes[:1])]
    if fname == "rootfinder":
        out = xitorch.optimize.rootfinder(lambda y, *p: y - 0.3 * torch.tanh(y) - _use(ks, p), torch.zeros(2, dtype=DT), params=ps)
    elif fname == "equilibrium":
        out = xitorch.optimize.equilibrium(lambda y, *p: 0.3 * torch.tanh(y) + _use(ks, p), torch.zeros(2, dtype=DT), params=ps)
    elif fname == "minimize":
        out = xitorch.optimize.minimize(lambda y, *p: (0.5 * (y - _use(ks, p)) ** 2 + 0.1 * torch.log(torch.cosh(y))).sum(), torch.zeros(2, dtype=DT), params=ps)
    elif fname == "solve_ivp":
        out = xitorch.integrate.solve_ivp(lambda t, y, *p: -y * _use(ks, p), torch.linspace(0.0, 0.5, 3, dtype=DT), torch.ones(2, dtype=DT), params=ps, method="rk4")
    elif fname == "quad":
        out = xitorch.integrate.quad(lambda x, *p: torch.sin(x * _use(ks, p)).reshape(1), torch.tensor(0.1, dtype=DT), torch.tensor(0.9, dtype=DT), params=ps, n=6)
    elif fname == "mcquad":
        out = xitorch.integrate.mcquad(lambda x, *p: x.sum() * _use(ks, p) + torch.zeros(1, dtype=DT), lambda x, *p: (-0.5 * (x - 0.1 * _use(ks2, p)) ** 2).sum(),
                                       torch.zeros(1, dtype=DT), fparams=ps, pparams=ps2, method="mhcustom", nsamples=4, nburnout=2, custom_step=lambda x, *p: x * 0.5 + 0.3)
    else:
        raise ValueError(fname)
    if ps2 is not ps:
        ps = ps + ps2
    leaves = [p for p in ps if isinstance(p, torch.Tensor) and p.requires_grad]
    if not leaves:
        return ps, out, []
    if not out.requires_grad:
        return ps, out, [None] * len(leaves)   # nothing differentiable influences the result
    g = torch.autograd.grad(out.sum(), leaves, allow_unused=True, create_graph=True)
    # second order must not raise either
    s = sum((x ** 2).sum() for x in g if x is not None and x.requires_grad)
    if isinstance(s, torch.Tensor) and s.requires_grad:
        torch.autograd.grad(s, leaves, allow_unused=True)
    return ps, out, g


def _run_params(fname, ps):
    """the functionals of run_row on three given parameter tensors that all influence the function (product form)"""
    ks = ["tg", "tg", "tg"]
    if fname == "rootfinder":
        return xitorch.optimize.rootfinder(lambda y, *p: y - 0.3 * torch.tanh(y) - _use(ks, p), torch.zeros(2, dtype=DT), params=ps)
    if fname == "equilibrium":
        return xitorch.optimize.equilibrium(lambda y, *p: 0.3 * torch.tanh(y) + _use(ks, p), torch.zeros(2, dtype=DT), params=ps)
    if fname == "minimize":
        return xitorch.optimize.minimize(lambda y, *p: (0.5 * (y - _use(ks, p)) ** 2 + 0.1 * torch.log(torch.cosh(y))).sum(), torch.zeros(2, dtype=DT), params=ps)
    if fname == "solve_ivp":
        return xitorch.integrate.solve_ivp(lambda t, y, *p: -y * _use(ks, p), torch.linspace(0.0, 0.5, 3, dtype=DT), torch.ones(2, dtype=DT), params=ps, method="rk4")
    if fname == "quad":
        return xitorch.integrate.quad(lambda x, *p: torch.sin(x * _use(ks, p)).reshape(1), torch.tensor(0.1, dtype=DT), torch.tensor(0.9, dtype=DT), params=ps, n=6)
    if fname == "mcquad":
        return xitorch.integrate.mcquad(lambda x, *p: x.sum() * _use(ks, p) + torch.zeros(1, dtype=DT), lambda x, *p: (-0.5 * (x - 0.1 * _use(ks, p)) ** 2).sum(),
                                        torch.zeros(1, dtype=DT), fparams=ps, pparams=ps, method="mhcustom", nsamples=4, nburnout=2, custom_step=lambda x, *p: x * 0.5 + 0.3)
    raise ValueError(fname)


def _run_dtype(fname, dt):
    ps = [torch.tensor(v, dtype=dt, requires_grad=True) for v in (0.7, -0.4, 1.3)]
    use = lambda p: (1 + 0.1 * p[0]) * (1 + 0.1 * p[1]) * (1 + 0.1 * p[2])
    if fname == "rootfinder":
        out = xitorch.optimize.rootfinder(lambda y, *p: y - 0.3 * torch.tanh(y) - use(p), torch.zeros(2, dtype=dt), params=ps)
    elif fname == "equilibrium":
        out = xitorch.optimize.equilibrium(lambda y, *p: 0.3 * torch.tanh(y) + use(p), torch.zeros(2, dtype=dt), params=ps)
    elif fname == "minimize":
        out = xitorch.optimize.minimize(lambda y, *p: (0.5 * (y - use(p)) ** 2 + 0.1 * torch.log(torch.cosh(y))).sum(), torch.zeros(2, dtype=dt), params=ps)
    elif fname == "solve_ivp":
        out = xitorch.integrate.solve_ivp(lambda t, y, *p: -y * use(p), torch.linspace(0.0, 0.5, 3, dtype=dt), torch.ones(2, dtype=dt), params=ps, method="rk45")
    elif fname == "quad":
        out = xitorch.integrate.quad(lambda x, *p: torch.sin(x * use(p)).reshape(1), torch.tensor(0.1, dtype=dt), torch.tensor(0.9, dtype=dt), params=ps, n=6)
    else:
        out = xitorch.integrate.mcquad(lambda x, *p: x.sum() * use(p) + torch.zeros(1, dtype=dt), lambda x, *p: (-0.5 * (x - 0.1 * use(p)) ** 2).sum(),
                                       torch.zeros(1, dtype=dt), fparams=ps, pparams=ps, method="mhcustom", nsamples=4, nburnout=2, custom_step=lambda x, *p: x * 0.5 + 0.3)
    g = torch.autograd.grad(out.sum(), ps, create_graph=True, allow_unused=True)
    s = sum((x ** 2).sum() for x in g if x is not None)
    h = torch.autograd.grad(s, ps, allow_unused=True)
    return out, g, h


def precision_rows(ctx, functionals, prefix):
    """single precision: value, first- and second-order gradients are float32 tensors close to the double-precision ones"""
    n = 0
    with warnings.catch_warnings():
        warnings.simplefilter("ignore")
        for fname in functionals:
            n += 1
            ctx.case(key=("float32", fname))
            why = None
            try:
                o64, g64, h64 = _run_dtype(fname, torch.float64)
                o32, g32, h32 = _run_dtype(fname, torch.float32)
                bad = [str(x.dtype) for x in [o32] + list(g32) + list(h32) if x is not None and x.dtype != torch.float32]
                if bad:
                    why = "single-precision inputs give %s results" % sorted(set(bad))
                elif not torch.allclose(o32.double(), o64, atol=1e-4, rtol=1e-4):
                    why = "single-precision value differs from the double-precision one by %.2e" % float((o32.double() - o64).abs().max())
                else:
                    for nm, a32, a64, tol in [("first", a, b, 2e-4) for a, b in zip(g32, g64)] + [("second", a, b, 5e-3) for a, b in zip(h32, h64)]:
                        if (a32 is None) != (a64 is None):
                            why = "%s-order gradient present in one precision only" % nm
                        elif a32 is not None and not torch.allclose(a32.double(), a64, atol=tol, rtol=tol):
                            why = "%s-order gradient in single precision differs from double precision by %.2e" % (nm, float((a32.double() - a64).abs().max()))
                        if why:
                            break
            except Exception as e:
                why = "raised %s: %s" % (type(e).__name__, str(e)[:140])
            if why:
                ctx.violation("%s/float32/%s" % (prefix, fname), "%s in single precision: %s" % (fname, why), {"f": fname})
    return n


def dependent_rows(ctx, functionals, prefix):
    """Parameters computed from one another (p2 = 2 p1 + 0.1, p3 = p1 p2 passed next to p1): the gradient w.r.t. the leaf is the TOTAL
    derivative.  Reference: the same functional on three independent leaves of the same values, combined by the chain rule
    (independent parameters are verified against closed forms elsewhere); with and without graph recording, and to second order."""
    n = 0
    with warnings.catch_warnings():
        warnings.simplefilter("ignore")
        for fname in functionals:
            for cg in (False, True):
                n += 1
                ctx.case(key=("dependent-params", fname, cg))
                why = None
                try:
                    p1 = torch.tensor(0.7, dtype=DT, requires_grad=True)
                    p2 = 2.0 * p1 + 0.1
                    p3 = p1 * p2
                    out = _run_params(fname, (p1, p2, p3))
                    w = torch.cos(torch.arange(out.numel(), dtype=DT) + 0.3).reshape(out.shape)
                    gA, = torch.autograd.grad((out * w).sum(), [p1], create_graph=cg)
                    q = [torch.tensor(float(v), dtype=DT, requires_grad=True) for v in (p1, p2, p3)]
                    outB = _run_params(fname, tuple(q))
                    gB = torch.autograd.grad((outB * w).sum(), q, create_graph=True)
                    # dp2/dp1 = 2, dp3/dp1 = p2 + 2 p1
                    tot = gB[0] + 2.0 * gB[1] + (q[1] + 2.0 * q[0]) * gB[2]
                    if not torch.allclose(out, outB, atol=1e-10):
                        why = "value differs between dependent and independent parameters of the same values"
                    elif not torch.allclose(gA, tot.detach(), atol=1e-8, rtol=1e-7):
                        why = "gradient w.r.t. the leaf is %.10f, total derivative by the chain rule %.10f" % (float(gA), float(tot))
                    elif cg:
                        hA, = torch.autograd.grad(gA, [p1])
                        hB = torch.autograd.grad(tot, q, allow_unused=True)
                        hB = [x if x is not None else torch.zeros((), dtype=DT) for x in hB]
                        htot = hB[0] + 2.0 * hB[1] + (q[1] + 2.0 * q[0]).detach() * hB[2]
                        if not torch.allclose(hA, htot, atol=1e-7, rtol=1e-6):
                            why = "second derivative w.r.t. the leaf is %.10f, by the chain rule %.10f" % (float(hA), float(htot))
                except Exception as e:
                    why = "raised %s: %s" % (type(e).__name__, str(e)[:140])
                if why:
                    ctx.violation("%s/dependent-params/%s" % (prefix, fname), "%s with parameters (p1, 2 p1 + 0.1, p1 p2) computed from one leaf, backward %s graph recording: %s"
                                  % (fname, "with" if cg else "without", why), {"f": fname, "create_graph": cg})
    return n


def duplicate_rows(ctx, functionals, prefix):
    """the SAME tensor object in two parameter slots (p, p, q): its gradient is the sum over the slots, to first and second order"""
    n = 0
    with warnings.catch_warnings():
        warnings.simplefilter("ignore")
        for fname in functionals:
            for cg in (False, True):
                n += 1
                ctx.case(key=("duplicated-param", fname, cg))
                why = None
                try:
                    p = torch.tensor(0.7, dtype=DT, requires_grad=True)
                    r = torch.tensor(-0.4, dtype=DT, requires_grad=True)
                    out = _run_params(fname, (p, p, r))
                    w = torch.cos(torch.arange(out.numel(), dtype=DT) + 0.3).reshape(out.shape)
                    gA = torch.autograd.grad((out * w).sum(), [p, r], create_graph=cg)
                    q = [torch.tensor(v, dtype=DT, requires_grad=True) for v in (0.7, 0.7, -0.4)]
                    outB = _run_params(fname, tuple(q))
                    gB = torch.autograd.grad((outB * w).sum(), q, create_graph=True)
                    if not (torch.allclose(gA[0], (gB[0] + gB[1]).detach(), atol=1e-8, rtol=1e-7) and torch.allclose(gA[1], gB[2].detach(), atol=1e-8, rtol=1e-7)):
                        why = "gradients %s, sum over the two slots / third slot on independent tensors %s" % ([float(x) for x in gA], [float(gB[0] + gB[1]), float(gB[2])])
                    elif cg:
                        hA = torch.autograd.grad(gA[0] ** 2 + gA[1] ** 2, [p, r])
                        hB = torch.autograd.grad((gB[0] + gB[1]) ** 2 + gB[2] ** 2, q)
                        if not (torch.allclose(hA[0], hB[0] + hB[1], atol=1e-7, rtol=1e-6) and torch.allclose(hA[1], hB[2], atol=1e-7, rtol=1e-6)):
                            why = "second-order gradients %s, reference %s" % ([float(x) for x in hA], [float(hB[0] + hB[1]), float(hB[2])])
                except Exception as e:
                    why = "raised %s: %s" % (type(e).__name__, str(e)[:140])
                if why:
                    ctx.violation("%s/duplicated-param/%s" % (prefix, fname), "%s with the same tensor in two parameter slots, backward %s graph recording: %s"
                                  % (fname, "with" if cg else "without", why), {"f": fname, "create_graph": cg})
    return n


def wrapped_solution_rows(ctx, functionals, prefix):
    """the caller already knows the solution and only wants the implicit gradient attached to it: the functional is started AT the
    solution with the smallest budget (minimize with gd / adam and maxiter=0 is the documented way).  Value = the given point,
    gradients = those of a converged run from a generic initial guess, the initial guess (even if it requires grad) gets none."""
    n = 0
    ks = ["tg", "tg", "tg"]
    with warnings.catch_warnings():
        warnings.simplefilter("ignore")
        for fname, variants in (("minimize", [dict(method="gd", maxiter=0), dict(method="adam", maxiter=0), dict(method="broyden1")]),
                                ("rootfinder", [dict(method="broyden1"), dict(method="newton")]), ("equilibrium", [dict(method="anderson_acc"), dict(method="broyden1")])):
            if fname not in functionals:
                continue
            fn = {"rootfinder": (xitorch.optimize.rootfinder, lambda y, *p: y - 0.3 * torch.tanh(y) - _use(ks, p)),
                  "equilibrium": (xitorch.optimize.equilibrium, lambda y, *p: 0.3 * torch.tanh(y) + _use(ks, p)),
                  "minimize": (xitorch.optimize.minimize, lambda y, *p: (0.5 * (y - _use(ks, p)) ** 2 + 0.1 * torch.log(torch.cosh(y))).sum())}[fname]
            ps = [torch.tensor(v_, dtype=DT, requires_grad=True) for v_ in (0.7, -0.4, 1.3)]
            yref = fn[0](fn[1], torch.zeros(2, dtype=DT), params=ps, method="broyden1", f_tol=1e-13, x_tol=1e-13)
            w = torch.tensor([0.7, -1.1], dtype=DT)
            gref = torch.autograd.grad((yref * w).sum(), ps, create_graph=True)
            href = torch.autograd.grad(sum((x ** 2).sum() for x in gref), ps)
            for opts in variants:
                for y0_grad in (False, True):
                    n += 1
                    ctx.case(key=("wrapped-solution", fname, tuple(sorted(opts.items())), y0_grad))
                    why = None
                    try:
                        y0 = yref.detach().clone().requires_grad_(y0_grad)
                        y = fn[0](fn[1], y0, params=ps, **opts)
                        g = torch.autograd.grad((y * w).sum(), ps, create_graph=True)
                        h = torch.autograd.grad(sum((x ** 2).sum() for x in g), ps + ([y0] if y0_grad else []), allow_unused=True)
                        if not torch.allclose(y.detach(), yref.detach(), atol=1e-9):
                            why = "started at the solution, returned a point %.2e away from it" % float((y - yref).abs().max())
                        elif not all(torch.allclose(a, b, atol=1e-7, rtol=1e-6) for a, b in zip(g, gref)):
                            why = "first-order gradients differ from those of a converged run by %.2e" % max(float((a - b).abs().max()) for a, b in zip(g, gref))
                        elif not all(torch.allclose(a, b, atol=1e-6, rtol=1e-5) for a, b in zip(h[:3], href)):
                            why = "second-order gradients differ from those of a converged run by %.2e" % max(float((a - b).abs().max()) for a, b in zip(h[:3], href))
                        elif y0_grad and h[3] is not None and float(h[3].abs().max()) != 0.0:
                            why = "the initial guess received a gradient in the second backward pass"
                    except Exception as e:
                        why = "raised %s: %s" % (type(e).__name__, str(e)[:140])
                    if why:
                        ctx.violation("%s/wrapped-solution/%s" % (prefix, fname), "%s(%s) started at the known solution (initial guess %s grad): %s"
                                      % (fname, opts, "requires" if y0_grad else "without", why), {"f": fname, "opts": {k_: str(v_) for k_, v_ in opts.items()}})
    return n


def shared_leaf_rows(ctx, functionals, prefix):
    """limits / time grid / initial state computed from the same leaf as the parameter: total derivative against closed forms"""
    n = 0
    with warnings.catch_warnings():
        warnings.simplefilter("ignore")
        for cg in (False, True):
            if "quad" in functionals:
                n += 1
                ctx.case(key=("shared-leaf", "quad", cg))
                why = None
                try:
                    a = torch.tensor(0.7, dtype=DT, requires_grad=True)
                    v = xitorch.integrate.quad(lambda x, a_: torch.exp(a_ * x), a * 0.1, a * 2.0, params=(a,), n=30)
                    g, = torch.autograd.grad(v, a, create_graph=cg)
                    a2 = torch.tensor(0.7, dtype=DT, requires_grad=True)
                    gr, = torch.autograd.grad((torch.exp(a2 * a2 * 2) - torch.exp(a2 * a2 * 0.1)) / a2, a2, create_graph=True)
                    if abs(float(g) - float(gr)) > 1e-8:
                        why = "d/da of the integral of exp(a x) over [0.1 a, 2 a] is %.10f, closed form %.10f" % (float(g), float(gr))
                    elif cg:
                        h, = torch.autograd.grad(g, a)
                        hr, = torch.autograd.grad(gr, a2)
                        if abs(float(h) - float(hr)) > 1e-6 * max(1.0, abs(float(hr))):
                            why = "second derivative %.8f, closed form %.8f" % (float(h), float(hr))
                except Exception as e:
                    why = "raised %s: %s" % (type(e).__name__, str(e)[:140])
                if why:
                    ctx.violation("%s/shared-leaf/quad" % prefix, "quad with limits computed from the parameter leaf (backward %s graph recording): %s" % ("with" if cg else "without", why), {"cg": cg})
            if "solve_ivp" in functionals:
                for method, kw, tol in (("rk4", {}, 1e-6), ("rk45", {"rtol": 1e-10, "atol": 1e-12}, 1e-8)):
                    n += 1
                    ctx.case(key=("shared-leaf", "solve_ivp", method, cg))
                    why = None
                    try:
                        a = torch.tensor(0.7, dtype=DT, requires_grad=True)
                        ts = torch.linspace(0, 1, 21, dtype=DT) * (1.0 + a)
                        yt = xitorch.integrate.solve_ivp(lambda t_, y, a_: -a_ * y, ts, torch.ones(1, dtype=DT) * a, params=(a,), method=method, **kw)
                        g, = torch.autograd.grad(yt[-1].sum(), a, create_graph=cg)
                        a2 = torch.tensor(0.7, dtype=DT, requires_grad=True)
                        gr, = torch.autograd.grad(a2 * torch.exp(-a2 * (1 + a2)), a2)
                        if abs(float(g) - float(gr)) > tol:
                            why = "d/da of y(T(a); y0(a), a) is %.10f, closed form %.10f" % (float(g), float(gr))
                    except Exception as e:
                        why = "raised %s: %s" % (type(e).__name__, str(e)[:140])
                    if why:
                        ctx.violation("%s/shared-leaf/solve_ivp" % prefix, "solve_ivp(%s) with time grid, initial state and parameter computed from one leaf (backward %s graph recording): %s"
                                      % (method, "with" if cg else "without", why), {"method": method, "cg": cg})
    return n


def replay(ctx, functionals, prefix):
    c = dict(Functionals=set(functionals), Len3=3)
    t, cf = tlcmod.gen_mc(ctx.work, "GradPattern", "MC_GradPattern", c, invariants=["NeverRaises", "OnlyDifferentiableGetGradients"])
    dot = os.path.join(ctx.work, "gp.dot")
    ctx.model_check(t, cf, workers=4, dump_dot=dot, label="gradient pattern table", timeout=300)
    nodes, _, _ = tlcmod.parse_dot(dot)
    os.remove(dot)
    n = 0
    with warnings.catch_warnings():
        warnings.simplefilter("ignore")
        for st in sorted(nodes.values(), key=lambda s_: (s_["f"], list(s_["ks"]), s_["layout"])):
            fname, ks, pred, layout = st["f"], [str(k) for k in st["ks"]], st["pred"], st["layout"]
            n += 1
            ctx.case(key=("gradpattern", fname, tuple(ks), layout))
            why = None
            try:
                if n % 3 == 0:
                    # every third row under xitorch's debug mode (extra input checks, parameter probing): same outcome demanded
                    import contextlib, io
                    with xitorch.enable_debug(), contextlib.redirect_stdout(io.StringIO()):
                        ps, out, g = run_row(fname, ks, layout)
                else:
                    ps, out, g = run_row(fname, ks, layout)
                gi = iter(g)
                expect = list(pred["grads"]) + list(pred["grads2"])
                allks = ks + (ks[1:] + ks[:1] if len(pred["grads2"]) else [])
                for i, (k, p) in enumerate(zip(allks, ps)):
                    if k in ("tg", "tu"):
                        gr = next(gi)
                        nz = gr is not None and float(gr.detach().abs().max()) > 0
                        which = "parameter %d" % i if i < 3 else "parameter %d of the second list" % (i - 3)
                        if expect[i] == "nonzero" and not nz:
                            why = "%s (requires grad, used) received %s" % (which, "no gradient" if gr is None else "a zero gradient")
                        if expect[i] == "zero_or_none" and nz:
                            why = "%s (unused) received a non-zero gradient" % which
                        if gr is not None and tuple(gr.shape) != tuple(p.shape):
                            why = "%s of shape %s received a gradient of shape %s" % (which, tuple(p.shape), tuple(gr.shape))
            except Exception as e:
                why = "raised %s: %s" % (type(e).__name__, str(e)[:140])
            if why:
                ctx.violation("%s/gradpattern/%s" % (prefix, fname), "%s with extra parameters of kinds %s%s (tg: tensor requiring grad, tu: unused tensor requiring grad, tn: tensor without grad, num: number): %s"
                              % (fname, ks, " and shapes (), (2,), (1,2)" + ("; second list rotated by one" if fname == "mcquad" else "") if layout == "shapes" else "", why), {"f": fname, "ks": ks, "layout": layout})
    return n + dependent_rows(ctx, functionals, prefix) + precision_rows(ctx, functionals, prefix) + shared_leaf_rows(ctx, functionals, prefix) \
        + duplicate_rows(ctx, functionals, prefix) + wrapped_solution_rows(ctx, functionals, prefix)
