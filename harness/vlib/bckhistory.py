"""Replay of spec/BckHistory.tla: every history of calls of one functional is executed in this process and the
configuration each backward pass worked with is observed (adaptive-step hook for solve_ivp, evaluation count for quad,
keyword arguments of the backward linear solve for rootfinder / equilibrium / minimize)."""
import os
import warnings

import torch
import xitorch
import xitorch.optimize
import xitorch.integrate
from xitorch._utils import verif_hooks as vh

from . import tlc as tlcmod

DT = torch.float64
IVP = {"v1": 1e-7, "v2": 1e-9, "b": 1e-4}
QN = {"v1": 6, "v2": 9, "b": 4}
ROOT_FWD = {"v1": dict(method="broyden1", f_tol=1e-12), "v2": dict(method="broyden1", f_tol=1e-11, maxiter=77)}
ROOT_BCK = dict(method="bicgstab", rtol=1e-10)


def run_call(fname, v, given):
    """returns the token ('v1' | 'v2' | 'b' | 'default' | 'other:...') describing the configuration the backward pass used"""
    p = torch.tensor([0.6, -0.3], dtype=DT, requires_grad=True)
    if fname == "solve_ivp":
        seen = []
        phase = ["fwd"]

        def sink(evname, fields):
            if evname == "ark.try" and phase[0] == "bwd" and fields["solver"].rtol not in seen:
                seen.append(fields["solver"].rtol)
        vh.set_sink(sink)
        try:
            kw = {"bck_options": {"rtol": IVP["b"]}} if given else {}
            y = xitorch.integrate.solve_ivp(lambda t, y, p: -y * p[0] + p[1], torch.tensor([0.0, 0.3, 0.7], dtype=DT), torch.ones(2, dtype=DT), params=(p,),
                                            method="rk45", rtol=IVP[v], atol=1e-10, **kw)
            phase[0] = "bwd"
            torch.autograd.grad(y.sum(), p)
        finally:
            vh.set_sink(None)
        if len(seen) != 1:
            return "other:rtol values %s" % seen
        inv = {val: k for k, val in IVP.items()}
        return inv.get(seen[0], "other:rtol=%g" % seen[0])
    if fname == "quad":
        cnt = {"fwd": 0, "bwd": 0}
        phase = ["fwd"]

        def f(x, p):
            cnt[phase[0]] += 1
            return torch.sin(p * x)
        kw = {"bck_options": {"n": QN["b"]}} if given else {}
        y = xitorch.integrate.quad(f, torch.tensor(0.1, dtype=DT), torch.tensor(0.9, dtype=DT), params=(p,), n=QN[v], **kw)
        phase[0] = "bwd"
        torch.autograd.grad(y.sum(), p)
        nb = cnt["bwd"] - 3          # two tensor limits + one probe of the output structure (QuadCfg.BackwardRule)
        inv = {val: k for k, val in QN.items()}
        return inv.get(nb, "other:n=%d" % nb)
    # rootfinder family: the backward pass calls xitorch.linalg.solve (module-level name in xitorch.optimize.rootfinder)
    import sys
    rfmod = sys.modules["xitorch.optimize.rootfinder"]
    seen = []
    orig = rfmod.solve

    def spy(*a, **kw):
        seen.append({k: kw[k] for k in kw if k not in ("A", "B", "E", "M", "bck_options")})
        return orig(*a, **kw)
    fn = {"rootfinder": (xitorch.optimize.rootfinder, lambda y, p: y - 0.3 * torch.tanh(y) - p),
          "equilibrium": (xitorch.optimize.equilibrium, lambda y, p: 0.3 * torch.tanh(y) + p),
          "minimize": (xitorch.optimize.minimize, lambda y, p: (0.5 * (y - p) ** 2 + 0.1 * torch.log(torch.cosh(y))).sum())}[fname]
    kw = {"bck_options": dict(ROOT_BCK)} if given else {}
    y = fn[0](fn[1], torch.zeros(2, dtype=DT), params=(p,), **ROOT_FWD[v], **kw)
    rfmod.solve = spy
    try:
        torch.autograd.grad(y.sum(), p)
    finally:
        rfmod.solve = orig
    if not seen:
        return None          # the backward solve was not observable through this name: no verdict
    kws = seen[0]
    if kws == ROOT_BCK:
        return "b"
    if not kws:
        return "default"
    for vv, o in ROOT_FWD.items():
        if any(k in kws and kws[k] == o[k] for k in o if k != "method") or (kws.get("method") == o["method"] and "rtol" not in kws):
            return vv
    return "other:%s" % sorted(kws.items())


def replay(ctx, functionals, prefix, maxlen):
    base = dict(Fs=set(functionals), MaxLen=maxlen, DefaultsImmutable=True)
    t, cf = tlcmod.gen_mc(ctx.work, "BckHistory", "MC_BckHistory", base, invariants=["BackwardConfigIsOwn"])
    dot = os.path.join(ctx.work, "bh.dot")
    ctx.model_check(t, cf, workers=4, dump_dot=dot, label="call histories (backward configuration)", timeout=300)
    nodes, _, _ = tlcmod.parse_dot(dot)
    os.remove(dot)
    t2, cf2 = tlcmod.gen_mc(ctx.work, "BckHistory", "MC_BckHistory_dev", dict(base, DefaultsImmutable=False), invariants=["BackwardConfigIsOwn"])
    ctx.expect_violation(t2, cf2, inv="BackwardConfigIsOwn", label="deviation DefaultsImmutable", workers=4, timeout=300)
    ctx.check_proof("BckHistory_proofs")       # histories of any length
    full = sorted([(s_["f"], s_["hist"]) for s_ in nodes.values() if len(s_["hist"]) == maxlen], key=lambda fh: (fh[0], [(c_["v"], c_["given"]) for c_ in fh[1]]))
    n = 0
    observed = 0
    with warnings.catch_warnings():
        warnings.simplefilter("ignore")
        for fname, hist in full:
            n += 1
            ctx.case(key=("bck-history", fname, tuple((c_["v"], bool(c_["given"])) for c_ in hist)))
            for pos, c_ in enumerate(hist):
                try:
                    tok = run_call(fname, c_["v"], bool(c_["given"]))
                except Exception as e:
                    tok = "raised %s: %s" % (type(e).__name__, str(e)[:120])
                if tok is None:
                    continue
                observed += 1
                if tok != c_["eff"]:
                    desc = [(p_["v"], "bck_options given" if p_["given"] else "default bck_options") for p_ in hist]
                    ctx.violation("%s/bck-history/%s" % (prefix, fname),
                                  "%s, call %d of the history %s: the backward pass worked with configuration '%s', its own call determines '%s' (v1/v2: forward option variants, b: the caller's bck_options, default: the backward solver's defaults)"
                                  % (fname, pos + 1, desc, tok, c_["eff"]), {"f": fname, "history": desc})
                    break
    if observed == 0:
        from .ctx import Machinery
        raise Machinery("BckHistory replay observed no backward configuration at all")
    return n
