"""Per-run context: work dir, TLC bookkeeping, violations, known findings, evidence file."""
import json
import os
import shutil
import sys
import time
import traceback

from . import tlc as tlcmod

VERIF = os.path.dirname(os.path.dirname(os.path.dirname(os.path.abspath(__file__))))
SPEC = os.path.join(VERIF, "spec")


class Machinery(Exception):
    """failure of the checking machinery itself -> exit 2"""


class Ctx(object):
    def __init__(self, prop, tier, seed):
        self.prop = prop
        self.tier = tier
        self.seed = seed
        self.t0 = time.time()
        self.work = os.path.join(VERIF, "out", "work", "%s_%d" % (prop, os.getpid()))
        shutil.rmtree(self.work, ignore_errors=True)
        os.makedirs(self.work)
        self.replay_dir = os.environ.get("VERIF_REPLAY_DIR") or os.path.join(VERIF, "out", "replay")
        os.makedirs(self.replay_dir, exist_ok=True)
        self.states = 0
        self.transitions = 0
        self.traces_validated = 0
        self.proofs = []            # TLAPS proofs re-checked in this run
        self.replayed = 0           # TLC-generated states / edges / behaviours executed on the implementation and compared
        self.evaluations = 0
        self.nontrivial = set()
        self.samples = []
        self.violations = []        # dicts: key, what, replay
        self.notes = {}             # extra coverage keys
        self.assumptions = []
        self.tlc_runs = []
        self.exhaustive = None
        kf = json.load(open(os.path.join(VERIF, "known_findings.json")))
        self.known = [f for f in kf["findings"] if f["property"] == prop and f["status"] == "known"]
        self.known_hit = {}

    # ------------------------------------------------------------------ TLC
    def model_check(self, spec, cfg, expect_ok=True, label=None, **kw):
        """Run TLC on spec/<spec>.tla with spec/<cfg>. Adds states/transitions. A violated invariant in the
        *design-level* model with intended switches is a machinery/design failure (exit 2), not a code violation."""
        spec_path = spec if os.path.isabs(spec) else os.path.join(SPEC, spec)
        cfg_path = cfg if os.path.isabs(cfg) else os.path.join(SPEC, cfg)
        try:
            r = tlcmod.run(spec_path, cfg_path, self.work, **kw)
        except tlcmod.TlcError as e:
            raise Machinery(str(e))
        self.tlc_runs.append({"spec": os.path.basename(spec_path), "cfg": os.path.basename(cfg_path),
                              "label": label, "generated": r.generated, "distinct": r.distinct,
                              "violated": r.violated, "wall_s": round(r.wall, 2)})
        if expect_ok:
            self.states += r.distinct
            self.transitions += r.generated
            if not r.ok:
                raise Machinery("model %s with %s: %s violated (intended instance must hold)\n%s"
                                % (spec, cfg, r.violated, r.out[-3000:]))
        return r

    def expect_violation(self, spec, cfg, inv=None, label=None, **kw):
        """Non-vacuity: a deviation instance must violate (some / the given) invariant."""
        if inv is not None:
            # only the expected invariant is checked: with several workers TLC may otherwise report whichever of two
            # violable invariants it reaches first (a nondeterministic machinery failure)
            lines = open(cfg).read().splitlines()
            kept = [ln for ln in lines if not ln.strip().startswith("INVARIANT") or ln.split()[1:] == [inv]]
            if not any(ln.strip().startswith("INVARIANT") for ln in kept):
                kept.append("INVARIANT %s" % inv)
            cfg = cfg[:-4] + "_only.cfg" if cfg.endswith(".cfg") else cfg + "_only"
            with open(cfg, "w") as fh:
                fh.write("\n".join(kept) + "\n")
        r = self.model_check(spec, cfg, expect_ok=False, label=label, **kw)
        if r.ok or (inv is not None and r.violated != inv):
            raise Machinery("non-vacuity failed: %s with %s expected violation of %s, got %s"
                            % (spec, cfg, inv, r.violated))
        return r

    def binding_selftest(self, spec, cfg, traces, rejected, mutators, per_mutator=4):
        """Demonstrated binding: accepted recorded traces are corrupted in one field / lose one event and must then be
        rejected by the trace specification (otherwise the trace specification constrains too little: machinery failure).
        mutators: list of (name, fn) with fn(trace_copy) -> corrupted trace, or None if not applicable to that trace."""
        import copy
        bad_tids = {r[0] for r in rejected}
        good = [t for t in traces if t["tid"] not in bad_tids]
        bad = []
        names = []
        for name, fn in mutators:
            k = 0
            for t in good:
                t2 = fn(copy.deepcopy(t))
                if t2 is None:
                    continue
                t2 = dict(t2)
                t2["tid"] = len(bad) + 1
                bad.append(t2)
                names.append(name)
                k += 1
                if k >= per_mutator:
                    break
            if k == 0:
                # no accepted trace offers the event this corruption needs (possible when the implementation misbehaves and the
                # traces that would qualify are the rejected ones): recorded, never an error - a violation must not be masked
                self.notes.setdefault("corruptions_not_applicable", []).append(name)
        if not bad:
            return 0
        saved = self.traces_validated
        rej = self.validate_traces(spec, cfg, bad, shards=4, expect_reject=True)
        self.traces_validated = saved
        got = {r[0] for r in rej}
        missed = [names[i] for i in range(len(bad)) if (i + 1) not in got]
        if missed:
            raise Machinery("binding self-test: corrupted traces accepted by %s: %s" % (spec, sorted(set(missed))))
        self.notes["corrupted_traces_rejected"] = self.notes.get("corrupted_traces_rejected", 0) + len(bad)
        self.notes.setdefault("corruptions", [])
        self.notes["corruptions"] = sorted(set(self.notes["corruptions"]) | set(names))
        return len(bad)

    def check_proof(self, module, timeout=900):
        """Machine-checked (TLAPS) proof that the invariants hold for unbounded constants: spec/proofs/<module>.tla is
        re-checked from scratch (fresh directory, no fingerprint cache); every obligation must be proved."""
        import glob
        import re
        import subprocess
        d = os.path.join(self.work, "proof_" + module)
        shutil.rmtree(d, ignore_errors=True)
        os.makedirs(d)
        for p in glob.glob(os.path.join(SPEC, "*.tla")) + [os.path.join(SPEC, "proofs", module + ".tla")]:
            shutil.copy(p, d)
        t1 = time.time()
        m = None
        for attempt in range(3):
            # the directory is fresh, so the fingerprints a later attempt re-uses were all produced by this run; a back-end
            # time-out on a loaded machine is retried (only the obligations that are still open are sent again)
            try:
                out = subprocess.run(["tlapm"] + (["--cleanfp"] if attempt == 0 else []) + [module + ".tla"], cwd=d, stdout=subprocess.PIPE,
                                     stderr=subprocess.STDOUT, timeout=timeout).stdout.decode("utf-8", "replace")
            except subprocess.TimeoutExpired:
                raise Machinery("tlapm timed out on %s" % module)
            m = re.search(r"All (\d+) obligations? proved", out)
            if m:
                break
        if not m:
            raise Machinery("TLAPS proof %s not accepted: %s" % (module, out[-400:]))
        self.proofs.append({"module": module, "obligations_proved": int(m.group(1)), "wall_s": round(time.time() - t1, 2)})
        shutil.rmtree(d, ignore_errors=True)
        return int(m.group(1))

    def check_coverage(self, r, actions):
        for a in actions:
            if a not in r.coverage or r.coverage[a][1] == 0:
                raise Machinery("vacuity: action %s never taken (coverage %s)" % (a, r.coverage))

    # ------------------------------------------------------------------ traces
    def validate_traces(self, spec, cfg, traces, shards=12, timeout=1800, expect_reject=False):
        """traces: list of dicts {tid, cfg, ev}. Validates all with Trace spec (batched, sharded).
        Returns list of (tid, matched_events, total_events) for rejected traces."""
        import json as _json
        from concurrent.futures import ThreadPoolExecutor
        if not traces:
            return []
        spec_path = os.path.join(SPEC, spec)
        cfg_path = os.path.join(SPEC, cfg)
        nsh = max(1, min(shards, (len(traces) + 19) // 20))
        files = []
        for k in range(nsh):
            part = traces[k::nsh]
            fp = os.path.join(self.work, "tr_%s_%d_%d.ndjson" % (spec.replace(".tla", ""), len(self.tlc_runs), k))
            with open(fp, "w") as f:
                for t in part:
                    f.write(_json.dumps(_tlc_safe(t)) + "\n")
            files.append((fp, part))

        def one(arg):
            fp, part = arg
            return tlcmod.run(spec_path, cfg_path, self.work, workers=1, timeout=timeout,
                              env={"TRACE_FILE": fp}, deadlock=False)
        try:
            with ThreadPoolExecutor(max_workers=nsh) as ex:
                results = list(ex.map(one, files))
        except tlcmod.TlcError as e:
            raise Machinery(str(e))
        rejected = []
        gen = dist = 0
        for (fp, part), r in zip(files, results):
            gen += r.generated
            dist += r.distinct
            if r.violated not in (None, "postcondition"):
                raise Machinery("trace validation run failed: %s\n%s" % (r.violated, r.out[-3000:]))
            rej = []
            for v in tlcmod.printed_values(r.out):
                if isinstance(v, list) and v and v[0] == "REJECTED":
                    rej.append((v[1], v[2], v[3]))
            if r.violated == "postcondition" and not rej:
                raise Machinery("postcondition violated but no REJECTED line:\n" + r.out[-3000:])
            if r.violated is None and "states generated" not in r.out:
                raise Machinery("trace validation produced no result:\n" + r.out[-3000:])
            rejected += rej
        self.tlc_runs.append({"spec": spec, "cfg": cfg, "label": "trace validation", "traces": len(traces),
                              "rejected": len(rejected), "generated": gen, "distinct": dist})
        self.trace_states = getattr(self, "trace_states", 0) + dist
        if not expect_reject:
            self.traces_validated += len(traces) - len(rejected)
        return rejected

    # ------------------------------------------------------------------ cases
    def case(self, key=None, sample=None):
        self.evaluations += 1
        if key is not None:
            self.nontrivial.add(key)
        if sample is not None and len(self.samples) < 6:
            self.samples.append(sample)

    def violation(self, key, what, replay=None):
        """key: abstract-configuration key used to match known findings."""
        for f in self.known:
            if _match(f["key"], key):
                self.known_hit.setdefault(f["key"], {"f": f, "n": 0, "ex": key})
                self.known_hit[f["key"]]["n"] += 1
                return False
        self.violations.append({"key": key, "what": what, "replay": replay})
        return True

    # ------------------------------------------------------------------ finish
    def finish(self, rule, level="model_checking", extra=None):
        if getattr(self, "defer", False):
            # thorough tier: several passes (seeds) accumulate into one report; see main.py
            self._deferred = (rule, level, extra)
            self._acc_replayed = getattr(self, "_acc_replayed", 0) + self.replayed
            self.replayed = 0
            return 0
        self.replayed += getattr(self, "_acc_replayed", 0)
        self.samples = self.samples[:12]
        wall = time.time() - self.t0
        for k, h in sorted(self.known_hit.items()):
            print("KNOWN-FINDING: property=%s %s [key=%s, %d case(s), e.g. %s]"
                  % (self.prop, h["f"]["what"], k, h["n"], h["ex"]))
        paths = []
        bykey = {}
        for v in self.violations:
            bykey.setdefault(v["key"], []).append(v)
        firsts = [(vs[0], len(vs)) for k, vs in sorted(bykey.items())]
        for i, (v, cnt) in enumerate(firsts[:40]):
            p = os.path.join(self.replay_dir, "%s_%s_%d.json" % (self.prop, self.tier, i))
            with open(p, "w") as f:
                json.dump({"property": self.prop, "key": v["key"], "what": v["what"], "replay": v["replay"],
                           "seed": self.seed, "tier": self.tier}, f, indent=1, default=str)
            paths.append(p)
            print("VIOLATION property=%s replay=%s" % (self.prop, p))
            print("  key=%s (%d case(s)) :: %s" % (v["key"], cnt, v["what"]))
        if len(firsts) > 40:
            print("  ... %d more violation keys" % (len(firsts) - 40))
        cov = {
            "states": self.states,
            "transitions": self.transitions,
            "traces_validated_against_impl": self.traces_validated + self.replayed,
            "impl_traces_accepted_by_tlc": self.traces_validated,
            "tlc_behaviours_replayed_on_impl": self.replayed,
            "samples": self.samples if self.samples else [{"note": "no sample recorded"}],
            "evaluations": self.evaluations,
            "distinct_nontrivial": len(self.nontrivial),
            "rule": rule,
            "tlc_runs": self.tlc_runs,
            "known_findings_seen": {k: h["n"] for k, h in self.known_hit.items()},
        }
        if self.proofs:
            cov["tlaps_proofs"] = self.proofs
        if self.exhaustive is not None:
            cov["exhaustive"] = self.exhaustive
        cov.update(self.notes)
        if extra:
            cov.update(extra)
        ev = {
            "property_id": self.prop, "tier": self.tier, "seed": self.seed, "level": level,
            "coverage": cov, "assumptions": self.assumptions, "wall_s": round(wall, 2),
            "violations": len(self.violations),
        }
        evdir = os.environ.get("VERIF_EVIDENCE_DIR") or os.path.join(VERIF, "evidence")      # (overridden only by tools/reseed_par.sh)
        os.makedirs(evdir, exist_ok=True)
        with open(os.path.join(evdir, "%s.json" % self.prop), "w") as f:
            json.dump(ev, f, indent=1, default=str)
        shutil.rmtree(self.work, ignore_errors=True)
        print("%s %s: states=%d transitions=%d traces=%d replayed=%d cases=%d distinct=%d known=%d violations=%d wall=%.1fs"
              % (self.prop, self.tier, self.states, self.transitions, self.traces_validated, self.replayed, self.evaluations,
                 len(self.nontrivial), len(self.known_hit), len(self.violations), wall))
        return 1 if self.violations else 0


def _tlc_safe(v):
    """TLC's JSON reader has no floats / null and mangles ints >= 2^31: such values travel as strings"""
    if isinstance(v, bool):
        return v
    if v is None:
        return "None"
    if isinstance(v, float):
        return repr(v)
    if isinstance(v, int):
        return v if abs(v) < 2 ** 31 else str(v)
    if isinstance(v, dict):
        return {str(k): _tlc_safe(x) for k, x in v.items()}
    if isinstance(v, (list, tuple)):
        return [_tlc_safe(x) for x in v]
    return v


def _match(pattern, key):
    """known-finding keys may end in '*' (prefix match on the abstract configuration class)."""
    if pattern.endswith("*"):
        return key.startswith(pattern[:-1])
    return pattern == key


class TimeLimit(object):
    """`with TimeLimit(s):` raises TimeoutError inside the block after s seconds (SIGALRM; python-level loops only) - used around
    calls that are known to loop forever on some inputs when the implementation is wrong, so that a check reports instead of hanging"""

    def __init__(self, seconds):
        self.seconds = int(seconds)

    def _raise(self, signum, frame):
        raise TimeoutError("no result after %d s" % self.seconds)

    def __enter__(self):
        import signal
        self._old = signal.signal(signal.SIGALRM, self._raise)
        signal.alarm(self.seconds)
        return self

    def __exit__(self, *a):
        import signal
        signal.alarm(0)
        signal.signal(signal.SIGALRM, self._old)
        return False
