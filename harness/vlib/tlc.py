"""Running TLC / SANY and parsing their output."""
import os
import re
import shutil
import subprocess
import time
from . import tlaval

JAR = "/opt/veriftools/tla/tla2tools.jar"
DEPS = "/opt/veriftools/tla/CommunityModules-deps.jar"
SPEC_DIR = os.path.join(os.path.dirname(os.path.dirname(os.path.dirname(os.path.abspath(__file__)))), "spec")


class TlcError(Exception):
    """machinery failure (parse error, TLC crash, timeout)"""


class TlcResult(object):
    def __init__(self):
        self.out = ""
        self.rc = None
        self.generated = 0
        self.distinct = 0
        self.violated = None      # name of violated invariant / property, or "deadlock", "assumption"
        self.trace = []           # list of (action_label, state dict) for counterexample
        self.coverage = {}        # action name -> (distinct, total)
        self.prints = []          # PrintT outputs (raw strings)
        self.wall = 0.0
        self.dump = None

    @property
    def ok(self):
        return self.violated is None


def _java(extra_props=()):
    cmd = ["java", "-XX:+UseParallelGC", "-Xss16m"]
    cmd += ["-DTLA-Library=" + SPEC_DIR]
    for p in extra_props:
        cmd.append("-D" + p)
    cmd += ["-cp", JAR + ":" + DEPS]
    return cmd


def sany(path):
    r = subprocess.run(_java() + ["tla2sany.SANY", path], capture_output=True, text=True,
                       cwd=os.path.dirname(path))
    ok = r.returncode == 0 and "Semantic errors" not in r.stdout and "***Parse Error***" not in r.stdout \
        and "Fatal errors" not in r.stdout and "*** Errors" not in r.stdout
    return ok, r.stdout + r.stderr


_state_hdr = re.compile(r'^State (\d+): <?(.*?)>?\s*$')


def parse_output(out, res):
    m = None
    for m in re.finditer(r'(\d+) states generated, (\d+) distinct states found', out):
        pass
    if m:
        res.generated = int(m.group(1))
        res.distinct = int(m.group(2))
    m = re.search(r'Invariant (\S+) is violated', out)
    if m:
        res.violated = m.group(1)
    m = re.search(r'Action property (\S+) is violated', out)
    if m:
        res.violated = m.group(1)
    if res.violated is None and re.search(r'Temporal properties were violated', out):
        res.violated = "temporal"
    if res.violated is None and "Deadlock reached" in out:
        res.violated = "deadlock"
    if res.violated is None and re.search(r'Assumption .* is false', out):
        res.violated = "assumption"
    if res.violated is None and "The postcondition" in out and "is violated" in out:
        res.violated = "postcondition"
    if res.violated is None and re.search(r'The invariant of \S+ is violated|is violated by the initial state', out):
        res.violated = "init"
    # counterexample trace
    if res.violated and "State 1:" in out:
        lines = out.split("\n")
        cur = None
        buf = []
        for ln in lines:
            mh = _state_hdr.match(ln)
            if mh:
                if cur is not None:
                    res.trace.append((cur, "\n".join(buf)))
                cur = mh.group(2)
                buf = []
            elif cur is not None:
                if ln.strip() == "" or re.match(r'^\d+ states generated|^Finished|^The number|^Error|^Progress', ln):
                    res.trace.append((cur, "\n".join(buf)))
                    cur = None
                    buf = []
                else:
                    buf.append(ln)
        if cur is not None:
            res.trace.append((cur, "\n".join(buf)))
        parsed = []
        for (lab, txt) in res.trace:
            try:
                parsed.append((lab, tlaval.parse_state(txt)))
            except Exception:
                parsed.append((lab, {"_raw": txt}))
        res.trace = parsed
    # coverage: lines like "<Next line 10, col 1 to line 12, col 20 of module M>: 12:34"
    for m in re.finditer(r'^<(\w+) line \d+, col \d+ to line \d+, col \d+ of module (\w+)>: (\d+):(\d+)', out, re.M):
        name = m.group(1)
        d, t = int(m.group(3)), int(m.group(4))
        old = res.coverage.get(name, (0, 0))
        res.coverage[name] = (old[0] + d, old[1] + t)
    return res


def run(spec_path, cfg_path, workdir, workers="auto", timeout=1200, env=None, dump=None, dump_dot=None,
        coverage=False, simulate=None, depth=None, seed=None, deadlock=True, extra=(), cont=False,
        props=()):
    """Run TLC. spec_path: root module file. Returns TlcResult. Raises TlcError on machinery failure."""
    res = TlcResult()
    meta = os.path.join(workdir, "meta_%d_%d" % (os.getpid(), int(time.time() * 1e6) % 10**9))
    os.makedirs(meta, exist_ok=True)
    cmd = _java(props) + ["tlc2.TLC", "-metadir", meta, "-noGenerateSpecTE", "-workers", str(workers),
                          "-config", cfg_path]
    if not deadlock:
        cmd.append("-deadlock")
    if coverage:
        cmd += ["-coverage", "1"]
    if dump:
        cmd += ["-dump", dump]
        res.dump = dump
    if dump_dot:
        cmd += ["-dump", "dot,actionlabels", dump_dot]
        res.dump = dump_dot
    if simulate:
        cmd += ["-simulate", simulate]
    if depth:
        cmd += ["-depth", str(depth)]
    if seed is not None:
        cmd += ["-seed", str(seed)]
    if cont:
        cmd.append("-continue")
    cmd += list(extra)
    cmd.append(spec_path)
    e = dict(os.environ)
    if env:
        e.update(env)
    t0 = time.time()
    try:
        r = subprocess.run(cmd, capture_output=True, text=True, timeout=timeout, env=e,
                           cwd=os.path.dirname(spec_path))
    except subprocess.TimeoutExpired as ex:
        shutil.rmtree(meta, ignore_errors=True)
        raise TlcError("TLC timeout after %ss: %s" % (timeout, " ".join(cmd)))
    res.wall = time.time() - t0
    shutil.rmtree(meta, ignore_errors=True)
    res.out = r.stdout + r.stderr
    res.rc = r.returncode
    parse_output(res.out, res)
    bad = ("Parsing or semantic analysis failed" in res.out or "***Parse Error***" in res.out
           or "TLC threw an unexpected exception" in res.out or "Error: TLC" in res.out
           or "java.lang." in res.out and "Exception" in res.out and res.violated is None
           or "Error: " in res.out and res.violated is None and not simulate)
    if bad and res.violated is None:
        i = res.out.find("Error:")
        raise TlcError("TLC failed (rc=%s) on %s:\n%s" % (r.returncode, spec_path, res.out[i:i + 3000] if i >= 0 else res.out[-4000:]))
    return res


def printed_values(out):
    """Values printed by PrintT/Print as single-line TLA+ values. Returns list of parsed values."""
    vals = []
    for ln in out.split("\n"):
        s = ln.strip()
        if s.startswith("<<") or s.startswith("[") or s.startswith("{"):
            try:
                vals.append(tlaval.parse_value(s))
            except Exception:
                pass
    return vals


_edge = re.compile(r'^(-?\d+) -> (-?\d+) \[label="((?:[^"\\]|\\.)*)"')
_node = re.compile(r'^(-?\d+) \[label="((?:[^"\\]|\\.)*)"(,style = filled)?')


def parse_dot(path):
    """Parse '-dump dot,actionlabels'. Returns (nodes: id -> state dict, init ids, edges: [(src, dst, label)])."""
    nodes = {}
    inits = []
    edges = []
    for ln in open(path):
        ln = ln.rstrip("\n")
        m = _edge.match(ln)
        if m:
            edges.append((m.group(1), m.group(2), m.group(3).replace('\\"', '"').replace("\\\\", "\\")))
            continue
        m = _node.match(ln)
        if m:
            txt = m.group(2).replace("\\n", "\n").replace('\\"', '"').replace("\\\\", "\\")
            nodes[m.group(1)] = tlaval.parse_state(txt)
            if m.group(3):
                inits.append(m.group(1))
    return nodes, inits, edges


def parse_sim_file(path):
    """One behaviour written by '-simulate file=...': returns list of (action_label, state)."""
    out = []
    label = None
    buf = []
    instate = False
    for ln in open(path):
        ln = ln.rstrip("\n")
        m = re.match(r'^\\\* <?(.*?)>?\s*$', ln)
        if m and not instate:
            label = m.group(1)
            continue
        if re.match(r'^STATE_\d+ ==', ln):
            instate = True
            buf = []
            continue
        if instate:
            if ln.strip() == "" or ln.startswith("===="):
                if buf:
                    out.append((label, tlaval.parse_state("\n".join(buf))))
                instate = False
                buf = []
            else:
                buf.append(ln)
    if instate and buf:
        out.append((label, tlaval.parse_state("\n".join(buf))))
    return out


def tla(v):
    """python value -> TLA+ text (ints, bools, strs, lists/tuples -> sequences, sets/frozensets -> sets, dict -> record)"""
    if isinstance(v, bool):
        return "TRUE" if v else "FALSE"
    if isinstance(v, int):
        return str(v)
    if isinstance(v, str):
        return '"%s"' % v
    if isinstance(v, (list, tuple)):
        return "<<" + ", ".join(tla(x) for x in v) + ">>"
    if isinstance(v, (set, frozenset)):
        return "{" + ", ".join(sorted(tla(x) for x in v)) + "}"
    if isinstance(v, dict):
        return "[" + ", ".join("%s |-> %s" % (k, tla(x)) for k, x in v.items()) + "]"
    raise TypeError("no TLA+ form for %r" % (v,))


def gen_mc(workdir, base, name, consts, spec="Spec", invariants=(), properties=(), constraint=None, init_next=None,
           extra_defs="", extends_extra=(), postcondition=None, view=None, deadlock=False):
    """Writes <workdir>/<name>.tla (EXTENDS base; one definition per constant) and <name>.cfg. Returns (tla, cfg).
    Every constant is substituted by a definition so that sequences/functions/records can be used."""
    lines = ["---- MODULE %s ----" % name, "EXTENDS %s" % ", ".join([base] + list(extends_extra))]
    cfg = ["CONSTANTS"]
    for k, v in consts.items():
        lines.append("MC_%s == %s" % (k, v if isinstance(v, RawTla) else tla(v)))
        cfg.append("  %s <- MC_%s" % (k, k))
    if extra_defs:
        lines.append(extra_defs)
    lines.append("====")
    if init_next:
        cfg.append("INIT %s" % init_next[0])
        cfg.append("NEXT %s" % init_next[1])
    else:
        cfg.append("SPECIFICATION %s" % spec)
    for i in invariants:
        cfg.append("INVARIANT %s" % i)
    for p in properties:
        cfg.append("PROPERTY %s" % p)
    if constraint:
        cfg.append("CONSTRAINT %s" % constraint)
    if postcondition:
        cfg.append("POSTCONDITION %s" % postcondition)
    if view:
        cfg.append("VIEW %s" % view)
    cfg.append("CHECK_DEADLOCK %s" % ("TRUE" if deadlock else "FALSE"))
    tp = os.path.join(workdir, name + ".tla")
    cp = os.path.join(workdir, name + ".cfg")
    with open(tp, "w") as f:
        f.write("\n".join(lines) + "\n")
    with open(cp, "w") as f:
        f.write("\n".join(cfg) + "\n")
    return tp, cp


class RawTla(str):
    """a string that is already TLA+ text"""
