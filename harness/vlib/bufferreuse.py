"""Replay of spec/BufferReuse.tla: a long-lived object / the same argument tensors are used again and again while the caller refreshes
the content of the tensors in place; every use must equal a fresh computation (new objects) on the current content."""
import os
import warnings

import torch
import xitorch
import xitorch.integrate
import xitorch.interpolate
import xitorch.linalg
from xitorch import LinearOperator

from . import tlc as tlcmod
from .resulthistory import CALLS, _inputs, _tuple

DT = torch.float64
_E = torch.tensor([-0.5, -1.2], dtype=DT)      # (negative shifts: A - e M stays positive definite under every refresh)

# name -> (buffers refreshed in place, make(inp) -> long-lived object or None, use(obj, inp) -> result)
PERSIST = {
    "interp1d-instance:cspline": (["ys", "xq"], lambda i: xitorch.interpolate.Interp1D(i["xs"], method="cspline", assume_sorted=True), lambda o, i: o(i["xq"], i["ys"])),
    "interp1d-instance:cspline-natural": (["ys", "xq"], lambda i: xitorch.interpolate.Interp1D(i["xs"], method="cspline", bc_type="natural"), lambda o, i: o(i["xq"], i["ys"])),
    "interp1d-instance:linear": (["ys", "xq"], lambda i: xitorch.interpolate.Interp1D(i["xs"], method="linear", assume_sorted=True), lambda o, i: o(i["xq"], i["ys"])),
    "squad-instance:cspline": (["ys"], lambda i: xitorch.integrate.SQuad(i["xs"], method="cspline"), lambda o, i: o.cumsum(i["ys"])),
    "squad-instance:simpson": (["ys"], lambda i: xitorch.integrate.SQuad(i["xs"], method="simpson"), lambda o, i: o.integrate(i["ys"])),
    "linop-instance:solve": (["A", "B"], lambda i: LinearOperator.m(i["A"], is_hermitian=True), lambda o, i: xitorch.linalg.solve(o, i["B"])),
    "linop-instance:solve-cg": (["A", "B"], lambda i: LinearOperator.m(i["A"], is_hermitian=True), lambda o, i: xitorch.linalg.solve(o, i["B"], method="cg")),
    # the generalised problems: the metric M is a long-lived operator too (an overlap matrix updated in place between the solves)
    "linop-instance:solve-EM": (["A", "B", "M"], lambda i: (LinearOperator.m(i["A"], is_hermitian=True), LinearOperator.m(i["M"], is_hermitian=True)),
                                lambda o, i: xitorch.linalg.solve(o[0], i["B"], _E, M=o[1])),
    "linop-instance:solve-EM-cg": (["A", "B", "M"], lambda i: (LinearOperator.m(i["A"], is_hermitian=True), LinearOperator.m(i["M"], is_hermitian=True)),
                                   lambda o, i: xitorch.linalg.solve(o[0], i["B"], _E, M=o[1], method="cg", rtol=1e-13, atol=1e-15)),
    "linop-tensors:solve-EM": (["A", "B", "M"], lambda i: None,
                               lambda o, i: xitorch.linalg.solve(LinearOperator.m(i["A"], is_hermitian=True), i["B"], _E, M=LinearOperator.m(i["M"], is_hermitian=True))),
    "linop-instance:symeig-M": (["A", "M"], lambda i: (LinearOperator.m(i["A"], is_hermitian=True), LinearOperator.m(i["M"], is_hermitian=True)),
                                lambda o, i: xitorch.linalg.symeig(o[0], neig=2, M=o[1])[0]),
    "linop-instance:symeig": (["A"], lambda i: LinearOperator.m(i["A"], is_hermitian=True), lambda o, i: xitorch.linalg.symeig(o, neig=2)[0]),
    "linop-instance:fullmatrix": (["A"], lambda i: LinearOperator.m(i["A"], is_hermitian=True) + LinearOperator.m(i["A"], is_hermitian=True) * 2.0, lambda o, i: o.fullmatrix()),
}
# the stateless functionals of ResultHistory: the same argument tensors again
STATELESS = {"rootfinder:broyden1": ["W", "c"], "equilibrium:anderson": ["W", "c"], "minimize:gd": ["W", "c"], "solve_ivp:rk4": ["W", "c"], "solve_ivp:rk45": ["ts", "c"],
             "quad": ["a"], "mcquad": ["a"], "solve:cg": ["A", "B"], "symeig:davidson": ["A"], "interp1d:cspline": ["ys", "xq"], "squad:cspline": ["ys"]}
for _n, _b in STATELESS.items():
    PERSIST[_n] = (_b, lambda i: None, (lambda nm: (lambda o, i: CALLS[nm](i)))(_n))


def _refresh(inp, name, step):
    """new content in place, keeping the structure the call needs (A stays symmetric positive definite, grids stay sorted, queries inside)"""
    t = inp[name]
    with torch.no_grad():
        if name in ("A", "M"):
            t.add_(torch.eye(t.shape[-1], dtype=t.dtype) * (0.3 + 0.1 * step))
            t.mul_(1.0 + 0.05 * step)
        elif name == "ts":
            t.mul_(1.0 + 0.2 * (step + 1))
        elif name == "xq":
            t.copy_((t * 0.7 + 0.11 * (step + 1)) % 1.0 * 0.98 + 0.01)
        elif name == "a":
            t.add_(0.07 * (step + 1))
        else:
            t.copy_(torch.cos(t * (1.3 + step)) * 0.8 + 0.1 * step)


def replay(ctx, names, prefix, maxlen=4):
    names = [n_ for n_ in names if n_ in PERSIST]
    nbuf = max(len(PERSIST[n_][0]) for n_ in names)
    base = dict(NBuf=nbuf, MaxLen=maxlen, MemoByContent=True)
    t, cf = tlcmod.gen_mc(ctx.work, "BufferReuse", "MC_BufferReuse", base, invariants=["ResultFromCurrentContent"])
    dot = os.path.join(ctx.work, "br.dot")
    ctx.model_check(t, cf, workers=4, dump_dot=dot, label="buffers refreshed in place between uses", timeout=300)
    nodes, _, _ = tlcmod.parse_dot(dot)
    os.remove(dot)
    t2, cf2 = tlcmod.gen_mc(ctx.work, "BufferReuse", "MC_BufferReuse_dev", dict(base, MemoByContent=False), invariants=["ResultFromCurrentContent"])
    ctx.expect_violation(t2, cf2, inv="ResultFromCurrentContent", label="deviation MemoByContent", workers=4, timeout=300)
    hists = sorted({tuple((str(a["a"]), int(a["b"]) if "b" in a else 0) for a in st["hist"]) for st in nodes.values()
                    if len(st["hist"]) == maxlen and str(st["hist"][-1]["a"]) == "use"})
    n = 0
    with warnings.catch_warnings():
        warnings.simplefilter("ignore")
        for name in names:
            bufs, make, use = PERSIST[name]
            for hist in hists:
                if any(a == "refresh" and b > len(bufs) for a, b in hist):
                    continue
                n += 1
                ctx.case(key=("buffer-reuse", name, hist))
                why = None
                try:
                    inp = _inputs(len(name) % 3)
                    with torch.no_grad():
                        obj = make(inp)
                        step = 0
                        # first the whole history on the long-lived objects (nothing else touches the library in between: a reference
                        # computation interleaved with the uses would itself overwrite whatever the library memoises), then the references
                        uses = []
                        for pos, (a, b) in enumerate(hist):
                            if a == "refresh":
                                _refresh(inp, bufs[b - 1], step)
                                step += 1
                                continue
                            torch.manual_seed(3)
                            uses.append((pos, [x.clone() for x in _tuple(use(obj, inp))], {k: v.clone() for k, v in inp.items()}))
                        for pos, got, fresh_inp in uses:
                            torch.manual_seed(3)
                            ref = _tuple(use(make(fresh_inp), fresh_inp))
                            if not all(x.shape == y.shape and torch.allclose(x, y, atol=(1e-9 if name.endswith("-cg") else 1e-12), rtol=1e-11, equal_nan=True) for x, y in zip(got, ref)):
                                dev = max(float((x - y).abs().max()) for x, y in zip(got, ref) if x.shape == y.shape)
                                why = "use %d differs from a fresh computation on the current content by %.2e" % (pos + 1, dev)
                                break
                except Exception as e:
                    why = "raised %s: %s" % (type(e).__name__, str(e)[:140])
                if why:
                    ctx.violation("%s/buffer-reuse/%s" % (prefix, name.split(":")[0]), "%s with the history %s (refresh k = in-place update of %s): %s"
                                  % (name, ["use" if a == "use" else "refresh %d" % b for a, b in hist], bufs, why), {"call": name, "history": [list(h_) for h_ in hist]})
    return n
