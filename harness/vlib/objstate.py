"""Replay of spec/ObjState.tla: one function object, re-assigned between calls, differentiated afterwards."""
import os
import warnings

import torch
import xitorch
import xitorch.integrate
import xitorch.linalg
import xitorch.optimize
from xitorch import EditableModule

from . import tlc as tlcmod

DT = torch.float64
_W = torch.tensor([[0.3, -0.2, 0.1], [0.0, 0.4, -0.3], [0.2, 0.1, -0.1]], dtype=DT)


class EMod(EditableModule):
    def __init__(self, s):
        self.s = s

    def root(self, y):
        # (the held tensor enters df/dy as well as df/ds: a backward pass that evaluates either at the wrong tensor is visible)
        return y - self.s - 0.3 * torch.tanh(_W @ y) * self.s

    def fixed(self, y):
        return self.s + 0.3 * torch.tanh(_W @ y) * self.s

    def energy(self, y):
        return 0.5 * ((y - self.s) ** 2).sum() + 0.1 * (self.s ** 2 * torch.log(torch.cosh(_W @ y))).sum()

    def rhs(self, t, y):
        return -y * (1.0 + self.s ** 2) + self.s

    def integrand(self, x):
        return torch.sin(x * self.s) + self.s ** 2 * x

    def mcf(self, x):
        return x.sum() * self.s + self.s ** 2

    def getparamnames(self, methodname, prefix=""):
        return [prefix + "s"]


class NMod(torch.nn.Module):
    def __init__(self, s):
        super().__init__()
        self.s = s

    root = EMod.root
    fixed = EMod.fixed
    energy = EMod.energy
    rhs = EMod.rhs
    integrand = EMod.integrand
    mcf = EMod.mcf


def _pure(fname):
    """the same mathematics with s passed explicitly (reference: a function, nothing held by an object)"""
    m = {"rootfinder": lambda y, s: y - s - 0.3 * torch.tanh(_W @ y) * s, "equilibrium": lambda y, s: s + 0.3 * torch.tanh(_W @ y) * s,
         "minimize": lambda y, s: 0.5 * ((y - s) ** 2).sum() + 0.1 * (s ** 2 * torch.log(torch.cosh(_W @ y))).sum(),
         "solve_ivp": lambda t, y, s: -y * (1.0 + s ** 2) + s, "quad": lambda x, s: torch.sin(x * s) + s ** 2 * x, "mcquad": lambda x, s: x.sum() * s + s ** 2}
    return m[fname]


def _call(fname, fn, params, bck=None):
    kw = {"bck_options": bck} if bck else {}
    y0 = torch.zeros(3, dtype=DT)
    if fname == "rootfinder":
        return xitorch.optimize.rootfinder(fn, y0, params=params, **kw)
    if fname == "equilibrium":
        return xitorch.optimize.equilibrium(fn, y0, params=params, **kw)
    if fname == "minimize":
        return xitorch.optimize.minimize(fn, y0, params=params, **kw)
    if fname == "solve_ivp":
        return xitorch.integrate.solve_ivp(fn, torch.linspace(0.0, 0.6, 4, dtype=DT), torch.full((3,), 0.2, dtype=DT), params=params, method="rk4")
    if fname == "quad":
        return xitorch.integrate.quad(fn, 0.1, 0.9, params=params, n=6)
    return xitorch.integrate.mcquad(fn, lambda x: (-0.5 * x ** 2).sum(), torch.zeros(1, dtype=DT), fparams=params, pparams=(), method="mhcustom", nsamples=4, nburnout=2,
                                    custom_step=lambda x, *p: x * 0.5 + 0.3)


_S0 = torch.tensor([[2.0, 0.3, 0.0], [0.3, 1.5, 0.2], [0.0, 0.2, 1.8]], dtype=DT)
_B = torch.tensor([[1.0, 0.5], [2.0, -1.0], [-1.0, 0.3]], dtype=DT)


class HeldOp(xitorch.LinearOperator):
    """matrix-free Hermitian operator S0 + diag(exp(s)) holding the tensor s (re-assigned by the caller between calls)"""

    def __init__(self, s):
        super().__init__(shape=(3, 3), is_hermitian=True, dtype=DT)
        self.s = s

    def _mv(self, x):
        return x @ _S0.T + x * torch.exp(self.s)

    def _getparamnames(self, prefix=""):
        return [prefix + "s"]


LINALG = {"solve": lambda A: xitorch.linalg.solve(A, _B), "solve-cg": lambda A: xitorch.linalg.solve(A, _B, method="cg", rtol=1e-12, atol=1e-14),
          "symeig": lambda A: xitorch.linalg.symeig(A, neig=2, method="custom_exacteig")[0],
          "symeig-davidson": lambda A: xitorch.linalg.symeig(A, neig=2, method="davidson", min_eps=1e-12)[0]}


def _linalg_ref(fname, s):
    D = _S0 + torch.diag(torch.exp(s))
    return torch.linalg.solve(D, _B) if fname.startswith("solve") else torch.linalg.eigh(D)[0][:2]


_METHOD = {"rootfinder": "root", "equilibrium": "fixed", "minimize": "energy", "solve_ivp": "rhs", "quad": "integrand", "mcquad": "mcf"}


def replay(ctx, functionals, prefix, maxlen=6):
    base = dict(NTensors=2, MaxCalls=2, MaxLen=maxlen, SavedAtForward=True)
    t, cf = tlcmod.gen_mc(ctx.work, "ObjState", "MC_ObjState", base, invariants=["BackwardAtForwardState", "ObjectKeepsWhatItHeld"])
    dot = os.path.join(ctx.work, "os.dot")
    ctx.model_check(t, cf, workers=4, dump_dot=dot, label="object re-assigned between calls and backward passes", timeout=300)
    nodes, _, _ = tlcmod.parse_dot(dot)
    os.remove(dot)
    t2, cf2 = tlcmod.gen_mc(ctx.work, "ObjState", "MC_ObjState_dev", dict(base, SavedAtForward=False), invariants=["BackwardAtForwardState", "ObjectKeepsWhatItHeld"])
    ctx.expect_violation(t2, cf2, inv="BackwardAtForwardState", label="deviation SavedAtForward", workers=4, timeout=300)
    # histories ending in a backward pass in which every call is differentiated at most once; maximal ones only (prefixes are contained)
    hists = sorted({tuple((str(a["a"]), int(a["k"])) for a in st["hist"]) for st in nodes.values()
                    if len(st["hist"]) >= 2 and str(st["hist"][-1]["a"]) == "backward"})
    hists = [h for h in hists if not any(o != h and o[:len(h)] == h for o in hists)]
    n = 0
    with warnings.catch_warnings():
        warnings.simplefilter("ignore")
        for fname in functionals:
            for kind, bck in ((("linop", None),) if fname in LINALG else
                              (("edit", None), ("nn", None)) + ((("edit", {"method": "cg"}),) if fname in ("rootfinder", "equilibrium", "minimize") else ())):
                for hist in hists:
                    n += 1
                    ctx.case(key=("objstate", fname, kind, bool(bck), hist))
                    why = None
                    try:
                        vals = [torch.tensor(v, dtype=DT) for v in ([0.5, -0.3, 0.8], [-0.2, 0.6, 0.1])]
                        if kind == "linop":
                            tens = [v.clone().requires_grad_() for v in vals]
                            obj = HeldOp(tens[0])
                            fn = None
                        elif kind == "edit":
                            tens = [v.clone().requires_grad_() for v in vals]
                            obj = EMod(tens[0])
                        else:
                            tens = [torch.nn.Parameter(v.clone()) for v in vals]
                            obj = NMod(tens[0])
                        if kind != "linop":
                            fn = getattr(obj, _METHOD[fname])
                        outs, saw = [], []
                        wv = torch.tensor([0.7, -1.1, 0.4], dtype=DT)
                        for a, k in hist:
                            if a == "assign":
                                obj.s = tens[k - 1]
                            elif a == "call":
                                torch.manual_seed(5)
                                outs.append(LINALG[fname](obj) if kind == "linop" else _call(fname, fn, (), bck))
                                saw.append([i for i, t_ in enumerate(tens) if t_ is obj.s][0])
                            else:
                                held_before = obj.s
                                out = outs[k - 1]
                                wv = torch.cos(torch.arange(out.numel(), dtype=DT) + 0.3).reshape(out.shape)
                                g = torch.autograd.grad((out * wv).sum(), tens, allow_unused=True, retain_graph=True)
                                if obj.s is not held_before:
                                    why = "after the backward pass of call %d the object holds another tensor than before it" % k
                                    break
                                j = saw[k - 1]
                                sref = vals[j].clone().requires_grad_()
                                torch.manual_seed(5)
                                oref = _linalg_ref(fname, sref) if kind == "linop" else _call(fname, _pure(fname), (sref,), bck)
                                gref, = torch.autograd.grad((oref * wv).sum(), [sref])
                                if not torch.allclose(out.detach(), oref.detach(), atol=1e-9):
                                    why = "call %d differs from the function form at the tensor the object held then" % k
                                elif g[j] is None or not torch.allclose(g[j], gref, atol=1e-7, rtol=1e-6):
                                    why = "gradient of call %d w.r.t. the tensor its forward pass saw differs from the function form by %s" % (
                                        k, "(absent)" if g[j] is None else "%.2e" % float((g[j] - gref).abs().max()))
                                elif g[1 - j] is not None and float(g[1 - j].abs().max()) > 0:
                                    why = "call %d delivered a gradient to a tensor its forward pass never saw" % k
                                if why:
                                    break
                    except Exception as e:
                        why = "raised %s: %s" % (type(e).__name__, str(e)[:140])
                    if why:
                        ctx.violation("%s/objstate/%s" % (prefix, fname), "%s on a %s object%s with the history %s: %s"
                                      % (fname, {"edit": "EditableModule", "nn": "torch.nn.Module", "linop": "LinearOperator"}[kind], " (iterative backward solve)" if bck else "",
                                         ["%s %d" % (a, k) if a != "call" else "call" for a, k in hist], why), {"f": fname, "kind": kind, "history": [list(h_) for h_ in hist]})
    return n
