"""Recorder for the substitution protocols (trace format of spec/Trace_ParamSubst.tla).

A *slot* is a place that holds a tensor: (container object, key) with container an object (attribute),
nn.Module (parameter or attribute), list (index) or dict (key).  Tensors and slots get small per-trace numbers.
"""
import re
import torch
from xitorch._utils import verif_hooks as vh

_tok = re.compile(r"\[[^\]]+\]|\w+")
MISSING = object()


def _step(obj, tok):
    if tok[0] == "[":
        import ast
        return obj[ast.literal_eval(tok[1:-1])]
    return getattr(obj, tok)


def resolve(obj, name):
    """'mod.sub.W' / "cs[0]" / "d['c']" relative to obj -> (container, key)"""
    toks = _tok.findall(name)
    for t in toks[:-1]:
        obj = _step(obj, t)
    last = toks[-1]
    if last[0] == "[":
        import ast
        return obj, ast.literal_eval(last[1:-1])
    return obj, last


def read(container, key):
    try:
        if isinstance(container, (list, dict)):
            return container[key]
        return getattr(container, key)
    except (AttributeError, KeyError, IndexError):
        return MISSING


def tensor_places(obj, seen=None, depth=0):
    """independent traversal: every (container, key) of obj that holds a floating tensor"""
    if seen is None:
        seen = set()
    out = []
    if id(obj) in seen or depth > 8:
        return out
    seen.add(id(obj))
    if isinstance(obj, torch.nn.Module):
        items = list(obj._parameters.items()) + [(k, v) for k, v in obj.__dict__.items()
                                                  if not k.startswith("_")] + list(obj._modules.items())
    elif isinstance(obj, dict):
        items = list(obj.items())
    elif isinstance(obj, (list,)):
        items = list(enumerate(obj))
    elif hasattr(obj, "__dict__"):
        items = [(k, v) for k, v in obj.__dict__.items() if not (k.startswith("_") and k.endswith("_"))]
    else:
        return out
    for k, v in items:
        if isinstance(v, torch.Tensor):
            if v.is_floating_point() or v.is_complex():
                out.append((obj, k))
        elif isinstance(v, (list, dict, torch.nn.Module)) or (hasattr(v, "__dict__") and not callable(v)
                                                              and not isinstance(v, type)):
            out += tensor_places(v, seen, depth + 1)
    return out


def view_names(view):
    cls = type(view).__name__
    if cls == "FunctionPureFunction":
        return []
    if cls == "EditableModulePureFunction":
        return [resolve(view.obj, n) for n in view.obj.cached_getparamnames(view.method.__name__)]
    if cls == "TorchNNPureFunction":
        return [resolve(view.obj, n) for n in view.names]
    if cls == "SingleSiblingPureFunction":
        return view_names(view.pfunc)
    if cls == "MultiSiblingPureFunction":
        out = []
        for p in view.pfuncs:
            out += view_names(p)
        return out
    raise RuntimeError("unknown PureFunction class %s" % cls)


class Recorder(object):
    def __init__(self, objects):
        self.tens = {}
        self.keep = []
        self.slots = {}
        self.slot_ref = []
        self.views = {}
        self.view_ref = []
        self.ev = []
        self.objects = list(objects)
        self.errors = []
        for o in self.objects:
            for c, k in tensor_places(o):
                self._slot(c, k, initial=True)
        self.slots0 = [[i + 1, self.tid(read(c, k))] for i, (c, k) in enumerate(self.slot_ref)]
        self.nn_before = [(o, [(n, id(p)) for n, p in o.named_parameters()]) for o in self.objects
                          if isinstance(o, torch.nn.Module)]
        import xitorch
        self.debug_before = xitorch.is_debug_enabled()
        self._new = []

    # numbering
    def tid(self, t):
        if t is MISSING or t is None or not isinstance(t, torch.Tensor):
            return -1
        k = id(t)
        if k not in self.tens:
            self.tens[k] = len(self.tens)
            self.keep.append(t)
        return self.tens[k]

    def _slot(self, c, k, initial=False, content=MISSING):
        key = (id(c), k)
        if key not in self.slots:
            self.slots[key] = len(self.slot_ref) + 1
            self.slot_ref.append((c, k))
            self.keep.append(c)
            if not initial:
                self._new.append([self.slots[key], self.tid(read(c, k) if content is MISSING else content)])
        return self.slots[key]

    def _flush_new(self):
        if self._new:
            self.ev.append({"a": "reg", "w": self._new})
            self._new = []

    def seen(self):
        return [[i + 1, self.tid(read(c, k))] for i, (c, k) in enumerate(self.slot_ref)]

    def vid(self, view):
        return self.views.get(id(view), 0)

    # hook sink
    def sink(self, event, f):
        try:
            self._sink(event, f)
        except Exception as e:      # never let the recorder disturb the run; report as machinery failure later
            import traceback
            self.errors.append("%s: %s\n%s" % (event, e, traceback.format_exc()))

    def _sink(self, event, f):
        if event == "pf.new":
            view = f["view"]
            names = view_names(view)
            vs = [self._slot(c, k) for c, k in names]
            self._flush_new()
            self.views[id(view)] = len(self.view_ref) + 1
            self.view_ref.append(view)
            self.ev.append({"a": "new", "v": self.views[id(view)], "vs": vs,
                            "cur": [self.tid(t) for t in view._cur_objparams], "cls": type(view).__name__})
        elif event == "pf.set":
            view = f["view"]
            old = view._restore_stack[-1][0]
            names = view_names(view)
            self.ev.append({"a": "set", "v": self.vid(view), "req": [self.tid(t) for t in f["objparams"]],
                            "ident": bool(f["identical"]), "old": [self.tid(t) for t in old],
                            "held": [self.tid(read(c, k)) for c, k in names]})
        elif event == "pf.restore":
            view = f["view"]
            names = view_names(view)
            self.ev.append({"a": "restore", "v": self.vid(view), "ident": bool(f["identical"]),
                            "held": [self.tid(read(c, k)) for c, k in names]})
        elif event == "lo.use":
            op = f["op"]
            names = [resolve(op, n) for n in op.cached_getparamnames("mm")]
            maps = op._unique_params_maps["mm"]
            before = {}
            for j, idxs in enumerate(maps):
                for i in idxs:
                    before[i] = f["orig"][j]
            w = []
            for i, (c, k) in enumerate(names):
                s = self._slot(c, k, content=before.get(i, MISSING))
                w.append([s, self.tid(read(c, k))])
            self._flush_new()
            self.ev.append({"a": "linuse", "w": _dedup(w)})
            self._lin_stack = getattr(self, "_lin_stack", []) + [id(op)]
        elif event == "lo.unuse":
            op = f["op"]
            st = getattr(self, "_lin_stack", [])
            if st and st[-1] == id(op):
                st.pop()
                names = [resolve(op, n) for n in op.cached_getparamnames("mm")]
                self.ev.append({"a": "linunuse", "after": _dedup([[self._slot(c, k), self.tid(read(c, k))]
                                                                 for c, k in names])})
            # else: uselinopparams failed before the substitution was made (no lo.use): nothing was entered
        elif event == "em.probe":
            obj = f["obj"]
            places = tensor_places(obj)
            if f["phase"] == "set":
                # the places held their previous tensors before; unknown ones get registered as "unknown before"
                w = [[self._slot(c, k, content=MISSING), self.tid(read(c, k))] for c, k in places]
                self._flush_new()
                self.ev.append({"a": "probe", "w": _dedup(w)})
            else:
                self.ev.append({"a": "unprobe", "after": _dedup([[self._slot(c, k), self.tid(read(c, k))]
                                                                for c, k in places])})

    def on_eval(self, count):
        self.ev.append({"a": "eval", "k": count, "seen": self.seen()})

    def final(self, exc=None):
        import xitorch
        named_same = all([(n, id(p)) for n, p in o.named_parameters()] == before for o, before in self.nn_before)
        self.ev.append({"a": "final", "seen": self.seen(),
                        "depths": [[i + 1, len(v._restore_stack)] for i, v in enumerate(self.view_ref)],
                        "allowed": all(v._state_change_allowed for v in self.view_ref),
                        "debug_same": xitorch.is_debug_enabled() == self.debug_before,
                        "named_same": bool(named_same), "exc": type(exc).__name__ if exc is not None else ""})

    def trace(self, tid, cfg=None):
        c = {"slots0": self.slots0}
        c.update(cfg or {})
        return {"tid": tid, "cfg": c, "ev": self.ev}

    def __enter__(self):
        vh.set_sink(self.sink)
        return self

    def __exit__(self, *a):
        vh.set_sink(None)
        return False


def _dedup(pairs):
    out = []
    seen = set()
    for s, t in pairs:
        if s not in seen:
            seen.add(s)
            out.append([s, t])
    return out
