"""Replay of spec/LayoutInv.tla: every (call, layout of each tensor argument) row is executed on the real functional; value, first-
and second-order gradients w.r.t. the underlying leaves must equal those of the contiguous call; the arguments stay untouched."""
import os
import random
import warnings

import torch

from . import tlc as tlcmod
from .tlc import RawTla
from .resulthistory import CALLS, _inputs, _tuple

DT = torch.float64

# tensor arguments of each call (names in resulthistory._inputs) and which of them are differentiated
ARGS = {
    "solve:exact": ["A", "B"], "solve:cg": ["A", "B"], "solve:bicgstab": ["A", "B"], "solve:gmres": ["A", "B"],
    "symeig:exact": ["A"], "symeig:davidson": ["A"], "svd": ["A"],
    "rootfinder:broyden1": ["y0", "W", "c"], "rootfinder:newton": ["y0", "W", "c"], "equilibrium:anderson": ["y0", "W", "c"],
    "minimize:gd": ["y0", "W", "c"], "minimize:adam": ["y0", "W", "c"],
    "solve_ivp:rk4": ["ts", "W", "c"], "solve_ivp:rk45": ["ts", "W", "c"], "solve_ivp:rk23": ["ts", "W", "c"],
    "interp1d:cspline": ["xs", "ys", "xq"], "interp1d:linear": ["xs", "ys", "xq"],
    "squad:simpson": ["xs", "ys"], "squad:cspline": ["xs", "ys"],
}
NOGRAD = {"xs", "y0"}        # sample positions / initial guesses are not differentiated


def as_layout(t, layout):
    """the same values as t (a function of t, so gradients reach t) in the given memory layout"""
    if layout == "contiguous" or t.dim() == 0:
        return t
    if layout == "transposed" and t.dim() >= 2:
        v = t.transpose(-2, -1).contiguous().transpose(-2, -1)
        assert not v.is_contiguous() or min(v.shape[-2:]) == 1
        return v
    if layout == "offset":
        pad = torch.full((*t.shape[:-1], 2), 7.5, dtype=t.dtype)
        big = torch.cat([pad, t, pad], dim=-1)
        v = big[..., 2:-2]
        assert v.storage_offset() != 0
        return v
    # strided: every second element of a buffer twice as long
    big = torch.stack([t, torch.full_like(t, -3.25)], dim=-1).reshape(*t.shape[:-1], 2 * t.shape[-1])
    v = big[..., ::2]
    assert v.shape == t.shape and (not v.is_contiguous() or v.shape[-1] == 1)
    return v


def _run(name, lay, k):
    base = _inputs(k)
    leaves = {}
    inp = dict(base)
    for a, l_ in zip(ARGS[name], lay):
        leaf = base[a].clone()
        if a not in NOGRAD:
            leaf.requires_grad_()
            leaves[a] = leaf
        inp[a] = as_layout(leaf, l_)
    snap = {a: inp[a].detach().clone() for a in ARGS[name]}
    out = _tuple(CALLS[name](inp))
    untouched = all(torch.equal(inp[a].detach(), snap[a]) for a in ARGS[name])
    g = torch.Generator().manual_seed(5)
    tot = sum((o * torch.randn(o.shape, generator=g, dtype=o.dtype)).sum() for o in out if o.is_floating_point())
    ls = list(leaves.values())
    g1 = torch.autograd.grad(tot, ls, create_graph=True, allow_unused=True) if (ls and tot.requires_grad) else [None] * len(ls)
    s = sum((x ** 2).sum() for x in g1 if x is not None and x.requires_grad)
    g2 = torch.autograd.grad(s, ls, allow_unused=True) if isinstance(s, torch.Tensor) and s.requires_grad else [None] * len(ls)
    return [o.detach() for o in out], g1, g2, untouched


def replay(ctx, names, prefix, per_call=24):
    names = [n_ for n_ in names if n_ in ARGS]
    calls = RawTla("{" + ", ".join('[f |-> "%s", args |-> <<%s>>]' % (n_, ", ".join('"%s"' % a for a in ARGS[n_])) for n_ in names) + "}")
    base = dict(Calls=calls, AnyLayout=True)
    t, cf = tlcmod.gen_mc(ctx.work, "LayoutInv", "MC_LayoutInv", base, invariants=["LayoutIndependent"])
    dot = os.path.join(ctx.work, "li.dot")
    ctx.model_check(t, cf, workers=4, dump_dot=dot, label="layouts of the tensor arguments", timeout=300)
    nodes, _, _ = tlcmod.parse_dot(dot)
    os.remove(dot)
    t2, cf2 = tlcmod.gen_mc(ctx.work, "LayoutInv", "MC_LayoutInv_dev", dict(base, AnyLayout=False), invariants=["LayoutIndependent"])
    ctx.expect_violation(t2, cf2, inv="LayoutIndependent", label="deviation AnyLayout", workers=4, timeout=300)
    rows = {}
    for st in nodes.values():
        rows.setdefault(str(st["c"]["f"]), []).append([str(x) for x in st["lay"]])
    rng = random.Random(ctx.seed + 77)
    n = 0
    with warnings.catch_warnings():
        warnings.simplefilter("ignore")
        for name in names:
            allrows = sorted(rows[name])
            uniform = [r for r in allrows if len(set(r)) == 1]
            rest = [r for r in allrows if len(set(r)) > 1]
            rng.shuffle(rest)
            chosen = uniform + (rest if ctx.tier == "thorough" else rest[:max(0, per_call - len(uniform))])
            k = len(name) % 3
            try:
                ref = _run(name, ["contiguous"] * len(ARGS[name]), k)
            except Exception as e:
                ctx.violation("%s/layout/%s/reference" % (prefix, name), "%s with contiguous arguments raised %s: %s" % (name, type(e).__name__, str(e)[:140]), {"call": name})
                continue
            for lay in chosen:
                if len(set(lay)) == 1 and lay[0] == "contiguous":
                    continue
                n += 1
                ctx.case(key=("layout", name, tuple(lay)))
                why = None
                try:
                    out, g1, g2, untouched = _run(name, lay, k)
                    if not untouched:
                        why = "an argument was modified by the call"
                    elif len(out) != len(ref[0]) or not all(a.shape == b.shape and torch.allclose(a, b, atol=1e-10, rtol=1e-9, equal_nan=True) for a, b in zip(out, ref[0])):
                        why = "the result differs from the one with contiguous arguments"
                    else:
                        for nm, ga, gb, tol in [("first", a, b, 1e-8) for a, b in zip(g1, ref[1])] + [("second", a, b, 1e-6) for a, b in zip(g2, ref[2])]:
                            if (ga is None) != (gb is None):
                                why = "%s-order gradient present with one layout only" % nm
                            elif ga is not None and not torch.allclose(ga, gb, atol=tol, rtol=tol):
                                why = "%s-order gradient differs from the one with contiguous arguments by %.2e" % (nm, float((ga - gb).abs().max()))
                            if why:
                                break
                except Exception as e:
                    why = "raised %s: %s" % (type(e).__name__, str(e)[:140])
                if why:
                    ctx.violation("%s/layout/%s" % (prefix, name), "%s with arguments %s in layouts %s: %s" % (name, ARGS[name], lay, why), {"call": name, "layouts": lay})
    return n
