"""Spec -> code replay for spec/ParamSubst.tla: executes TLC's actions on real PureFunction / _Jac / debug objects
and projects the real state onto the specification's variables."""
import re
import torch
import xitorch
import xitorch.grad
from xitorch import EditableModule, get_pure_function, make_sibling
from .problems import Boom
from .ctx import Machinery

EDIT_NAMES = ["a", "lst[0]", "d['k']", "b"]
NN_NAMES = ["w0", "w1", "w2", "w3"]


class _Edit(EditableModule):
    def __init__(self, tens, owner):
        self.a = tens[0]
        self.lst = [tens[1] if len(tens) > 1 else None]
        self.d = {"k": tens[2] if len(tens) > 2 else None}
        self.b = tens[3] if len(tens) > 3 else None
        self.ns = len(tens)
        self._owner = owner

    def held(self):
        return [self.a, self.lst[0], self.d["k"], self.b][:self.ns]

    def f(self, y):
        self._owner.on_call(self.held())
        return y * sum((t.sum() for t in self.held()))

    def getparamnames(self, methodname, prefix=""):
        if methodname == "f":
            return [prefix + n for n in EDIT_NAMES[:self.ns]]
        raise KeyError(methodname)


class _NN(torch.nn.Module):
    def __init__(self, tens, owner):
        super().__init__()
        for n, t in zip(NN_NAMES, tens):
            setattr(self, n, t)
        self.ns = len(tens)
        self._owner = owner

    def held(self):
        return [getattr(self, n) for n in NN_NAMES[:self.ns]]

    def f(self, y):
        self._owner.on_call(self.held())
        return y * sum((t.sum() for t in self.held()))


class Replayer(object):
    def __init__(self, kind, slots0, param_ids, ntens=6):
        self.kind = kind
        self.tens = []
        for i in range(ntens):
            t = torch.full((2,), float(i + 1), dtype=torch.float64)
            self.tens.append(torch.nn.Parameter(t) if (kind == "nn" and i in param_ids) else t.requires_grad_())
        self.tid = {id(t): i for i, t in enumerate(self.tens)}
        init = [self.tens[i] for i in slots0]
        self.obj = _Edit(init, self) if kind == "edit" else _NN(init, self)
        self.ns = len(slots0)
        self.views = {}
        self.J = None
        self.frames = []      # real context managers
        self.exc = None
        self.y = torch.tensor([0.5, -1.0], dtype=torch.float64, requires_grad=True)
        self.counting = False
        self.count = 0
        self.crash_next = False
        self.last_seen = None
        self.debug0 = xitorch.is_debug_enabled()

    # called by the user's method
    def on_call(self, held):
        if not self.counting:
            return
        self.last_seen = [self.tid.get(id(t), -1) for t in held]
        if self.crash_next:
            raise Boom("crash")

    def T(self, ids):
        return [self.tens[i] for i in ids]

    def do(self, label, dst):
        """executes one spec action; dst = the successor state predicted by TLC"""
        m = re.match(r'(\w+)(?:\((.*)\))?', label)
        name, arg = m.group(1), m.group(2)
        if name == "NewView":
            v = arg.strip('"')
            if v == "pf":
                self.views[v] = get_pure_function(self.obj.f)
            else:
                meth = self.obj.f
                self.views[v] = make_sibling(meth)(lambda y: meth(y) * 1.0)
        elif name == "NewJac":
            self.J = xitorch.grad.jac(self.views["pf"], (self.y,), idxs=0)
        elif name in ("EnterUse", "JacProduct"):
            if name == "JacProduct":
                v, P = "pf", self.J.objparams
            else:
                mm = re.match(r'"(\w+)",\s*<<(.*)>>', arg)
                v, P = mm.group(1), self.T([int(x) for x in mm.group(2).split(",") if x.strip()])
            cm = self.views[v].useobjparams(P)
            cm.__enter__()
            self.frames.append(cm)
        elif name == "RefusedUse":
            v = arg.strip('"')
            cm = self.views[v].useobjparams(list(self.views[v].objparams()))
            try:
                cm.__enter__()
                raise Machinery("substitution was not refused although state change is disabled")
            except RuntimeError as e:
                self.exc = e
        elif name == "EnterDisable":
            cm = self.views[arg.strip('"')].disable_state_change()
            cm.__enter__()
            self.frames.append(cm)
        elif name == "EnterDebug":
            cm = xitorch.enable_debug() if arg == "TRUE" else xitorch.disable_debug()
            cm.__enter__()
            self.frames.append(cm)
        elif name == "EnterLinop":
            P = self.T([int(x) for x in arg.strip("<>").split(",") if x.strip()])
            cm = self.J.uselinopparams(self.y, *P)
            cm.__enter__()
            self.frames.append(cm)
        elif name == "Exit":
            self.frames.pop().__exit__(None, None, None)
        elif name == "Unwind":
            e = self.exc
            r = None
            try:
                r = self.frames.pop().__exit__(type(e), e, e.__traceback__)
            except BaseException as e2:      # contextmanager re-raises the exception it was given
                if e2 is not e:
                    raise
            if r:
                raise Machinery("a context manager swallowed the exception")
        elif name == "Propagated":
            self.exc = None
        elif name == "Eval":
            v = arg.strip('"')
            self.counting = True
            self.crash_next = bool(dst["unwinding"])
            try:
                self.views[v](self.y)
            except Boom as e:
                self.exc = e
            finally:
                self.counting = False
                self.crash_next = False
        else:
            raise Machinery("unknown action label %r" % label)

    # ---------------------------------------------------------------- projection and comparison
    def ids(self, lst):
        return [self.tid.get(id(t), -1) for t in lst]

    def compare(self, st, label):
        """None if the real state equals spec state `st`, else text"""
        real_slots = self.ids(self.obj.held())
        if real_slots != list(st["slots"]):
            return "object holds %s, specification %s" % (real_slots, list(st["slots"]))
        if self.kind == "nn":
            reg = [NN_NAMES.index(n) + 1 for n in self.obj._parameters.keys()]
            if reg != list(st["reg"]):
                return "Parameter registration order %s, specification %s" % (reg, list(st["reg"]))
        for v, view in self.views.items():
            if v not in st["cur"]:
                return "view %s exists but not in specification" % v
            bel = self.ids(view._cur_objparams)
            sbel = list(st["heap"][st["cur"][v] - 1])
            if bel != sbel:
                return "view %s believes %s, specification %s" % (v, bel, sbel)
            rs = [(self.ids(old), bool(idn)) for old, idn in view._restore_stack]
            ss = [(list(st["heap"][e["old"] - 1]), bool(e["ident"])) for e in st["stack"][v]]
            if rs != ss:
                return "restore stack of %s is %s, specification %s" % (v, rs, ss)
            if bool(view._state_change_allowed) != bool(st["allowed"][v]):
                return "state-change flag of %s differs" % v
        if self.J is not None:
            if st["jacList"] == 0:
                return "Jacobian operator exists but not in specification"
            jl = self.ids(self.J.objparams)
            if jl != list(st["heap"][st["jacList"] - 1]):
                return "Jacobian operator's object parameters %s, specification %s" % (jl, list(st["heap"][st["jacList"] - 1]))
            shares = self.J.objparams is self.views["pf"]._cur_objparams
            if shares != (st["jacList"] == st["cur"]["pf"]):
                return "Jacobian operator %s the function's current-parameter list object, specification says the opposite" % (
                    "shares" if shares else "does not share")
        if (xitorch.is_debug_enabled() != self.debug0) != bool(st["debug"]):
            return "debug flag differs from specification"
        if len(self.frames) != len(st["frames"]):
            return "number of open blocks differs"
        if (self.exc is not None) != bool(st["unwinding"]):
            return "exception in flight: %s, specification %s" % (self.exc is not None, st["unwinding"])
        if label.startswith("Eval"):
            v = label[6:-2]
            fr = st["frames"][-1]
            vc0 = list(st["vc0"][v])
            uniq = []
            for t in vc0:
                if t not in uniq:
                    uniq.append(t)
            expect = [fr["req"][uniq.index(t)] for t in vc0]
            ok = [self.last_seen[n - 1] for n in st["vnames"][v]] == expect
            if ok != bool(st["lastEval"]["ok"]):
                return "user function saw %s, requested %s, specification predicts ok=%s" % (self.last_seen, expect, st["lastEval"]["ok"])
        return None

    def cleanup(self):
        """leave global state (debug flag) as found"""
        while self.frames:
            try:
                self.frames.pop().__exit__(None, None, None)
            except Exception:
                pass
        xitorch.set_debug_mode(self.debug0)
