"""Replay of spec/OperandPattern.tla on solve / symeig: every pattern of absent / differentiable / non-differentiable operands."""
import os
import warnings

import torch
import xitorch
import xitorch.linalg
from xitorch import LinearOperator

from . import tlc as tlcmod

DT = torch.float64
N = 4
METHODS = {"solve": [(None, {}, 1e-8), ("cg", {"rtol": 1e-11, "atol": 1e-13, "max_niter": 80}, 2e-6), ("bicgstab", {"rtol": 1e-11, "atol": 1e-13, "max_niter": 80}, 2e-6)],
           "symeig": [(None, {}, 1e-8), ("custom_exacteig", {}, 1e-8), ("davidson", {"min_eps": 1e-11}, 2e-6)]}


def build(f, kA, kB, kE, kM, seed):
    g = torch.Generator().manual_seed(4000 + seed)
    P = torch.randn(N, N, generator=g, dtype=DT).requires_grad_(kA == "tg")
    B = torch.randn(N, 2, generator=g, dtype=DT).requires_grad_(kB == "tg") if kB != "none" else None
    E = (-(torch.rand(2, generator=g, dtype=DT) + 0.5)).requires_grad_(kE == "tg") if kE != "none" else None
    Q = torch.randn(N, N, generator=g, dtype=DT).requires_grad_(kM == "tg") if kM != "none" else None
    return P, B, E, Q


def mats(P, Q):
    Amat = (P + P.T) * 0.5 + 4.0 * torch.eye(N, dtype=DT)
    Mmat = ((Q + Q.T) * 0.05 + torch.eye(N, dtype=DT)) if Q is not None else None
    return Amat, Mmat


def evaluate(f, P, B, E, Q, method, opts, dense):
    Amat, Mmat = mats(P, Q)
    if f == "solve":
        if dense:
            cols = []
            for c in range(2):
                K = Amat if E is None else Amat - E[c] * (Mmat if Mmat is not None else torch.eye(N, dtype=DT))
                cols.append(torch.linalg.solve(K, B[:, c:c + 1]))
            return torch.cat(cols, dim=-1)
        return xitorch.linalg.solve(LinearOperator.m(Amat, is_hermitian=True), B, E, LinearOperator.m(Mmat, is_hermitian=True) if Mmat is not None else None,
                                    method=method, **opts)
    if dense:
        if Mmat is None:
            ev, U = torch.linalg.eigh(Amat)
        else:
            L = torch.linalg.cholesky(Mmat)
            Li = torch.linalg.inv(L)
            ev, Uc = torch.linalg.eigh(Li @ Amat @ Li.T)
            U = Li.T @ Uc
        return torch.cat([ev[:2], (U[:, :2] ** 2).reshape(-1)])
    ev, U = xitorch.linalg.symeig(LinearOperator.m(Amat, is_hermitian=True), neig=2, mode="lowest", M=LinearOperator.m(Mmat, is_hermitian=True) if Mmat is not None else None,
                                  method=method, **opts)
    return torch.cat([ev, (U ** 2).reshape(-1)])


def grads2(out, leaves):
    w = torch.cos(torch.arange(out.numel(), dtype=DT) * 0.9 + 0.3).reshape(out.shape)
    if not out.requires_grad:
        return [None] * len(leaves), [None] * len(leaves)
    g1 = torch.autograd.grad((out * w).sum(), leaves, create_graph=True, allow_unused=True)
    s = sum((x ** 2).sum() for x in g1 if x is not None and x.requires_grad)
    if isinstance(s, torch.Tensor) and s.requires_grad:
        g2 = torch.autograd.grad(s, leaves, allow_unused=True)
    else:
        g2 = [None] * len(leaves)
    return list(g1), list(g2)


def replay(ctx, functionals, prefix):
    t, cf = tlcmod.gen_mc(ctx.work, "OperandPattern", "MC_OperandPattern", dict(Fs=set(functionals)),
                          invariants=["NeverRaises", "NoGradWithoutRequest", "IgnoredMetricGetsNothing"])
    dot = os.path.join(ctx.work, "opat.dot")
    ctx.model_check(t, cf, workers=4, dump_dot=dot, label="operand gradient pattern table", timeout=300)
    nodes, _, _ = tlcmod.parse_dot(dot)
    os.remove(dot)
    n = 0
    with warnings.catch_warnings():
        warnings.simplefilter("ignore")
        for st in sorted(nodes.values(), key=lambda s_: (s_["f"], s_["kA"], s_["kB"], s_["kE"], s_["kM"])):
            f, kA, kB, kE, kM, pred = st["f"], st["kA"], st["kB"], st["kE"], st["kM"], st["pred"]
            for method, opts, tol in METHODS[f]:
                n += 1
                ctx.case(key=("operand-pattern", f, kA, kB, kE, kM, method))
                why = None
                try:
                    P, B, E, Q = build(f, kA, kB, kE, kM, ctx.seed)
                    named = [(nm, t_) for nm, t_ in (("A", P), ("B", B), ("E", E), ("M", Q)) if t_ is not None and t_.requires_grad]
                    leaves = [t_ for _, t_ in named]
                    if n % 3 == 0:
                        import contextlib, io
                        with xitorch.enable_debug(), contextlib.redirect_stdout(io.StringIO()):       # debug mode: operators are checked (shape, linearity, adjoint) before use
                            out = evaluate(f, P, B, E, Q, method, dict(opts), False)
                    else:
                        out = evaluate(f, P, B, E, Q, method, dict(opts), False)
                    ref = evaluate(f, P, B, E, Q, None, {}, True)
                    if not torch.allclose(out, ref, atol=tol, rtol=tol):
                        why = "value differs from the dense reference by %.2e" % float((out - ref).abs().max())
                    elif leaves:
                        g1, g2 = grads2(out, leaves)
                        r1, r2 = grads2(ref, leaves)
                        for (nm, leaf), a1, b1, a2, b2 in zip(named, g1, r1, g2, r2):
                            z = torch.zeros_like(leaf)
                            a1_, b1_ = (a1 if a1 is not None else z), (b1 if b1 is not None else z)
                            a2_, b2_ = (a2 if a2 is not None else z), (b2 if b2 is not None else z)
                            expect = pred["g" + nm]
                            nz = float(a1_.detach().abs().max()) > 0
                            if expect == "none_or_zero" and nz:
                                why = "operand %s does not influence the result but received a non-zero gradient" % nm
                            elif expect == "nonzero" and not nz:
                                why = "operand %s requires grad and influences the result but received %s" % (nm, "no gradient" if a1 is None else "a zero gradient")
                            elif not torch.allclose(a1_, b1_, atol=20 * tol, rtol=20 * tol):
                                why = "first-order gradient w.r.t. %s differs from the dense reference by %.2e" % (nm, float((a1_ - b1_).abs().max()))
                            elif not torch.allclose(a2_, b2_, atol=2000 * tol, rtol=2000 * tol):
                                why = "second-order gradient w.r.t. %s differs from the dense reference by %.2e" % (nm, float((a2_ - b2_).abs().max()))
                            if why:
                                break
                except Exception as e:
                    why = "raised %s: %s" % (type(e).__name__, str(e)[:150])
                if why:
                    ctx.violation("%s/operand-pattern/%s" % (prefix, f), "%s(method=%s) with operands A:%s B:%s E:%s M:%s (tg: requires grad, tn: no grad, none: absent): %s"
                                  % (f, method, kA, kB, kE, kM, why), {"f": f, "kinds": [kA, kB, kE, kM], "method": method})
    n += shared_leaf_rows(ctx, functionals, prefix)
    return n


def shared_leaf_rows(ctx, functionals, prefix):
    """all operands computed from ONE leaf (operator, right-hand side, shifts and metric depend on each other through it):
    the gradient w.r.t. the leaf is the total derivative of the dense reference"""
    n = 0
    eye = torch.eye(N, dtype=DT)
    with warnings.catch_warnings():
        warnings.simplefilter("ignore")
        for f in functionals:
            for method, opts, tol in METHODS[f]:
                for cg in (False, True):
                    n += 1
                    ctx.case(key=("operand-shared-leaf", f, method, cg))
                    g = torch.Generator().manual_seed(4100 + ctx.seed)
                    P = (torch.randn(N, N, generator=g, dtype=DT) * 0.3).requires_grad_()

                    def build(Pm):
                        Am = (Pm + Pm.T) * 0.5 + (4.0 * eye if f == "solve" else torch.diag(torch.arange(N, dtype=DT)))
                        return Am, Pm @ torch.ones(N, 2, dtype=DT) + 1.0, -(Pm.diagonal()[:2] ** 2 + 0.5), eye + 0.05 * (Pm @ Pm.T)
                    why = None
                    try:
                        wv = torch.cos(torch.arange(2 + 2 * N, dtype=DT) * 0.7)
                        Am, B, E, Mm = build(P)
                        P2 = P.detach().clone().requires_grad_()
                        Am2, B2, E2, Mm2 = build(P2)
                        if f == "solve":
                            X = xitorch.linalg.solve(LinearOperator.m(Am, is_hermitian=True), B, E, LinearOperator.m(Mm, is_hermitian=True), method=method, **opts)
                            Xr = torch.cat([torch.linalg.solve(Am2 - E2[c] * Mm2, B2[:, c:c + 1]) for c in range(2)], dim=-1)
                            L, Lr = (X ** 2).sum(), (Xr ** 2).sum()
                        else:
                            ev, U = xitorch.linalg.symeig(LinearOperator.m(Am, is_hermitian=True), neig=2, mode="lowest", M=LinearOperator.m(Mm, is_hermitian=True), method=method, **opts)
                            Lc = torch.linalg.cholesky(Mm2)
                            Li = torch.linalg.inv(Lc)
                            e2, Uc = torch.linalg.eigh(Li @ Am2 @ Li.T)
                            U2 = (Li.T @ Uc)[:, :2]
                            L = (torch.cat([ev, (U ** 2).reshape(-1)]) * wv).sum()
                            Lr = (torch.cat([e2[:2], (U2 ** 2).reshape(-1)]) * wv).sum()
                        g1, = torch.autograd.grad(L, P, create_graph=cg)
                        r1, = torch.autograd.grad(Lr, P2, create_graph=cg)
                        if not torch.allclose(g1, r1, atol=40 * tol, rtol=40 * tol):
                            why = "gradient w.r.t. the shared leaf differs from the dense reference by %.2e" % float((g1 - r1).abs().max())
                        elif cg:
                            h1, = torch.autograd.grad((g1 ** 2).sum(), P)
                            h2, = torch.autograd.grad((r1 ** 2).sum(), P2)
                            if not torch.allclose(h1, h2, atol=4000 * tol, rtol=4000 * tol):
                                why = "second-order gradient w.r.t. the shared leaf differs from the dense reference by %.2e" % float((h1 - h2).abs().max())
                    except Exception as e:
                        why = "raised %s: %s" % (type(e).__name__, str(e)[:150])
                    if why:
                        ctx.violation("%s/operand-shared-leaf/%s" % (prefix, f), "%s(method=%s), every operand computed from one leaf, backward %s graph recording: %s"
                                      % (f, method, "with" if cg else "without", why), {"f": f, "method": method})
    return n
