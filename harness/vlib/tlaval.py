"""Parser for TLA+ values as printed by TLC (state dumps, error traces, -simulate files).

Python mapping: records -> dict, sequences/tuples -> list, sets -> frozenset-like sorted list wrapped in
TlaSet (list subclass), functions (a :> b @@ ...) -> dict, strings -> str, ints -> int, booleans -> bool,
model values / identifiers -> Ident(str).
"""
import re


class TlaSet(list):
    pass


class Ident(str):
    pass


_tok = re.compile(r'\s*(<<|>>|\|->|:>|@@|\.\.|[\[\]\{\}\(\),]|"(?:[^"\\]|\\.)*"|-?\d+|[A-Za-z_][A-Za-z0-9_!]*)')


def tokenize(s):
    pos = 0
    out = []
    n = len(s)
    while pos < n:
        m = _tok.match(s, pos)
        if not m:
            if s[pos:].strip() == "":
                break
            raise ValueError("cannot tokenize at %r" % s[pos:pos + 40])
        out.append(m.group(1))
        pos = m.end()
    return out


class _P:
    def __init__(self, toks):
        self.t = toks
        self.i = 0

    def peek(self):
        return self.t[self.i] if self.i < len(self.t) else None

    def next(self):
        x = self.t[self.i]
        self.i += 1
        return x

    def expect(self, x):
        y = self.next()
        if y != x:
            raise ValueError("expected %r got %r at %d" % (x, y, self.i))

    def value(self):
        t = self.next()
        if t == "<<":
            items = []
            if self.peek() == ">>":
                self.next()
                return items
            while True:
                items.append(self.value())
                t2 = self.next()
                if t2 == ">>":
                    return items
                if t2 != ",":
                    raise ValueError("bad tuple sep %r" % t2)
        if t == "{":
            items = TlaSet()
            if self.peek() == "}":
                self.next()
                return items
            while True:
                items.append(self.value())
                t2 = self.next()
                if t2 == "}":
                    return items
                if t2 != ",":
                    raise ValueError("bad set sep %r" % t2)
        if t == "[":
            d = {}
            if self.peek() == "]":
                self.next()
                return d
            while True:
                k = self.next()
                self.expect("|->")
                d[str(k)] = self.value()
                t2 = self.next()
                if t2 == "]":
                    return d
                if t2 != ",":
                    raise ValueError("bad record sep %r" % t2)
        if t == "(":
            d = {}
            while True:
                k = self.value()
                self.expect(":>")
                v = self.value()
                d[_hashable(k)] = v
                t2 = self.next()
                if t2 == ")":
                    return d
                if t2 != "@@":
                    raise ValueError("bad fn sep %r" % t2)
        if t.startswith('"'):
            return bytes(t[1:-1], "utf-8").decode("unicode_escape")
        if re.fullmatch(r"-?\d+", t):
            v = int(t)
            if self.peek() == "..":
                self.next()
                hi = int(self.next())
                return TlaSet(range(v, hi + 1))
            return v
        if t == "TRUE":
            return True
        if t == "FALSE":
            return False
        return Ident(t)


def _hashable(k):
    if isinstance(k, list):
        return tuple(_hashable(x) for x in k)
    if isinstance(k, dict):
        return tuple(sorted((a, _hashable(b)) for a, b in k.items()))
    return k


def parse_value(s):
    p = _P(tokenize(s))
    v = p.value()
    if p.peek() is not None:
        raise ValueError("trailing tokens: %r" % p.t[p.i:p.i + 5])
    return v


_conj = re.compile(r'^/\\ ([A-Za-z_][A-Za-z0-9_]*) = ', re.M)


def parse_state(text):
    """text: conjunction '/\\ v = val' (possibly multi-line values) or single 'v = val'."""
    text = text.strip()
    if not text.startswith("/\\"):
        text = "/\\ " + text
    ms = list(_conj.finditer(text))
    st = {}
    for i, m in enumerate(ms):
        end = ms[i + 1].start() if i + 1 < len(ms) else len(text)
        st[m.group(1)] = parse_value(text[m.end():end])
    return st


def parse_dump(path):
    """TLC '-dump file' (plain format): 'State N:' blocks."""
    txt = open(path).read()
    blocks = re.split(r'^State \d+:\s*$', txt, flags=re.M)
    return [parse_state(b) for b in blocks[1:] if b.strip()]


def to_tla(v):
    """Python -> TLA+ literal."""
    if isinstance(v, bool):
        return "TRUE" if v else "FALSE"
    if isinstance(v, int):
        return str(v)
    if isinstance(v, Ident):
        return str(v)
    if isinstance(v, str):
        return '"%s"' % v.replace("\\", "\\\\").replace('"', '\\"')
    if isinstance(v, (TlaSet, set, frozenset)):
        return "{" + ", ".join(to_tla(x) for x in v) + "}"
    if isinstance(v, (list, tuple)):
        return "<<" + ", ".join(to_tla(x) for x in v) + ">>"
    if isinstance(v, dict):
        if not v:
            return "<<>>"
        if all(isinstance(k, str) and re.fullmatch(r"[A-Za-z_][A-Za-z0-9_]*", k) for k in v):
            return "[" + ", ".join("%s |-> %s" % (k, to_tla(x)) for k, x in v.items()) + "]"
        return "(" + " @@ ".join("%s :> %s" % (to_tla(k), to_tla(x)) for k, x in v.items()) + ")"
    raise TypeError("cannot convert %r" % (v,))
