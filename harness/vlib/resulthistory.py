"""Replay of spec/ResultHistory.tla: every history of calls (TLC) is executed; after each call every earlier result and every
tensor the caller passed in must be bit-identical to what it was, and a new result must not share storage with an earlier one."""
import os
import warnings

import torch
import xitorch
import xitorch.integrate
import xitorch.interpolate
import xitorch.linalg
import xitorch.optimize
from xitorch import LinearOperator

from . import tlc as tlcmod

DT = torch.float64


def _inputs(k):
    g = torch.Generator().manual_seed(900 + k)
    Q, _ = torch.linalg.qr(torch.randn(4, 4, generator=g, dtype=DT))
    A = (Q * torch.linspace(1.0, 3.0, 4, dtype=DT)) @ Q.T
    return {"A": A, "B": torch.randn(4, 2, generator=g, dtype=DT), "c": torch.randn(3, generator=g, dtype=DT) * 0.5,
            "W": torch.randn(3, 3, generator=g, dtype=DT) * 0.2, "y0": torch.zeros(3, dtype=DT), "ts": torch.linspace(0.0, 0.5 + 0.1 * k, 4, dtype=DT),
            "a": torch.tensor(0.6 + 0.1 * k, dtype=DT), "xs": torch.linspace(0.0, 1.0, 6, dtype=DT) ** (1.0 + 0.2 * k), "ys": torch.randn(6, generator=g, dtype=DT),
            "xq": torch.rand(4, generator=g, dtype=DT), "M": _spd(1900 + k)}


def _spd(seed):
    # (a generator of its own: the other inputs stay what they were before the metric was added)
    g = torch.Generator().manual_seed(seed)
    Q, _ = torch.linalg.qr(torch.randn(4, 4, generator=g, dtype=DT))
    return (Q * torch.linspace(0.8, 1.6, 4, dtype=DT)) @ Q.T


def _tuple(x):
    return list(x) if isinstance(x, (tuple, list)) else [x]


CALLS = {
    "solve:exact": lambda i: xitorch.linalg.solve(LinearOperator.m(i["A"], is_hermitian=True), i["B"]),
    "solve:cg": lambda i: xitorch.linalg.solve(LinearOperator.m(i["A"], is_hermitian=True), i["B"], method="cg"),
    "solve:bicgstab": lambda i: xitorch.linalg.solve(LinearOperator.m(i["A"], is_hermitian=True), i["B"], -torch.ones(2, dtype=DT), method="bicgstab"),
    "solve:gmres": lambda i: xitorch.linalg.solve(LinearOperator.m(i["A"], is_hermitian=True), i["B"], method="gmres"),
    "symeig:exact": lambda i: xitorch.linalg.symeig(LinearOperator.m(i["A"], is_hermitian=True), neig=2),
    "symeig:davidson": lambda i: xitorch.linalg.symeig(LinearOperator.m(i["A"], is_hermitian=True), neig=2, method="davidson"),
    "svd": lambda i: xitorch.linalg.svd(LinearOperator.m(i["A"][:, :3], is_hermitian=False), k=2),
    "rootfinder:broyden1": lambda i: xitorch.optimize.rootfinder(lambda y, W, c: y - c - 0.3 * torch.tanh(W @ y), i["y0"], params=(i["W"], i["c"])),
    "rootfinder:newton": lambda i: xitorch.optimize.rootfinder(lambda y, W, c: y - c - 0.3 * torch.tanh(W @ y), i["y0"], params=(i["W"], i["c"]), method="newton"),
    "equilibrium:anderson": lambda i: xitorch.optimize.equilibrium(lambda y, W, c: c + 0.3 * torch.tanh(W @ y), i["y0"], params=(i["W"], i["c"]), method="anderson_acc"),
    "minimize:gd": lambda i: xitorch.optimize.minimize(lambda y, W, c: (0.5 * (y - c) ** 2).sum() + 0.1 * torch.log(torch.cosh(W @ y)).sum(), i["y0"], params=(i["W"], i["c"]),
                                                     method="gd", step=0.3, maxiter=50),
    "minimize:adam": lambda i: xitorch.optimize.minimize(lambda y, W, c: (0.5 * (y - c) ** 2).sum(), i["y0"], params=(i["W"], i["c"]), method="adam", step=0.05, maxiter=30),
    "solve_ivp:rk4": lambda i: xitorch.integrate.solve_ivp(lambda t, y, W, c: -y + 0.3 * torch.tanh(W @ y) + c, i["ts"], i["c"] * 1.0, params=(i["W"], i["c"]), method="rk4"),
    "solve_ivp:rk45": lambda i: xitorch.integrate.solve_ivp(lambda t, y, W, c: -y + 0.3 * torch.tanh(W @ y) + c, i["ts"], i["c"] * 1.0, params=(i["W"], i["c"]), method="rk45"),
    "solve_ivp:rk23": lambda i: xitorch.integrate.solve_ivp(lambda t, y, W, c: -y + 0.3 * torch.tanh(W @ y) + c, i["ts"], i["c"] * 1.0, params=(i["W"], i["c"]), method="rk23"),
    "quad": lambda i: xitorch.integrate.quad(lambda x, a: torch.sin(a * x) * torch.ones(2, dtype=DT), 0.1, 0.9, params=(i["a"],), n=8),
    "mcquad": lambda i: xitorch.integrate.mcquad(lambda x, a: a * x.sum() + a ** 2, lambda x, a: (-0.5 * (x - a) ** 2).sum(), torch.zeros(1, dtype=DT), fparams=(i["a"],), pparams=(i["a"],),
                                                  method="mhcustom", nsamples=4, nburnout=2, custom_step=lambda x, *p: x * 0.5 + 0.3),
    # user functions that hand back one of the caller's own tensors (a constant integrand / right-hand side): the functional may not
    # accumulate into what the function returned
    "quad:alias": lambda i: xitorch.integrate.quad(lambda x, v: v, 0.1, 0.9, params=(i["c"],), n=4),
    "solve_ivp:alias": lambda i: xitorch.integrate.solve_ivp(lambda t, y, c: c, i["ts"], torch.zeros(3, dtype=DT), params=(i["c"],), method="rk4"),
    "solve_ivp:alias45": lambda i: xitorch.integrate.solve_ivp(lambda t, y, c: c, i["ts"], torch.zeros(3, dtype=DT), params=(i["c"],), method="rk45"),
    "mcquad:alias": lambda i: xitorch.integrate.mcquad(lambda x, c: c, lambda x, a: (-0.5 * (x - a) ** 2).sum(), torch.zeros(1, dtype=DT), fparams=(i["c"],), pparams=(i["a"],),
                                                        method="mhcustom", nsamples=4, nburnout=2, custom_step=lambda x, *p: x * 0.5 + 0.3),
    "interp1d:cspline": lambda i: xitorch.interpolate.Interp1D(i["xs"], i["ys"], method="cspline")(i["xq"]),
    "interp1d:linear": lambda i: xitorch.interpolate.Interp1D(i["xs"], i["ys"], method="linear")(i["xq"]),
    "squad:simpson": lambda i: xitorch.integrate.SQuad(i["xs"], method="simpson").cumsum(i["ys"]),
    "squad:cspline": lambda i: xitorch.integrate.SQuad(i["xs"], method="cspline").cumsum(i["ys"]),
}


def replay(ctx, names, prefix, maxlen=3):
    base = dict(Fs=set(names), MaxLen=maxlen, OwnStorage=True)
    t, cf = tlcmod.gen_mc(ctx.work, "ResultHistory", "MC_ResultHistory", base, invariants=["EarlierResultsUntouched"])
    dot = os.path.join(ctx.work, "rh.dot")
    ctx.model_check(t, cf, workers=4, dump_dot=dot, label="call histories (results and inputs stay the caller's)", timeout=300)
    nodes, _, _ = tlcmod.parse_dot(dot)
    os.remove(dot)
    t2, cf2 = tlcmod.gen_mc(ctx.work, "ResultHistory", "MC_ResultHistory_dev", dict(base, OwnStorage=False), invariants=["EarlierResultsUntouched"])
    ctx.expect_violation(t2, cf2, inv="EarlierResultsUntouched", label="deviation OwnStorage", workers=4, timeout=300)
    ctx.check_proof("ResultHistory_proofs")    # histories of any length
    full = sorted([[c_["f"] for c_ in s_["hist"]] for s_ in nodes.values() if len(s_["hist"]) == maxlen])
    n = 0
    with warnings.catch_warnings():
        warnings.simplefilter("ignore")
        for hist in full:
            n += 1
            ctx.case(key=("result-history", tuple(hist)))
            held = []       # (call name, tensors, snapshots)
            why = None
            for pos, name in enumerate(hist):
                inp = _inputs(pos + len(name) % 3)
                snap_in = {k: v.clone() for k, v in inp.items()}
                try:
                    with torch.no_grad():
                        res = _tuple(CALLS[name](inp))
                except Exception as e:
                    why = "call %d (%s) raised %s: %s" % (pos + 1, name, type(e).__name__, str(e)[:100])
                    break
                for k, v in inp.items():
                    if not torch.equal(v, snap_in[k]):
                        why = "call %d (%s) modified the caller's input tensor '%s'" % (pos + 1, name, k)
                for (nm0, ts0, sn0, p0) in held:
                    for j, (t0, s0) in enumerate(zip(ts0, sn0)):
                        if not torch.equal(t0, s0):
                            why = "the result of call %d (%s) changed when call %d (%s) ran" % (p0 + 1, nm0, pos + 1, name)
                        for r in res:
                            if r.numel() > 0 and t0.numel() > 0 and r.untyped_storage().data_ptr() == t0.untyped_storage().data_ptr():
                                why = "the result of call %d (%s) shares its storage with the result of call %d (%s)" % (pos + 1, name, p0 + 1, nm0)
                if why:
                    break
                held.append((name, res, [r.clone() for r in res], pos))
            if why:
                ctx.violation("%s/result-history/%s" % (prefix, hist[-1].split(":")[0]), "history %s: %s" % (hist, why), {"history": hist})
    return n
